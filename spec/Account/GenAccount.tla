----------------------------- MODULE GenAccount -----------------------------
(* C39, G: seeded histories of Account.  Walk number sd starts in a pseudo-random account state (any default rule,
   preferences, authorized depositors, existing empty vaults) and performs K operations drawn from the same stream:
   mostly deposits (6 methods, batches of 0..3 buckets over 3 resources with amounts 0..2, named badge none / one of
   4, any subset of the 3 proofs, owner signature or not), sometimes a configuration change.  Every step is an
   instance of an action of Account.tla; the walk is printed with the outcome class, the returned buckets, the
   events and the complete state after every step.                                                   *)
EXTENDS Account, Json
CONSTANTS K, Walks, Seed
VARIABLES sd, step, hist,
          rs          \* the random stream of the walk (computed once)
gvars == <<vars, sd, step, hist, rs>>

Rnd(x) == (x * 1103 + 12345) % 65521
RECURSIVE RndSeq(_, _)
RndSeq(x, len) == IF len = 0 THEN <<>> ELSE LET y == Rnd(x) IN <<y \div 7>> \o RndSeq(y, len - 1)
Stream(s) == RndSeq((Seed + s * 7919) % 65521, 16 + 16 * K)

ResSeq == <<"X", "A", "B">>
BadgeSeq == <<"b1", "b2", "b3", "b4">>
TokSeq == <<"pF", "pN1", "sig">>
DefSeq == <<"accept", "reject", "existing">>
PrefSeq == <<"unset", "allowed", "disallowed", "unset">>
OpSeq == <<"try_deposit_or_refund", "try_deposit_batch_or_refund", "try_deposit_or_abort", "try_deposit_batch_or_abort",
           "try_deposit_batch_or_refund", "try_deposit_batch_or_abort", "deposit", "deposit_batch">>
NamedSeq == <<"none", "b1", "b2", "b3", "b4", "b1", "b2">>

State == [default |-> default, pref |-> pref, depositors |-> depositors, vault |-> vault, bal |-> bal, src |-> src, sink |-> sink]
StateP == [default |-> default', pref |-> pref', depositors |-> depositors', vault |-> vault', bal |-> bal', src |-> src', sink |-> sink']

(* Walks 1..NSys are not random: the full product  per-bucket decision inputs (XRD or not x preference x default
   rule x vault exists = 36)  x  the 4 guarded methods  x  badge status (none / named but unlisted / listed but unproven /
   listed and proven), each as a one-call history on a fresh account - independent of the seed.        *)
NSys1 == 576
(* Walks NSys1+1..NSys: the same 36 input combinations x the 2 batch methods x an EMPTY bucket of the resource, alone
   and next to a non-empty bucket of another (unconfigured) resource, followed by a guarded single deposit of one unit of
   the resource (under AllowExisting the outcome of the follow-up tells whether the empty bucket created a vault).   *)
NSys == NSys1 + 144
Sys == sd <= NSys
Sys2 == sd > NSys1 /\ sd <= NSys
NoBadge == [named |-> "none", proofs |-> {}, owner |-> FALSE]
SysR == IF (sd - 1) % 2 = 0 THEN "A" ELSE "X"
SysPref == <<"unset", "allowed", "disallowed">>[(((sd - 1) \div 2) % 3) + 1]
SysDefault == DefSeq[(((sd - 1) \div 6) % 3) + 1]
SysVault == IF ((sd - 1) \div 18) % 2 = 1 THEN {SysR} ELSE {}
Sys2Op == IF ((sd - NSys1 - 1) \div 36) % 2 = 0 THEN "try_deposit_batch_or_refund" ELSE "try_deposit_batch_or_abort"
Sys2Bs == IF ((sd - NSys1 - 1) \div 72) % 2 = 0 THEN <<[r |-> SysR, a |-> 0]>>
          ELSE <<[r |-> SysR, a |-> 0], [r |-> IF SysR = "A" THEN "B" ELSE "A", a |-> 1]>>
SysOp == <<"try_deposit_or_refund", "try_deposit_batch_or_refund", "try_deposit_or_abort", "try_deposit_batch_or_abort">>[(((sd - 1) \div 36) % 4) + 1]
SysCaller == <<[named |-> "none", proofs |-> {}, owner |-> FALSE], [named |-> "b2", proofs |-> {"pN1"}, owner |-> FALSE],
               [named |-> "b1", proofs |-> {"pN1"}, owner |-> FALSE], [named |-> "b1", proofs |-> {"pF"}, owner |-> FALSE]>>[(((sd - 1) \div 144) % 4) + 1]
Bound == IF Sys2 THEN 2 ELSE IF Sys THEN 1 ELSE K
GInit ==
  /\ sd \in 1..Walks /\ step = 0
  /\ rs = Stream(sd)
  /\ LET r == rs
     IN IF Sys
        THEN /\ default = SysDefault /\ pref = [x \in Resources |-> IF x = SysR THEN SysPref ELSE "unset"]
             /\ depositors = {"b1"} /\ vault = SysVault
        ELSE /\ default = DefSeq[(r[1] % 3) + 1]
             /\ pref = [x \in Resources |-> PrefSeq[(r[IF x = "X" THEN 2 ELSE IF x = "A" THEN 3 ELSE 4] % 4) + 1]]
             /\ depositors = {BadgeSeq[i] : i \in {j \in 1..4 : r[4 + j] % 3 = 0}}
             /\ vault = {ResSeq[i] : i \in {j \in 1..3 : r[8 + j] % 2 = 0}}
  /\ bal = Zero /\ src = Zero /\ sink = Zero
  /\ last = [op |-> "init", arg |-> NoArg, bs |-> <<>>, c |-> NoCaller, class |-> "ok", returned |-> <<>>, events |-> <<>>]
  /\ hist = <<[op |-> "init", arg |-> NoArg, bs |-> <<>>, c |-> NoCaller, class |-> "ok", returned |-> <<>>, events |-> <<>>, st |-> State,
              cell |-> [all |-> TRUE, badge |-> "none", dup |-> FALSE, empty |-> FALSE, newvault |-> FALSE, inputs |-> {}]]>>

\* the operation of step j of walk sd
Bucket(r, p, i) == [r |-> ResSeq[(r[p + 2 + i] % 3) + 1], a |-> r[p + 5 + i] % 3]
StepAction(j) ==
  LET r == rs
      p == 16 + (j - 1) * 16
      c == [named |-> NamedSeq[(r[p + 9] % 7) + 1],
            proofs |-> {TokSeq[i] : i \in {t \in 1..3 : r[p + 9 + t] % 2 = 0}},
            owner |-> r[p + 13] % 3 # 0]
      op == OpSeq[(r[p + 1] % 8) + 1]
      single == op \in {"try_deposit_or_refund", "try_deposit_or_abort", "deposit"}
      n == IF single THEN 1 ELSE r[p + 2] % 4
      bs == [i \in 1..n |-> Bucket(r, p, i)]
      k == r[p] % 8
      x == ResSeq[(r[p + 3] % 3) + 1]
      b == BadgeSeq[(r[p + 4] % 4) + 1]
      oc == [named |-> "none", proofs |-> {}, owner |-> c.owner]
  IN IF k >= 2 THEN Call(op, bs, IF op \in OwnerOps THEN oc ELSE [c EXCEPT !.owner = FALSE])
     ELSE IF k = 0
          THEN (IF r[p + 5] % 3 = 0 THEN SetDefault(DefSeq[(r[p + 6] % 3) + 1], oc)
                ELSE IF r[p + 5] % 3 = 1 THEN SetPref(x, IF r[p + 6] % 2 = 0 THEN "allowed" ELSE "disallowed", oc)
                ELSE RemovePref(x, oc))
          ELSE (IF r[p + 5] % 2 = 0 THEN AddDepositor(b, oc) ELSE RemoveDepositor(b, oc))
\* which row of the statement's case analysis the step exercises (evaluated on the state before the step)
Cell == [all |-> AllAllowed,
         badge |-> IF LC.named = "none" THEN "none" ELSE IF LC.named \notin depositors THEN "unlisted"
                   ELSE IF Vouched THEN "vouched" ELSE "unproven",
         dup |-> \E i, j \in DOMAIN LBs : i # j /\ LBs[i].r = LBs[j].r,
         empty |-> \E i \in DOMAIN LBs : LBs[i].a = 0,
         newvault |-> vault' # vault,
         \* the inputs of the per-bucket decision: <<preference, default rule, vault exists, is XRD>>
         inputs |-> {<<pref[LBs[i].r], default, LBs[i].r \in vault, LBs[i].r = XRD>> : i \in DOMAIN LBs}]
GNext == /\ step < Bound
         /\ (IF Sys2 THEN (IF step = 0 THEN Call(Sys2Op, Sys2Bs, NoBadge)
                          ELSE Call("try_deposit_or_refund", <<[r |-> SysR, a |-> 1]>>, NoBadge))
             ELSE IF Sys THEN Call(SysOp, <<[r |-> SysR, a |-> 1]>>, SysCaller) ELSE StepAction(step + 1))
         /\ step' = step + 1 /\ sd' = sd /\ rs' = rs
         /\ hist' = Append(hist, [op |-> last'.op, arg |-> last'.arg, bs |-> last'.bs, c |-> last'.c, class |-> last'.class,
                                  returned |-> last'.returned, events |-> last'.events, st |-> StateP, cell |-> Cell])
GSpec == GInit /\ [][GNext]_gvars
Emit == step = Bound => PrintT(<<"B", ToJson(hist)>>)
=============================================================================

SPECIFICATION Spec
CONSTANTS
  Resources = {"X", "A", "B"}
  Badges = {"b1", "b2"}
  Amounts = {0, 1}
  MaxBatch = 2
INVARIANTS TypeOK Conserved
PROPERTIES DepositsExactly FailsExactly OtherwiseReturned OwnerBypasses Frame EventsMatch
VIEW MCView
CHECK_DEADLOCK FALSE

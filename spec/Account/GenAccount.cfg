SPECIFICATION GSpec
CONSTANTS
  Resources = {"X", "A", "B"}
  Badges = {"b1", "b2", "b3", "b4"}
  Amounts = {0, 1, 2}
  MaxBatch = 3
  K = 6
  Walks = 50
  Seed = 1
INVARIANTS TypeOK Conserved Emit
PROPERTIES DepositsExactly FailsExactly OtherwiseReturned OwnerBypasses Frame EventsMatch
CHECK_DEADLOCK FALSE

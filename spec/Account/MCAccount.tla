----------------------------- MODULE MCAccount -----------------------------
EXTENDS Account
\* balances and the outcome record do not influence what the account does next
MCView == <<default, pref, depositors, vault>>
=============================================================================

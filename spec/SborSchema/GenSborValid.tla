--------------------------- MODULE GenSborValid ---------------------------
(* C22, G: (schema, value, expected verdict) cases.  For every schema reached by GenSborSchema
   (bases and their edits) TLC prints every value of the bounded universe the schema accepts
   every value it rejects only because of a validation bound, and a rotating sample of the other values it rejects, each with Valid(schema, root, value) as
   computed by the specification; the harness encodes the value as a real SBOR payload, builds
   the real schema and compares validate_payload_against_schema's verdict with it. *)
EXTENDS GenSborSchema, SborUniverse
CONSTANTS Stride, Off
USeq == SetToSeq(Universe)
Sampled == {USeq[i] : i \in {j \in 1..Len(USeq) : j % Stride = Off}}
Cur == [s |-> cur, root |-> 1]
\* near misses: values that fail ONLY a validation (numeric range / length) of the schema - they are
\* accepted by the same schema with every bound removed.  These are the values at and next to the
\* limits; all of them are emitted, like all valid values; only the remaining (structurally
\* wrong) values are sampled.
Relaxed == [s |-> [i \in 1..Len(cur) |-> [cur[i] EXCEPT !.lo = NoBound, !.hi = NoBound]], root |-> 1]
NearMiss == {x \in ValidSet(Relaxed) : ~Valid(cur, 1, x)}
Cases == ValidSet(Cur) \cup NearMiss \cup Sampled
EmitV == \A x \in Cases : PrintT(<<"B", ToJson([schema |-> cur, root |-> 1, x |-> x, exp |-> Valid(cur, 1, x)])>>)
=============================================================================

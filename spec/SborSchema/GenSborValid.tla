--------------------------- MODULE GenSborValid ---------------------------
(* C22, G: (schema, value, expected verdict) cases.  For every schema reached by GenSborSchema
   (bases and their edits) TLC prints every value of the bounded universe the schema accepts
   and a rotating sample of the values it rejects, each with Valid(schema, root, value) as
   computed by the specification; the harness encodes the value as a real SBOR payload, builds
   the real schema and compares validate_payload_against_schema's verdict with it. *)
EXTENDS GenSborSchema, SborUniverse
CONSTANTS Stride, Off
USeq == SetToSeq(Universe)
Sampled == {USeq[i] : i \in {j \in 1..Len(USeq) : j % Stride = Off}}
Cur == [s |-> cur, root |-> 1]
Cases == ValidSet(Cur) \cup Sampled
EmitV == \A x \in Cases : PrintT(<<"B", ToJson([schema |-> cur, root |-> 1, x |-> x, exp |-> Valid(cur, 1, x)])>>)
=============================================================================

--------------------------- MODULE TraceSborSchema ---------------------------
(* C23 / C22, impl -> spec.
   C23 events carry a pair of schemas and the verdicts of the real comparison ("valid" /
   "invalid" / "panic") under require_equality() and allow_extension() (each also with all name
   changes allowed).  A reported valid extension must be sound over the whole bounded payload
   universe, a reported equality must mean equal payload sets.  A comparison that panics has
   reported nothing (counted by the driver, not a soundness violation).
   C22 events carry a schema id (schemas are read from the file named by env SCHEMAS), the
   root type, the untyped value tree of a payload and what the real code said about it.   *)
EXTENDS SborUniverse, TraceIO
VARIABLE l
Schemas == IF "SCHEMAS" \in DOMAIN IOEnv THEN ndJsonDeserialize(IOEnv.SCHEMAS) ELSE <<>>
C23Ok(ev) ==
  /\ ev.schemas_valid = <<TRUE, TRUE>>
  /\ (ev.ext = "valid" \/ ev.extn = "valid" => ExtensionSoundU(ev.base, ev.new))
  /\ (ev.eq = "valid" \/ ev.eqn = "valid" => EqualitySoundU(ev.base, ev.new))
  /\ (ev.eq = "valid" => ev.ext \in {"valid", "panic"} /\ ev.eqn \in {"valid", "panic"})     \* equality is the stricter setting
\* The same for a group of pairs sharing the base schema (ev.base, ev.news = << [new, schemas_valid, eq, ext,
\* eqn, extn] >>): the set of universe values the base accepts is computed once per group.
PairOkWith(vo, p) ==
  /\ p.schemas_valid = <<TRUE, TRUE>>
  /\ (p.ext = "valid" \/ p.extn = "valid" => \A x \in vo : Valid(p.new.s, p.new.root, x))
  /\ (p.eq = "valid" \/ p.eqn = "valid" =>
        /\ \A x \in vo : Valid(p.new.s, p.new.root, x)
        /\ \A x \in Slice(p.new) : Valid(p.new.s, p.new.root, x) => x \in vo)
  /\ (p.eq = "valid" => p.ext \in {"valid", "panic"} /\ p.eqn \in {"valid", "panic"})
C23GroupOk(ev) == \E vo \in {ValidSet(ev.base)} : \A j \in 1..Len(ev.news) : PairOkWith(vo, ev.news[j])
\* C22: origin "encoded": the payload is the encoding of a value of the type;
\*      origin "mutant": a damaged copy of such a payload.
\*   ev.has_tree = FALSE when the payload does not even decode as an untyped value
C22Ok(ev) ==
  LET S == Schemas[ev.schema].defs
      hasTree == ev.has_tree
      valid == hasTree /\ Valid(S, ev.root, ev.tree) IN
  IF ev.origin = "encoded"
  THEN hasTree /\ valid /\ ev.validator = "ok" /\ ev.typed = "ok" /\ ev.roundtrip
  ELSE /\ ev.validator \in {"ok", "err"} /\ ev.typed \in {"ok", "err"}
       /\ (ev.typed = "ok" => valid)                       \* every payload the typed decoder accepts validates
       /\ (ev.validator = "ok") = valid                    \* the validator decides exactly Valid
Ok(ev) == IF "news" \in DOMAIN ev THEN C23GroupOk(ev) ELSE IF "eq" \in DOMAIN ev THEN C23Ok(ev) ELSE C22Ok(ev)
TInit == l = 1
TNext == l <= Len(Rec) /\ (IF Ok(Rec[l]) THEN TRUE ELSE PrintT(<<"BAD", l>>)) /\ l' = l + 1
TSpec == TInit /\ [][TNext]_l
Post == PrintT(<<"DONE", TLCGet("stats").diameter - 1>>)
=============================================================================

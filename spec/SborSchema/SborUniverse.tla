------------------------------ MODULE SborUniverse ------------------------------
(* The bounded payload universe of C23 (and of the C22 validator cases): every value tree of
   at most 3 nodes over the leaf set below, and every tree of 4 nodes over the reduced leaf
   set.  Validity never depends on a Bool's value or a String's content, so one Bool and
   strings of length 0..3 stand for all. *)
EXTENDS SborSchema
EK == {"Bool", "U8", "String", "Tuple", "Enum", "Array", "Map"}
Leaves == {XBool} \cup {XU8(n) : n \in 0..4} \cup {XStr(n) : n \in 0..3}
N1 == Leaves \cup {XTuple(<<>>)} \cup {XEnum(d, <<>>) : d \in 0..3} \cup {XArray(k, <<>>) : k \in EK}
         \cup {XMap("U8", "Bool", <<>>), XMap("U8", "U8", <<>>), XMap("String", "Bool", <<>>), XMap("Enum", "U8", <<>>)}
Wrap1(S) == {XTuple(<<a>>) : a \in S} \cup {XEnum(d, <<a>>) : d \in 0..3, a \in S} \cup {XArray(a.k, <<a>>) : a \in S}
N2 == Wrap1(N1)
SameKindPairs(S) == {p \in S \X S : p[1].k = p[2].k}
N3 == Wrap1(N2)
      \cup {XTuple(<<p[1], p[2]>>) : p \in N1 \X N1} \cup {XEnum(d, <<p[1], p[2]>>) : d \in 0..2, p \in N1 \X N1}
      \cup {XArray(p[1].k, <<p[1], p[2]>>) : p \in SameKindPairs(N1)}
      \cup {XMap(p[1].k, p[2].k, <<p[1], p[2]>>) : p \in N1 \X N1}
\* 4 nodes over a reduced leaf set
R1 == {XBool, XU8(0), XU8(2), XStr(1), XTuple(<<>>), XEnum(0, <<>>), XEnum(1, <<>>)}
R2 == Wrap1(R1)
R3 == {XTuple(<<p[1], p[2]>>) : p \in R1 \X R1} \cup {XEnum(1, <<p[1], p[2]>>) : p \in R1 \X R1}
      \cup {XArray(p[1].k, <<p[1], p[2]>>) : p \in SameKindPairs(R1)} \cup {XMap(p[1].k, p[2].k, <<p[1], p[2]>>) : p \in R1 \X R1}
WrapR(S) == {XTuple(<<a>>) : a \in S} \cup {XEnum(1, <<a>>) : a \in S} \cup {XArray(a.k, <<a>>) : a \in S}
N4 == WrapR(WrapR(WrapR(R1)))                                          \* chains of depth 4
      \cup {XTuple(<<a, b, c>>) : a \in R1, b \in R1, c \in R1}        \* three fields
      \cup {XEnum(1, <<a, b, c>>) : a \in R1, b \in R1, c \in {XBool, XU8(0)}}
      \cup {XArray(a.k, <<a, b, c>>) : a \in R1, b \in R1, c \in {XU8(0), XU8(2), XBool}}
      \cup {XEnum(1, <<XU8(n), XEnum(1, <<XU8(m), XEnum(0, <<>>)>>)>>) : n \in 0..2, m \in 0..2}   \* two list cells
\* (the 3-element arrays above include ill-kinded ones: element kinds must agree with `ek` only
\*  in a real payload - keep just the well-kinded ones)
RECURSIVE WellKinded(_)
WellKinded(x) ==
  /\ (x.k = "Array" => \A i \in 1..Len(x.c) : x.c[i].k = x.ek)
  /\ (x.k = "Map" => \A i \in 1..Len(x.c) : x.c[i].k = (IF i % 2 = 1 THEN x.ek ELSE x.vk))
  /\ \A i \in 1..Len(x.c) : WellKinded(x.c[i])
\* length ladders: strings, arrays and maps of 0..5 elements (values just below / at / above every length bound
\* used by the generators, which go up to 3)
Ladder == {XStr(n) : n \in 0..5}
          \cup {XArray("Bool", [i \in 1..n |-> XBool]) : n \in 0..5} \cup {XArray("U8", [i \in 1..n |-> XU8(1)]) : n \in 0..5}
          \cup {XMap("U8", "Bool", [i \in 1..(2 * n) |-> IF i % 2 = 1 THEN XU8(i \div 2) ELSE XBool]) : n \in 0..5}
Universe == {x \in N1 \cup N2 \cup N3 \cup N4 \cup Ladder : WellKinded(x)}
\* Only values of the kind a root type requires can be valid under it: the soundness checks
\* range over the matching slice of the universe (all of it for an Any root).
RootKinds == {"Bool", "U8", "String", "Tuple", "Enum", "Array", "Map"}
ByKind == [k \in RootKinds |-> {x \in Universe : x.k = k}]
Slice(sch) == LET k == KindOfDef(TypeDef(sch.s, sch.root)) IN
              IF k = "" THEN Universe ELSE IF k \in RootKinds THEN ByKind[k] ELSE {}
\* The two promises, evaluated with one pass per schema (equivalent to ExtensionSound /
\* EqualitySound of SborSchema over the universe - MCSborSchema checks the equivalence): the
\* valid set of the old schema is computed once (bound through a singleton set so that TLC does
\* not re-evaluate it per element).
ValidSet(sch) == {x \in Slice(sch) : Valid(sch.s, sch.root, x)}
ExtensionSoundU(old, new) == \A x \in ValidSet(old) : Valid(new.s, new.root, x)
EqualitySoundU(old, new) ==
  \E vo \in {ValidSet(old)} : /\ \A x \in vo : Valid(new.s, new.root, x)
                              /\ \A x \in Slice(new) : Valid(new.s, new.root, x) => x \in vo
=============================================================================

SPECIFICATION GSpec
CONSTANTS
  Depth = 1
  Sample = 1
  BaseMod = 1
  BaseRem = 0
  EditSet = "all"
  Stride = 60
  Off = 0
INVARIANT EmitV
CHECK_DEADLOCK FALSE

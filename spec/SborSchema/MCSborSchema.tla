--------------------------- MODULE MCSborSchema ---------------------------
(* C22 / C23, S step: the satisfaction relation and the soundness promises checked on a
   bounded universe (all single edits of all base schemas):
     - Valid is total (evaluates to a Boolean) for every schema reached and every value;
     - Any accepts everything; a root of kind K accepts only values of kind K;
     - an enum value with a discriminator the type does not list is rejected;
     - numeric and length validations accept exactly the closed interval (checked at and
       beside their bounds);
     - the one-pass forms used by the trace module equal the declarative promises;
     - ground truth is not degenerate: some edits are sound extensions but not equalities,
       some are equalities, some are neither.                                              *)
EXTENDS GenSborSchema, SborUniverse
CONSTANT Heavy      \* TRUE: check the one-pass forms on every pair, FALSE: on one base each
Small == N1 \cup N2
Old == [s |-> Bases[base], root |-> 1]
New == [s |-> cur, root |-> 1]
ValidTotal == \A x \in Small : Valid(cur, 1, x) \in BOOLEAN
OnePassForms ==
  /\ (Heavy \/ base \in {4} => ExtensionSoundU(Old, New) = ExtensionSound(Old, New, Universe))
  /\ (Heavy \/ base \in {3} => EqualitySoundU(Old, New) = EqualitySound(Old, New, Universe))
KindDiscipline ==
  LET k == KindOfDef(TypeDef(cur, 1)) IN k # "" => \A x \in Small : Valid(cur, 1, x) => x.k = k

ASSUME PrintT(<<"U", Cardinality(Universe)>>)
A1 == <<Simple("Any")>>
ASSUME AnyAcceptsAll == \A x \in Universe : Valid(A1, 1, x) /\ Valid(<<Simple("Bool")>>, 0, x)
E1 == <<Enm(<<Var(0, <<>>, "A"), Var(2, <<U8>>, "C")>>, "E")>>
ASSUME EnumLaws ==
  /\ Valid(E1, 1, XEnum(0, <<>>)) /\ Valid(E1, 1, XEnum(2, <<XU8(200)>>))
  /\ ~Valid(E1, 1, XEnum(1, <<>>)) /\ ~Valid(E1, 1, XEnum(3, <<XU8(0)>>))      \* unknown discriminators
  /\ ~Valid(E1, 1, XEnum(0, <<XU8(0)>>)) /\ ~Valid(E1, 1, XEnum(2, <<>>)) /\ ~Valid(E1, 1, XEnum(2, <<XBool>>))
ASSUME RangeLaws ==
  \A lo \in 0..3, hi \in 0..3 : lo <= hi =>
     /\ \A n \in 0..4 : Valid(<<U8r(lo, hi)>>, 1, XU8(n)) = (lo <= n /\ n <= hi)
     /\ \A n \in 0..3 : Valid(<<Str(lo, hi)>>, 1, XStr(n)) = (lo <= n /\ n <= hi)
     /\ \A n \in 0..3 : Valid(<<Arr(BOOL, lo, hi)>>, 1, XArray("Bool", [i \in 1..n |-> XBool])) = (lo <= n /\ n <= hi)
     /\ \A n \in 0..3 : Valid(<<Mp(U8, BOOL, lo, hi)>>, 1, XMap("U8", "Bool", [i \in 1..(2 * n) |-> IF i % 2 = 1 THEN XU8(i) ELSE XBool])) = (lo <= n /\ n <= hi)
ASSUME ElementKindLaws ==
  /\ ~Valid(<<Arr(U8, -1, -1)>>, 1, XArray("Bool", <<>>))            \* even an empty array carries its element kind
  /\ Valid(<<Arr(ANY, -1, -1)>>, 1, XArray("Bool", <<>>)) /\ Valid(<<Arr(U8, -1, -1)>>, 1, XArray("U8", <<XU8(9)>>))
  /\ ~Valid(<<Mp(U8, BOOL, -1, -1)>>, 1, XMap("U8", "U8", <<>>))
\* the validation family: every bound-presence combination on the base side, and for each of them every
\* combination on the compared side among the single edits; the universe has payloads beside every bound
ASSUME BoundFamily ==
  /\ Len(Bases) = 32
  /\ \A k \in {"U8", "String", "Array", "Map"}, lo \in BOOLEAN, hi \in BOOLEAN :
       \E b \in 17..32 : /\ Bases[b][1].k = k /\ Bases[b][1].lo.some = lo /\ Bases[b][1].hi.some = hi
                          /\ \A lo2 \in BOOLEAN, hi2 \in BOOLEAN :
                               \E T \in Edits(Bases[b]) : T[1].k = k /\ T[1].lo.some = lo2 /\ T[1].hi.some = hi2
  /\ \A n \in 0..4 : XU8(n) \in Universe /\ XStr(n) \in Universe /\ XArray("Bool", [i \in 1..n |-> XBool]) \in Universe
                      /\ XMap("U8", "Bool", [i \in 1..(2 * n) |-> IF i % 2 = 1 THEN XU8(i \div 2) ELSE XBool]) \in Universe
\* ground truth for the half-open case the comparison must not call an extension: (lower only) -> (lower, upper)
ASSUME HalfOpenNarrowing ==
  /\ ~ExtensionSoundU([s |-> <<U8r(1, -1)>>, root |-> 1], [s |-> <<U8r(1, 3)>>, root |-> 1])
  /\ ~ExtensionSoundU([s |-> <<Arr(BOOL, 1, -1)>>, root |-> 1], [s |-> <<Arr(BOOL, 1, 3)>>, root |-> 1])
  /\ ~ExtensionSoundU([s |-> <<Str(-1, 2)>>, root |-> 1], [s |-> <<Str(1, 2)>>, root |-> 1])
  /\ ExtensionSoundU([s |-> <<Mp(U8, BOOL, 1, 2)>>, root |-> 1], [s |-> <<Mp(U8, BOOL, 1, -1)>>, root |-> 1])
  /\ ExtensionSoundU([s |-> <<U8r(-1, 2)>>, root |-> 1], [s |-> <<U8r(0, 2)>>, root |-> 1])       \* lower bound 0 = no lower bound
ASSUME BigNumbers ==
  /\ Leq(Num(1, <<9999, 9999>>), Num(1, <<0, 0, 1>>)) /\ ~Leq(Num(1, <<0, 0, 1>>), Num(1, <<9999, 9999>>))
  /\ Leq(Num(-1, <<0, 0, 1>>), Num(-1, <<5>>)) /\ Leq(Num(-1, <<5>>), Num(0, <<>>)) /\ Leq(Num(0, <<>>), Num(1, <<1>>))
  /\ Nat2Num(12345) = Num(1, <<2345, 1>>)
\* non-degenerate ground truth over the single edits of base 3 (Option-like enum)
Singles(b) == {[s |-> T, root |-> 1] : T \in Edits(Bases[b])}
B3 == [s |-> Bases[3], root |-> 1]
ASSUME GroundTruthVaries ==
  /\ \E n \in Singles(3) : ExtensionSoundU(B3, n) /\ ~EqualitySoundU(B3, n)
  /\ \E n \in Singles(3) : EqualitySoundU(B3, n) /\ n.s # B3.s
  /\ \E n \in Singles(3) : ~ExtensionSoundU(B3, n)
=============================================================================

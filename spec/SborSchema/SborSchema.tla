------------------------------ MODULE SborSchema ------------------------------
(* C22 / C23 -- SBOR schemas and the payload satisfaction relation.

   A schema is a sequence of type definitions; a type reference is an integer: n >= 1 is the
   n-th local definition, n <= 0 is a well-known type (0 Any, -1 Bool, -2 U8, -3 String, -4 Unit).
   Definitions are uniform records
     [k   |-> kind: "Any","Bool","I8".."I128","U8".."U128","String","Array","Tuple","Enum","Map","Custom",
      c   |-> child references (Array: element; Map: key, value; Tuple: fields),
      v   |-> enum variants << [d |-> discriminator, f |-> field references, nm |-> name] >>,
      lo, hi |-> validation bounds  [some |-> BOOLEAN, s |-> sign, l |-> limbs base 10^4, little endian]
                 (numeric range for integer kinds, length range for String / Array / Map),
      ck  |-> custom kind ("Reference","Own","Decimal","PreciseDecimal","NonFungibleLocalId") or "",
      cv  |-> custom validation ("", "IsGlobal","IsGlobalPackage","IsGlobalComponent","IsGlobalResourceManager",
              "IsGlobalTyped","IsInternal","IsInternalTyped","IsBucket","IsProof","IsVault","IsKeyValueStore",
              "IsGlobalAddressReservation","IsTypedObject"),
      nm  |-> type name, fn |-> field names]            (names do not influence validity)
   An (untyped) value tree is
     [k |-> value kind, n |-> number [s, l] (integers), len |-> length (String: bytes; byte arrays: bytes),
      d |-> discriminator (Enum), ek, vk |-> element / (key, value) value kinds (Array / Map),
      lo, hi |-> smallest / largest byte of a byte array given in summarised form (bytes = TRUE),
      bytes |-> BOOLEAN, et |-> entity type name of a Reference / Own, c |-> children (Map: k1, v1, k2, v2 ...)]
   Valid(S, t, x) is the relation "payload x is accepted by type t of schema S" - what
   validate_payload_against_schema decides for a payload that decodes to the tree x.        *)
EXTENDS Integers, Sequences, FiniteSets, TLC, SequencesExt

\* ---- numbers beyond 32 bits: sign and limbs (own small copy; spec/Sbor is not depended upon)
Num(s, l) == [s |-> s, l |-> l]
Nat2Num(n) == IF n = 0 THEN Num(0, <<>>) ELSE IF n < 10000 THEN Num(1, <<n>>) ELSE Num(1, <<n % 10000, n \div 10000>>)
RECURSIVE CmpMag(_, _, _)
CmpMag(a, b, i) ==        \* compare magnitudes of equal length from the most significant limb
  IF i = 0 THEN 0 ELSE IF a[i] < b[i] THEN -1 ELSE IF a[i] > b[i] THEN 1 ELSE CmpMag(a, b, i - 1)
MagCmp(a, b) == IF Len(a) < Len(b) THEN -1 ELSE IF Len(a) > Len(b) THEN 1 ELSE CmpMag(a, b, Len(a))
Cmp(x, y) == IF x.s < y.s THEN -1 ELSE IF x.s > y.s THEN 1
             ELSE IF x.s = 0 THEN 0 ELSE IF x.s = 1 THEN MagCmp(x.l, y.l) ELSE MagCmp(y.l, x.l)
Leq(x, y) == Cmp(x, y) <= 0
NoBound == [some |-> FALSE, s |-> 0, l |-> <<>>]
Bound(n) == [some |-> TRUE, s |-> Nat2Num(n).s, l |-> Nat2Num(n).l]
InRange(x, lo, hi) == (lo.some => Leq(Num(lo.s, lo.l), x)) /\ (hi.some => Leq(x, Num(hi.s, hi.l)))
LenOk(n, lo, hi) == InRange(Nat2Num(n), lo, hi)

IntKinds == {"I8", "I16", "I32", "I64", "I128", "U8", "U16", "U32", "U64", "U128"}
Def(k, c, v, lo, hi, ck, cv, nm, fn) == [k |-> k, c |-> c, v |-> v, lo |-> lo, hi |-> hi, ck |-> ck, cv |-> cv, nm |-> nm, fn |-> fn]
Simple(k) == Def(k, <<>>, <<>>, NoBound, NoBound, "", "", "", <<>>)
WellKnown == << Simple("Any"), Simple("Bool"), Simple("U8"), Simple("String"), Def("Tuple", <<>>, <<>>, NoBound, NoBound, "", "", "", <<>>) >>
TypeDef(S, t) == IF t >= 1 THEN S[t] ELSE WellKnown[1 - t]
\* the value kind a definition requires of a value ("" = any)
KindOfDef(d) == IF d.k = "Any" THEN "" ELSE IF d.k = "Custom" THEN d.ck ELSE d.k
KindFits(d, vk) == KindOfDef(d) = "" \/ KindOfDef(d) = vk

\* ---- entity classes (radix-common/src/types/entity_type.rs), stated independently
GlobalComponents == {"GlobalConsensusManager", "GlobalValidator", "GlobalAccessController", "GlobalAccount", "GlobalIdentity",
                     "GlobalGenericComponent", "GlobalPreallocatedSecp256k1Account", "GlobalPreallocatedEd25519Account",
                     "GlobalPreallocatedSecp256k1Identity", "GlobalPreallocatedEd25519Identity", "GlobalOneResourcePool",
                     "GlobalTwoResourcePool", "GlobalMultiResourcePool", "GlobalTransactionTracker", "GlobalAccountLocker"}
GlobalResources == {"GlobalFungibleResourceManager", "GlobalNonFungibleResourceManager"}
Globals == GlobalComponents \cup GlobalResources \cup {"GlobalPackage"}
Vaults == {"InternalFungibleVault", "InternalNonFungibleVault"}
Internals == Vaults \cup {"InternalGenericComponent", "InternalKeyValueStore"}
CustomOk(cv, et) ==
  CASE cv = "" -> TRUE
    [] cv \in {"IsGlobal", "IsGlobalTyped"} -> et \in Globals
    [] cv = "IsGlobalPackage" -> et = "GlobalPackage"
    [] cv = "IsGlobalComponent" -> et \in GlobalComponents
    [] cv = "IsGlobalResourceManager" -> et \in GlobalResources
    [] cv \in {"IsInternal", "IsInternalTyped", "IsBucket", "IsProof"} -> et \in Internals
    [] cv = "IsVault" -> et \in Vaults
    [] cv = "IsKeyValueStore" -> et = "InternalKeyValueStore"
    [] cv \in {"IsGlobalAddressReservation", "IsTypedObject"} -> TRUE
    [] OTHER -> FALSE

\* ---- satisfaction
RECURSIVE Valid(_, _, _)
AllValid(S, refs, xs) == Len(refs) = Len(xs) /\ \A i \in 1..Len(xs) : Valid(S, refs[i], xs[i])
Valid(S, t, x) ==
  LET d == TypeDef(S, t) IN
  CASE d.k = "Any" -> TRUE
    [] d.k = "Bool" -> x.k = "Bool"
    [] d.k \in IntKinds -> x.k = d.k /\ InRange(x.n, d.lo, d.hi)
    [] d.k = "String" -> x.k = "String" /\ LenOk(x.len, d.lo, d.hi)
    [] d.k = "Tuple" -> x.k = "Tuple" /\ AllValid(S, d.c, x.c)
    [] d.k = "Enum" -> x.k = "Enum" /\ \E i \in 1..Len(d.v) : d.v[i].d = x.d /\ AllValid(S, d.v[i].f, x.c)
    [] d.k = "Array" ->
         /\ x.k = "Array" /\ KindFits(TypeDef(S, d.c[1]), x.ek)
         /\ IF x.bytes
            THEN LET e == TypeDef(S, d.c[1]) IN
                 /\ LenOk(x.len, d.lo, d.hi)
                 /\ (e.k = "U8" /\ x.len > 0 => InRange(Nat2Num(x.lo), e.lo, e.hi) /\ InRange(Nat2Num(x.hi), e.lo, e.hi))
            ELSE LenOk(Len(x.c), d.lo, d.hi) /\ \A i \in 1..Len(x.c) : Valid(S, d.c[1], x.c[i])
    [] d.k = "Map" ->
         /\ x.k = "Map" /\ KindFits(TypeDef(S, d.c[1]), x.ek) /\ KindFits(TypeDef(S, d.c[2]), x.vk)
         /\ LenOk(Len(x.c) \div 2, d.lo, d.hi)
         /\ \A i \in 1..Len(x.c) : Valid(S, d.c[IF i % 2 = 1 THEN 1 ELSE 2], x.c[i])
    [] d.k = "Custom" -> x.k = d.ck /\ (d.ck \in {"Reference", "Own"} => CustomOk(d.cv, x.et))
    [] OTHER -> FALSE

\* ---- value constructors (uniform records)
X0 == [k |-> "", n |-> Num(0, <<>>), len |-> 0, d |-> 0, ek |-> "", vk |-> "", lo |-> 0, hi |-> 0, bytes |-> FALSE, et |-> "", c |-> <<>>]
XBool == [X0 EXCEPT !.k = "Bool"]
XU8(n) == [X0 EXCEPT !.k = "U8", !.n = Nat2Num(n)]
XStr(len) == [X0 EXCEPT !.k = "String", !.len = len]
XTuple(c) == [X0 EXCEPT !.k = "Tuple", !.c = c]
XEnum(d, c) == [X0 EXCEPT !.k = "Enum", !.d = d, !.c = c]
XArray(ek, c) == [X0 EXCEPT !.k = "Array", !.ek = ek, !.c = c]
XMap(ek, vk, c) == [X0 EXCEPT !.k = "Map", !.ek = ek, !.vk = vk, !.c = c]

\* ---- C23: what the comparison's verdicts promise, over a payload universe U
ExtensionSound(old, new, U) == \A x \in U : Valid(old.s, old.root, x) => Valid(new.s, new.root, x)
EqualitySound(old, new, U) == \A x \in U : Valid(old.s, old.root, x) <=> Valid(new.s, new.root, x)
=============================================================================

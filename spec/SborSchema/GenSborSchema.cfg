SPECIFICATION GSpec
CONSTANTS
  Depth = 1
  Sample = 1
  BaseMod = 1
  BaseRem = 0
  EditSet = "all"
INVARIANT Emit
CHECK_DEADLOCK FALSE

SPECIFICATION GSpec
CONSTANTS
  Depth = 1
  Sample = 1
  BaseMod = 1
  BaseRem = 0
  EditSet = "all"
  Heavy = FALSE
INVARIANTS ValidTotal OnePassForms KindDiscipline
CHECK_DEADLOCK FALSE

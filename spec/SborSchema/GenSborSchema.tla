--------------------------- MODULE GenSborSchema ---------------------------
(* C23 case generator: pairs (base schema, compared schema) where the compared schema is the
   base itself or the base after one or two edits (add / remove / renumber an enum variant, add /
   remove / swap fields, widen / narrow / drop / add a validation, redirect a child reference,
   replace a type by Any / Bool / U8, rename types, fields and variants, append an unreachable
   type).  Both schemas are printed; the harness builds the real schemas and returns the
   verdicts of compare_single_type_schemas under require_equality() and allow_extension();
   TraceSborSchema then checks the verdicts against Valid over the bounded payload universe. *)
EXTENDS SborSchema, Json
CONSTANTS Depth,          \* 1: single edits, 2: also edits of edits
          Sample,         \* keep 1 out of Sample double edits (rotating), 1 = all
          BaseMod, BaseRem, \* only bases b with b % BaseMod = BaseRem (BaseMod = 1: all)
          EditSet          \* "all", or "val": only the validation-bound edits (the boundary product
                           \*  bound in {none, 0, 1, 2, 3} x {lower, upper} x validated kind)
B(n) == IF n < 0 THEN NoBound ELSE Bound(n)
U8r(lo, hi) == Def("U8", <<>>, <<>>, B(lo), B(hi), "", "", "", <<>>)
Str(lo, hi) == Def("String", <<>>, <<>>, B(lo), B(hi), "", "", "", <<>>)
Tup(c, nm, fn) == Def("Tuple", c, <<>>, NoBound, NoBound, "", "", nm, fn)
Var(d, f, nm) == [d |-> d, f |-> f, nm |-> nm]
Enm(v, nm) == Def("Enum", <<>>, v, NoBound, NoBound, "", "", nm, <<>>)
Arr(e, lo, hi) == Def("Array", <<e>>, <<>>, B(lo), B(hi), "", "", "", <<>>)
Mp(k, v, lo, hi) == Def("Map", <<k, v>>, <<>>, B(lo), B(hi), "", "", "", <<>>)
ANY == 0
BOOL == -1
U8 == -2
STRG == -3
UNIT == -4

\* The validation family: a numeric validation (U8) and each length validation (String, Array, Map) as ROOT type
\* (so that the payloads at and next to the bounds are one- or few-node values), with each bound independently
\* absent / present: (none, none), (lower only), (upper only), (both).  Their validation edits below replace
\* BOTH bounds by every combination of {none, 0, 1, 2, 3} - the full product of bound presence on the base side
\* and on the compared side, never sampled.
BoundCombos == << <<-1, -1>>, <<1, -1>>, <<-1, 2>>, <<1, 2>> >>
BoundBases == [i \in 1..16 |->
  LET c == BoundCombos[((i - 1) % 4) + 1] k == ((i - 1) \div 4) + 1 IN
  CASE k = 1 -> << U8r(c[1], c[2]) >>
    [] k = 2 -> << Str(c[1], c[2]) >>
    [] k = 3 -> << Arr(BOOL, c[1], c[2]) >>
    [] k = 4 -> << Mp(U8, BOOL, c[1], c[2]) >>]
Bases == <<
  << Tup(<<U8, BOOL>>, "Pair", <<"a", "b">>) >>,
  << Tup(<<2, ANY>>, "", <<>>), U8r(1, 2) >>,
  << Enm(<<Var(0, <<>>, "None"), Var(1, <<U8>>, "Some")>>, "Opt") >>,
  << Enm(<<Var(0, <<2>>, "A"), Var(2, <<BOOL, BOOL>>, "C")>>, "E"), U8r(0, 1) >>,
  << Arr(2, 0, 2), U8r(1, 3) >>,
  << Arr(BOOL, -1, -1) >>,
  << Mp(U8, BOOL, 1, 2) >>,
  << Tup(<<2>>, "Outer", <<"inner">>), Enm(<<Var(0, <<>>, "Z"), Var(1, <<3>>, "S")>>, "Inner"), U8r(0, 2) >>,
  << Enm(<<Var(0, <<>>, "Nil"), Var(1, <<U8, 1>>, "Cons")>>, "List") >>,
  << Tup(<<2, 2>>, "", <<>>), U8r(1, 2) >>,
  << Tup(<<2, 3>>, "", <<>>), U8r(1, 2), U8r(1, 2) >>,
  << Str(1, 2) >>,
  << Tup(<<2, 3>>, "T", <<"s", "xs">>), Str(0, 1), Arr(ANY, 1, -1) >>,
  << Arr(2, 1, 1), Tup(<<U8, STRG>>, "", <<>>) >>,
  << Mp(2, 3, -1, 1), U8r(2, 3), Enm(<<Var(1, <<>>, "One")>>, "K") >>,
  << Tup(<<UNIT, 2>>, "", <<>>), Arr(U8, 0, 3) >> >>
  \o BoundBases

\* ---- edits of a schema (a sequence of definitions; the root is always type 1)
Idx(S) == 1..Len(S)
Refs(S) == {ANY, BOOL, U8} \cup Idx(S)
WellFormed(S) ==
  \A i \in Idx(S) :
    /\ (S[i].lo.some /\ S[i].hi.some => Leq(Num(S[i].lo.s, S[i].lo.l), Num(S[i].hi.s, S[i].hi.l)))
    /\ (S[i].k = "Enum" => \A a, b \in 1..Len(S[i].v) : S[i].v[a].d = S[i].v[b].d => a = b)
    /\ (S[i].k \notin (IntKinds \cup {"String", "Array", "Map"}) => ~S[i].lo.some /\ ~S[i].hi.some)
Bounds == {NoBound, Bound(0), Bound(1), Bound(2), Bound(3)}
ValEdits(S) ==
  UNION {{[S EXCEPT ![i].lo = b] : b \in Bounds} \cup {[S EXCEPT ![i].hi = b] : b \in Bounds}
         \cup {[S EXCEPT ![i].lo = NoBound, ![i].hi = NoBound]}
         \* a validated root type: both bounds at once, every combination
         \cup (IF i = 1 THEN {[S EXCEPT ![i].lo = b1, ![i].hi = b2] : b1 \in Bounds, b2 \in Bounds} ELSE {})
         : i \in {j \in Idx(S) : S[j].k \in {"U8", "String", "Array", "Map"}}}
DropAt(s, j) == SubSeq(s, 1, j - 1) \o SubSeq(s, j + 1, Len(s))
VariantEdits(S) ==
  UNION {
     {[S EXCEPT ![i].v = Append(@, Var(d, f, "New"))] : d \in {0, 1, 2, 3} \ {S[i].v[a].d : a \in 1..Len(S[i].v)}, f \in {<<>>, <<U8>>}}
     \cup {[S EXCEPT ![i].v = DropAt(@, a)] : a \in 1..Len(S[i].v)}
     \cup {[S EXCEPT ![i].v[a].f = Append(@, BOOL)] : a \in 1..Len(S[i].v)}
     \cup {[S EXCEPT ![i].v[a].f = SubSeq(@, 1, Len(@) - 1)] : a \in {b \in 1..Len(S[i].v) : Len(S[i].v[b].f) > 0}}
     \cup {[S EXCEPT ![i].v[a].d = 3] : a \in 1..Len(S[i].v)}
     \cup {[S EXCEPT ![i].v[a].nm = "Renamed"] : a \in 1..Len(S[i].v)}
     \cup UNION {{[S EXCEPT ![i].v[a].f[p] = r] : p \in 1..Len(S[i].v[a].f), r \in Refs(S)} : a \in 1..Len(S[i].v)}
     \cup {[S EXCEPT ![i].v = <<@[2], @[1]>> \o SubSeq(@, 3, Len(@))] : x \in {y \in {1} : Len(S[i].v) >= 2}}
   : i \in {j \in Idx(S) : S[j].k = "Enum"}}
TupleEdits(S) ==
  UNION {
     {[S EXCEPT ![i].c = Append(@, BOOL), ![i].fn = <<>>], [S EXCEPT ![i].c = Append(@, ANY), ![i].fn = <<>>]}
     \cup {[S EXCEPT ![i].c = SubSeq(@, 1, Len(@) - 1), ![i].fn = <<>>] : x \in {y \in {1} : Len(S[i].c) > 0}}
     \cup {[S EXCEPT ![i].c = <<@[2], @[1]>> \o SubSeq(@, 3, Len(@))] : x \in {y \in {1} : Len(S[i].c) >= 2}}
     \cup {[S EXCEPT ![i].fn = <<>>], [S EXCEPT ![i].nm = "Renamed"], [S EXCEPT ![i].nm = ""]}
     \cup {[S EXCEPT ![i].fn = [p \in 1..Len(S[i].c) |-> <<"x", "y", "z">>[p]]] : x \in {y \in {1} : Len(S[i].c) \in 1..3}}
   : i \in {j \in Idx(S) : S[j].k = "Tuple"}}
RefEdits(S) ==
  UNION {UNION {{[S EXCEPT ![i].c[p] = r] : r \in Refs(S)} : p \in 1..Len(S[i].c)} : i \in Idx(S)}
KindEdits(S) ==
  UNION {{[S EXCEPT ![i] = Simple("Any")], [S EXCEPT ![i] = Simple("Bool")], [S EXCEPT ![i] = U8r(0, 2)],
          [S EXCEPT ![i] = Tup(<<>>, "", <<>>)], [S EXCEPT ![i] = Arr(ANY, -1, -1)]} : i \in Idx(S)}
GrowEdits(S) == {Append(S, U8r(0, 1)), Append(S, Simple("Any"))}
Edits(S) == {T \in ValEdits(S) \cup VariantEdits(S) \cup TupleEdits(S) \cup RefEdits(S) \cup KindEdits(S) \cup GrowEdits(S) : WellFormed(T)}

VARIABLES base, cur, depth
GInit == \E b \in {x \in 1..Len(Bases) : x % BaseMod = BaseRem} : base = b /\ cur = Bases[b] /\ depth = 0
GNext == depth < Depth /\ \E T \in (IF EditSet = "val" THEN {X \in ValEdits(cur) : WellFormed(X)} ELSE Edits(cur)) : cur' = T /\ depth' = depth + 1 /\ UNCHANGED base
GSpec == GInit /\ [][GNext]_<<base, cur, depth>>
Pair == [base |-> [s |-> Bases[base], root |-> 1], new |-> [s |-> cur, root |-> 1], b |-> base, depth |-> depth]
KN(k) == CASE k = "Any" -> 1 [] k = "Bool" -> 2 [] k = "U8" -> 3 [] k = "String" -> 4 [] k = "Tuple" -> 5 [] k = "Enum" -> 6
           [] k = "Array" -> 7 [] k = "Map" -> 8 [] OTHER -> 9
BN(b) == IF b.some THEN 2 + (IF b.l = <<>> THEN 0 ELSE b.l[1]) ELSE 1
RECURSIVE SumSeq(_, _)
SumSeq(q, i) == IF i > Len(q) THEN 0 ELSE (q[i] + 5) * (i + 1) + SumSeq(q, i + 1)
RECURSIVE SumVar(_, _)
SumVar(q, i) == IF i > Len(q) THEN 0 ELSE (q[i].d * 17 + SumSeq(q[i].f, 1) + Len(q[i].nm)) * (i + 2) + SumVar(q, i + 1)
RECURSIVE Weight(_, _)
\* a cheap fingerprint of a schema, used only to sample the double edits evenly
Weight(S, i) == IF i > Len(S) THEN 7
                ELSE ((KN(S[i].k) * 101 + SumSeq(S[i].c, 1) * 7 + SumVar(S[i].v, 1) * 3 + BN(S[i].lo) * 13 + BN(S[i].hi) * 29
                       + Len(S[i].nm) + Len(S[i].fn)) * 131 + Weight(S, i + 1) * 31) % 9973
Emit == (depth <= 1 \/ Weight(cur, 1) % Sample = 0) => PrintT(<<"B", ToJson(Pair)>>)
=============================================================================

#!/usr/bin/env python3
"""Regenerates MANIFEST.json from the property registry in lib/props_*.py (single source of truth)."""
import importlib, json, os, sys
ROOT = os.path.dirname(os.path.abspath(__file__))
sys.path.insert(0, os.path.join(ROOT, "lib"))
MODULES = ["props_storage", "props_num", "props_codec", "props_tx", "props_mtext", "props_wasm",
           "props_ledger", "props_auth", "props_native", "props_system", "props_pools", "props_fee", "props_manifest", "props_life", "props_account", "props_ext", "props_ext2", "props_ext3"]
reg = {}
for m in MODULES:
    try:
        mod = importlib.import_module(m)
    except ModuleNotFoundError as e:
        if e.name == m:
            continue
        raise
    except Exception as e:     # a props module still under construction
        print("skipping %s: %s" % (m, e))
        continue
    reg.update(mod.PROPS)
claimed = set(open(os.path.join(ROOT, "claimed.txt")).read().split())
reg = {k: v for k, v in reg.items() if k in claimed}
props = [json.loads(l) for l in open(os.path.join(ROOT, "properties.jsonl"))]
na_reasons = {}
nap = os.path.join(ROOT, "not_applicable.json")
if os.path.exists(nap):
    na_reasons = json.load(open(nap))
hooks_commits = []
hp = os.path.join(ROOT, "hooks.json")
if os.path.exists(hp):
    hooks_commits = json.load(open(hp))["source_commits"]
checks, na = [], []
for p in props:
    i = p["id"]
    if i in reg:
        r = reg[i]
        checks.append({
            "property_id": i,
            "quick_cmd": "./check %s --tier quick" % i,
            "thorough_cmd": "./check %s --tier thorough" % i,
            "evidence_file": "/verif/evidence/%s.json" % i,
            "replay_cmd_template": "./check %s --replay {path}" % i,
            "engine": "tlc+harness",
            "level_claimed": {"category": r["level"], "text": r["text"], "design_ref": "DESIGN.md " + r.get("design_ref", "5/" + i)},
            "level_note": r["note"],
            "technique": r["technique"],
        })
    else:
        na.append({"property_id": i, "reason": na_reasons.get(i, "not claimed yet: the TLA+ module and its binding for this property are designed (DESIGN.md 5/%s) but not built at this commit" % i)})
man = {
    "version": 1,
    "setup_cmd": "./setup.sh",
    "hooks": {
        "guard": "--cfg radixdlt_radixdlt_scrypto_verif",
        "enable": "harness/.cargo/config.toml sets rustflags = [\"--cfg\", \"radixdlt_radixdlt_scrypto_verif\"]; every check builds /repo's crates as path dependencies of /verif/harness with that flag",
        "baseline_off_cmd": "cd /repo && cargo test --workspace --no-fail-fast --offline",
        "source_commits": hooks_commits,
        "add_only": True,
    },
    "engines": [{"name": "tlc+harness", "path": "/verif/check",
                 "serves_properties": [c["property_id"] for c in checks],
                 "kind_free_text": "explicit TLA+ specifications (spec/) checked with TLC; bound to the code by behaviour replay (TLC-generated behaviours stepped through the real objects by the Rust harness) and trace validation (recorded ndjson traces of the real code checked by Trace*.tla)"}],
    "checks": checks,
    "not_applicable": na,
    "notes": "See DESIGN.md. ./check <id> rebuilds the harness binary it needs from /repo's working tree on every run. Beyond the 51 listed properties the specification also covers subintent yield/resume (X01), Track and SubstateLocks validated on real engine executions through hooks H2/H3 (X02, X03), the royalty module (X04) and the metadata module (X05): `./check X01` .. `./check X05` (same contract, evidence/X0n.json); known findings are listed in known_findings.json.",
}
json.dump(man, open(os.path.join(ROOT, "MANIFEST.json"), "w"), indent=1)
print("MANIFEST.json: %d checks, %d not claimed" % (len(checks), len(na)))

#!/bin/sh
# Builds the verification harness offline against /repo (path dependencies). Run once after a restore.
set -e
cd "$(dirname "$0")"
mkdir -p work replay evidence
cp /repo/Cargo.lock harness/Cargo.lock
cd harness
CARGO_NET_OFFLINE=true cargo build --offline --bins --keep-going 2>&1 | tail -5 || true
ls target/debug/ | grep "^vh_" | grep -v "\.d$" || true

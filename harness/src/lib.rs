//! vhlib — helpers shared by the verification harness binaries (vh_store, vh_pure, vh_tx,
//! vh_ledger, vh_wasm). Each binary binds a group of TLA+ specifications under /verif/spec to
//! the real radixdlt-scrypto code (path dependencies on /repo, rebuilt on every check).
//!
//! usage of every binary: <bin> <module> <mode> [key=value ...]
//!   mode `replay`: behaviours (one JSON value per line) on stdin -> mismatch lines on stdout
//!   mode `record`: drive the real code (seeded) and write an ndjson trace to stdout
#![allow(clippy::all)]
pub mod util;

use std::collections::BTreeMap;

pub struct Args {
    pub kv: BTreeMap<String, String>,
}
impl Args {
    pub fn u64(&self, k: &str, d: u64) -> u64 {
        self.kv.get(k).map(|v| v.parse().expect("bad integer argument")).unwrap_or(d)
    }
    pub fn str(&self, k: &str, d: &str) -> String {
        self.kv.get(k).cloned().unwrap_or_else(|| d.to_string())
    }
}

/// Parses `<bin> <module> <mode> [k=v ...]`, silences the panic hook (panics of the code under
/// test are data) and returns (module, mode, args).
pub fn start() -> (String, String, Args) {
    let argv: Vec<String> = std::env::args().collect();
    if argv.len() < 3 {
        eprintln!("usage: {} <module> <mode> [key=value ...]", argv[0]);
        std::process::exit(2);
    }
    let mut kv = BTreeMap::new();
    for a in &argv[3..] {
        if let Some((k, v)) = a.split_once('=') {
            kv.insert(k.to_string(), v.to_string());
        }
    }
    if std::env::var("VH_PANIC_VERBOSE").is_err() {
        std::panic::set_hook(Box::new(|_| {}));
    }
    (argv[1].clone(), argv[2].clone(), Args { kv })
}

pub fn unknown(module: &str) -> ! {
    eprintln!("unknown module {}", module);
    std::process::exit(2);
}

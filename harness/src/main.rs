//! vh — verification harness binding the TLA+ specifications under /verif/spec to the real
//! radixdlt-scrypto code (path dependencies on /repo, rebuilt on every check).
//!
//! usage: vh <module> <mode> [key=value ...]
//!   mode `replay`: behaviours (one JSON value per line) on stdin -> mismatch lines on stdout
//!   mode `record`: drive the real code (seeded) and write an ndjson trace to stdout
#![allow(clippy::all)]
mod util;
mod locks;

use std::collections::BTreeMap;

pub struct Args {
    pub kv: BTreeMap<String, String>,
}
impl Args {
    pub fn u64(&self, k: &str, d: u64) -> u64 {
        self.kv.get(k).map(|v| v.parse().expect("bad integer argument")).unwrap_or(d)
    }
    pub fn str(&self, k: &str, d: &str) -> String {
        self.kv.get(k).cloned().unwrap_or_else(|| d.to_string())
    }
}

fn main() {
    let argv: Vec<String> = std::env::args().collect();
    if argv.len() < 3 {
        eprintln!("usage: vh <module> <mode> [key=value ...]");
        std::process::exit(2);
    }
    let mut kv = BTreeMap::new();
    for a in &argv[3..] {
        if let Some((k, v)) = a.split_once('=') {
            kv.insert(k.to_string(), v.to_string());
        }
    }
    let args = Args { kv };
    // panics of the code under test are data; keep the default hook quiet
    std::panic::set_hook(Box::new(|_| {}));
    let module = argv[1].as_str();
    let mode = argv[2].as_str();
    match module {
        "locks" => locks::run(mode, &args),
        _ => {
            eprintln!("unknown module {}", module);
            std::process::exit(2);
        }
    }
}

//! C35 — binding of spec/TxStructure to TransactionValidator::validate_intents_and_structure.
//! The structures come from TLC (GenTxStructure) together with the expected verdict; mock
//! intents implement the public IntentTreeStructure / IntentStructure traits and return the
//! model's yield summaries.  The harness only drives and projects (error variant -> class name).
use crate::txbuild::*;
use radix_common::prelude::*;
use radix_transactions::prelude::*;
use radix_transactions::validation::*;
use radix_transactions::errors::*;
use rand::prelude::*;
use serde_json::{json, Value};
use vh::util::*;
use vh::Args;

struct MockIntent {
    hash: IntentHash,
    children: Vec<SubintentHash>,
    yields: ManifestYieldSummary,
}
impl IntentStructure for MockIntent {
    fn intent_hash(&self) -> IntentHash {
        self.hash
    }
    fn children(&self) -> impl ExactSizeIterator<Item = SubintentHash> {
        self.children.clone().into_iter()
    }
    fn validate_intent(
        &self,
        _validator: &TransactionValidator,
        _aggregation: &mut AcrossIntentAggregation,
    ) -> Result<ManifestYieldSummary, IntentValidationError> {
        Ok(self.yields.clone())
    }
}
impl HasSubintentHash for MockIntent {
    fn subintent_hash(&self) -> SubintentHash {
        match self.hash {
            IntentHash::Subintent(h) => h,
            IntentHash::Transaction(_) => panic!("harness: root used as subintent"),
        }
    }
}
struct MockTree {
    root: MockIntent,
    subs: Vec<MockIntent>,
}
impl IntentTreeStructure for MockTree {
    type RootIntentStructure = MockIntent;
    type SubintentStructure = MockIntent;
    fn root(&self) -> &MockIntent {
        &self.root
    }
    fn non_root_subintents(&self) -> impl ExactSizeIterator<Item = &MockIntent> {
        self.subs.iter()
    }
}

/// hash name -> hash (name 0 is a hash that no listed subintent has)
fn sub_hash(name: i64, salt: u64) -> SubintentHash {
    SubintentHash::from_hash(hash(format!("vh-subintent-{}-{}", name, salt)))
}

fn build(c: &Value, salt: u64, rng: &mut Option<StdRng>) -> MockTree {
    let n = c["n"].as_i64().unwrap() as usize;
    let hashes = i64s(&c["hashes"]);
    let mk = |i: usize, hash: IntentHash, rng: &mut Option<StdRng>| {
        let mut ch = i64s(&c["ch"][i]);
        if let Some(r) = rng {
            ch.shuffle(r);
        }
        let children: Vec<SubintentHash> = ch.iter().map(|s| sub_hash(*s, salt)).collect();
        let ytc = i64s(&c["ytc"][i]);
        // as ManifestYieldSummary::new_with_children: one entry per declared child hash
        let mut child_yields: IndexMap<SubintentHash, usize> = Default::default();
        for s in &ch {
            child_yields.insert(sub_hash(*s, salt), ytc[*s as usize] as usize);
        }
        let parent_yields = if i == 0 { 0 } else { c["ytp"][i - 1].as_i64().unwrap() as usize };
        MockIntent { hash, children, yields: ManifestYieldSummary { parent_yields, child_yields } }
    };
    let root_hash = if c["rootSub"].as_bool().unwrap() {
        IntentHash::Subintent(SubintentHash::from_hash(hash(format!("vh-root-{}", salt))))
    } else {
        IntentHash::Transaction(TransactionIntentHash::from_hash(hash(format!("vh-root-{}", salt))))
    };
    let root = mk(0, root_hash, rng);
    let subs = (1..=n).map(|j| mk(j, IntentHash::Subintent(sub_hash(hashes[j - 1], salt)), rng)).collect();
    MockTree { root, subs }
}

/// projection of the implementation's answer: "ok" or the class name used by the specification
fn classify(r: Result<Result<ValidatedIntentTreeInformation, TransactionValidationError>, String>) -> String {
    match r {
        Err(_) => "panic".into(),
        Ok(Ok(_)) => "ok".into(),
        Ok(Err(TransactionValidationError::SubintentStructureError(_, e))) => match e {
            SubintentStructureError::DuplicateSubintent => "Dup",
            SubintentStructureError::SubintentHasMultipleParents => "MultiParent",
            SubintentStructureError::ChildSubintentNotIncludedInTransaction(_) => "Unknown",
            SubintentStructureError::SubintentExceedsMaxDepth => "Depth",
            SubintentStructureError::SubintentIsNotReachableFromTheTransactionIntent => "Unreach",
            SubintentStructureError::MismatchingYieldChildAndYieldParentCountsForSubintent => "Yield",
        }
        .into(),
        Ok(Err(e)) => format!("other:{:?}", e).chars().take(60).collect(),
    }
}

pub fn run(mode: &str, args: &Args) {
    match mode {
        "replay" => replay(args),
        "real" => real(args),
        _ => panic!("mode"),
    }
}

fn replay(args: &Args) {
    let seed = args.u64("seed", 1);
    let shuffle = args.u64("shuffle", 0) != 0;
    let mut rng = if shuffle { Some(StdRng::seed_from_u64(seed)) } else { None };
    let mut out = Out::new();
    let cases = read_lines();
    let mut classes = std::collections::BTreeMap::<String, u64>::new();
    for (bi, b) in cases.iter().enumerate() {
        let c = &b["c"];
        let tree = build(c, seed, &mut rng);
        let mut config = TransactionValidationConfig::latest();
        config.max_subintent_depth = b["cfgDepth"].as_u64().unwrap() as usize;
        let validator = TransactionValidator::new_with_static_config_network_agnostic(config);
        let got = classify(catch(|| validator.validate_intents_and_structure(&tree)));
        *classes.entry(got.clone()).or_default() += 1;
        let exp_ok = b["exp"]["ok"].as_bool().unwrap();
        if exp_ok != (got == "ok") {
            out.mismatch(bi, 0, "verdict", b["exp"].clone(), json!(got));
        } else if !exp_ok && !b["exp"]["errs"].as_array().unwrap().iter().any(|e| e.as_str() == Some(got.as_str())) {
            out.mismatch(bi, 0, "error class", b["exp"].clone(), json!(got));
        }
    }
    out.emit(&json!({"classes": classes}));
    out.done(cases.len(), cases.len());
}

/// The structures that can exist as real transactions (distinct hashes, every subintent declared by
/// exactly one parent and reachable - the hashes make anything else impossible without forging) are
/// built as real V2 notarized transactions: children come from the manifests' USE_CHILD, the yield
/// counts from real YIELD_TO_CHILD / YIELD_TO_PARENT instructions; validated by the full validator.
fn real(args: &Args) {
    let seed = args.u64("seed", 1);
    let mut out = Out::new();
    let cases = read_lines();
    let mut classes = std::collections::BTreeMap::<String, u64>::new();
    for (bi, b) in cases.iter().enumerate() {
        let c = &b["c"];
        let n = c["n"].as_u64().unwrap() as usize;
        // parent of listed position j (1-based intent index j + 1): the intent whose children contain hash j
        let mut parent = vec![0usize; n + 1];
        let mut child_yields: Vec<Vec<usize>> = vec![vec![]; n + 1];
        for i in 0..=n {
            for s in i64s(&c["ch"][i]) {
                let j = i64s(&c["hashes"]).iter().position(|h| *h == s).expect("harness: real mode needs known children") + 1;
                parent[j] = i + 1;
                child_yields[i].push(c["ytc"][i][s as usize].as_u64().unwrap() as usize);
            }
        }
        let notary = (Curve::Ed, 77);
        let intents: Vec<IntentSpec> = (0..=n)
            .map(|i| {
                let ytp = if i == 0 { 0 } else { c["ytp"][i - 1].as_u64().unwrap() as usize };
                IntentSpec {
                    net: NetworkDefinition::simulator().id,
                    start: 10,
                    end: 20,
                    tmin: None,
                    tmax: None,
                    disc: i as u64 + 1000 * seed,
                    msg: MsgSpec { kind: "none".into(), ..Default::default() },
                    nrefs: 0,
                    ninstr: child_yields[i].iter().sum::<usize>() + ytp + if i == 0 { 1 } else { 0 },
                    nblobs: 0,
                    blob_pad: 0,
                    instr_salt: 0,
                    blob_salt: 0,
                    sigs: vec![],
                    parent: if i == 0 { 0 } else { parent[i] },
                    reverse_children: false,
                    child_yields: child_yields[i].clone(),
                    parent_yields: ytp,
                }
            })
            .collect();
        let spec = TxSpec { ver: 2, intents, nonce: 0, tip: 0, notary, notary_is_signatory: false, notary_sig: SigSpec { curve: notary.0, key: notary.1, over: Over::Signed } };
        let built = match catch(|| direct(&spec, seed)) {
            Ok(x) => x,
            Err(e) => {
                out.mismatch(bi, 0, "harness could not build the case", b.clone(), json!(e));
                continue;
            }
        };
        let mut config = TransactionValidationConfig::latest();
        config.max_subintent_depth = b["cfgDepth"].as_u64().unwrap() as usize;
        let validator = TransactionValidator::new_with_static_config(config, NetworkDefinition::simulator().id);
        let got = match catch(|| built.raw.validate(&validator)) {
            Err(_) => "panic".to_string(),
            Ok(Ok(_)) => "ok".to_string(),
            Ok(Err(e)) => classify(Ok(Err(e))),
        };
        *classes.entry(got.clone()).or_default() += 1;
        let exp_ok = b["exp"]["ok"].as_bool().unwrap();
        if exp_ok != (got == "ok") {
            out.mismatch(bi, 0, "verdict (real transaction)", b["exp"].clone(), json!(got));
        } else if !exp_ok && !b["exp"]["errs"].as_array().unwrap().iter().any(|e| e.as_str() == Some(got.as_str())) {
            out.mismatch(bi, 0, "error class (real transaction)", b["exp"].clone(), json!(got));
        }
    }
    out.emit(&json!({"classes": classes}));
    out.done(cases.len(), cases.len());
}

//! C32 — binding of spec/TxHashes to prepare (identifiers of V1 / V2 / partial / ledger payloads).
//!  field cases:   TLC gives (shape, field, expected set of identifiers that change); the harness builds
//!                 the shape as a real transaction, changes exactly that field of the transaction
//!                 VALUE (no re-signing), recomputes all identifiers through to_raw + prepare and
//!                 reports the set that changed; raw -> decode -> encode -> prepare must reproduce bytes
//!                 and identifiers.
//!  payload cases: one deviation from the canonical raw form; prepare must accept / reject as expected.
use crate::txbuild::*;
use radix_common::prelude::*;
use radix_transactions::manifest::{DropAuthZoneProofs, DropNamedProofs};
use radix_transactions::model::*;
use radix_transactions::prelude::*;
use serde_json::{json, Value};
use std::collections::BTreeMap;
use vh::util::*;
use vh::Args;

fn spec_for(parents: &[usize], v1: bool, seed: u64, nblobs: usize) -> TxSpec {
    let n = if v1 { 1 } else { parents.len() + 1 };
    let mut key = 0usize;
    let intents = (0..n)
        .map(|i| {
            let nsig = if i == 0 { 2 } else { 1 };
            let sigs = (0..nsig)
                .map(|_| {
                    let (curve, k) = signer_key(key, seed);
                    key += 1;
                    SigSpec { curve, key: k, over: Over::Own }
                })
                .collect();
            let nchildren = parents.iter().filter(|p| **p == i + 1).count();
            IntentSpec {
                net: NetworkDefinition::simulator().id,
                start: 10,
                end: 20,
                tmin: None,
                tmax: None,
                disc: 7 + i as u64,
                msg: MsgSpec { kind: "plain".into(), mime: 4, len: 6, dec: vec![], salt: 0 },
                nrefs: 2,
                // first instruction = the call, last = a filler (root) / YIELD_TO_PARENT (subintent)
                ninstr: 1 + nchildren + 1 + if i == 0 { 0 } else { 1 },
                nblobs,
                blob_pad: 0,
                instr_salt: 0,
                blob_salt: 0,
                sigs,
                parent: if i == 0 { 0 } else { parents[i - 1] },
                reverse_children: false,
            child_yields: vec![],
            parent_yields: 0,
            }
        })
        .collect();
    let notary = (Curve::Ed, 77 + seed % 1000);
    TxSpec { ver: if v1 { 1 } else { 2 }, intents, nonce: 5, tip: 3, notary, notary_is_signatory: false, notary_sig: SigSpec { curve: notary.0, key: notary.1, over: Over::Signed } }
}

/// a partial transaction whose root is intent 1 of the description
fn partial_from(spec: &TxSpec, salt: u64) -> SignedPartialTransactionV2 {
    // a V2 transaction with an extra dummy root above gives the subintents; simpler: build the V2
    // transaction (root = transaction intent) only to reuse its non-root subintents, then build the
    // root subintent from intent 1 with a subintent manifest
    let settings = permissive();
    let n = spec.intents.len();
    let built = direct(spec, salt);
    let tx = built.v2.expect("v2");
    let subs = tx.signed_transaction_intent.transaction_intent.non_root_subintents.0.clone();
    let children: Vec<(String, SubintentHash)> = (1..n)
        .filter(|j| spec.intents[*j].parent == 1)
        .map(|j| (format!("c{}", j), subs[j - 1].prepare(&settings).unwrap().subintent_hash()))
        .collect();
    let mut it = spec.intents[0].clone();
    it.ninstr += 1; // the root subintent ends with YIELD_TO_PARENT
    let (instructions, blobs, ch) = manifest_v2_sub(&it, &children, salt).for_intent();
    let root = SubintentV2 { intent_core: IntentCoreV2 { header: header_v2(&it), blobs, message: it.msg.v2(), children: ch, instructions } };
    let rh = root.prepare(&settings).unwrap().subintent_hash();
    let root_sigs = it.sigs.iter().map(|s| IntentSignatureV1(Key::new(s.curve, s.key).sign_with_public_key(&rh.0))).collect();
    SignedPartialTransactionV2 {
        partial_transaction: PartialTransactionV2 { root_subintent: root, non_root_subintents: NonRootSubintentsV2(subs) },
        root_subintent_signatures: IntentSignaturesV2 { signatures: root_sigs },
        non_root_subintent_signatures: tx.signed_transaction_intent.non_root_subintent_signatures.clone(),
    }
}

#[derive(Clone)]
enum Tx {
    V1(NotarizedTransactionV1),
    V2(NotarizedTransactionV2),
    Partial(SignedPartialTransactionV2),
    LedgerV1(NotarizedTransactionV1),
    LedgerV2(NotarizedTransactionV2),
}

fn build_shape(shape: &str, parents: &[usize], seed: u64, nblobs: usize) -> Tx {
    match shape {
        "v1" | "ledger_v1" => {
            let b = direct(&spec_for(parents, true, seed, nblobs), seed).v1.unwrap();
            if shape == "v1" { Tx::V1(b) } else { Tx::LedgerV1(b) }
        }
        "v2" | "ledger_v2" => {
            let b = direct(&spec_for(parents, false, seed, nblobs), seed).v2.unwrap();
            if shape == "v2" { Tx::V2(b) } else { Tx::LedgerV2(b) }
        }
        "partial" => Tx::Partial(partial_from(&spec_for(parents, false, seed, nblobs), seed)),
        s => panic!("harness: unknown shape {}", s),
    }
}

fn raw_bytes(tx: &Tx) -> Vec<u8> {
    match tx {
        Tx::V1(t) => t.to_raw().unwrap().to_vec(),
        Tx::V2(t) => t.to_raw().unwrap().to_vec(),
        Tx::Partial(t) => t.to_raw().unwrap().to_vec(),
        Tx::LedgerV1(t) => LedgerTransaction::UserV1(Box::new(t.clone())).to_raw().unwrap().to_vec(),
        Tx::LedgerV2(t) => LedgerTransaction::UserV2(Box::new(t.clone())).to_raw().unwrap().to_vec(),
    }
}

fn user_ids(h: &UserTransactionHashes, ids: &mut BTreeMap<String, Hash>) {
    ids.insert("I".into(), h.transaction_intent_hash.0);
    ids.insert("G".into(), h.signed_transaction_intent_hash.0);
    ids.insert("N".into(), h.notarized_transaction_hash.0);
    for (j, s) in h.non_root_subintent_hashes.iter().enumerate() {
        ids.insert(format!("S{}", j + 2), s.0);
    }
}

/// prepare a raw payload of the given kind and return its identifiers
fn identifiers(kind: &Tx, raw: &[u8], settings: &PreparationSettings) -> Result<BTreeMap<String, Hash>, PrepareError> {
    let mut ids = BTreeMap::new();
    match kind {
        Tx::V1(_) | Tx::V2(_) => {
            let p = RawNotarizedTransaction::from_vec(raw.to_vec()).prepare(settings)?;
            user_ids(&p.hashes(), &mut ids);
        }
        Tx::Partial(_) => {
            let p = PreparedSignedPartialTransactionV2::prepare(&RawSignedPartialTransaction::from_vec(raw.to_vec()), settings)?;
            ids.insert("S1".into(), p.subintent_hash().0);
            for (j, s) in p.non_root_subintent_hashes().enumerate() {
                ids.insert(format!("S{}", j + 2), s.0);
            }
        }
        Tx::LedgerV1(_) | Tx::LedgerV2(_) => {
            let p = RawLedgerTransaction::from_vec(raw.to_vec()).prepare(settings)?;
            ids.insert("L".into(), p.ledger_transaction_hash().0);
            user_ids(&p.as_user().expect("user ledger transaction").hashes(), &mut ids);
        }
    }
    Ok(ids)
}

/// raw -> typed value -> raw
fn reencode(kind: &Tx, raw: &[u8]) -> Result<Vec<u8>, String> {
    Ok(match kind {
        Tx::V1(_) | Tx::V2(_) => match RawNotarizedTransaction::from_vec(raw.to_vec()).into_typed().map_err(|e| format!("{:?}", e))? {
            UserTransaction::V1(t) => t.to_raw().unwrap().to_vec(),
            UserTransaction::V2(t) => t.to_raw().unwrap().to_vec(),
        },
        Tx::Partial(_) => SignedPartialTransactionV2::from_raw(&RawSignedPartialTransaction::from_vec(raw.to_vec())).map_err(|e| format!("{:?}", e))?.to_raw().unwrap().to_vec(),
        Tx::LedgerV1(_) | Tx::LedgerV2(_) => LedgerTransaction::from_raw(&RawLedgerTransaction::from_vec(raw.to_vec())).map_err(|e| format!("{:?}", e))?.to_raw().unwrap().to_vec(),
    })
}

// ---------------------------------------------------------------------------------------------
// field mutations on the transaction VALUE

fn other_key() -> Key {
    Key::new(Curve::Ed, 424242)
}
fn other_sig() -> SignatureWithPublicKeyV1 {
    Key::new(Curve::Secp, 434343).sign_with_public_key(&hash("vh-other-signature"))
}
fn pick(k: usize, len: usize) -> usize {
    if k <= 1 { 0 } else { len - 1 }
}
fn swap_first_two<T: Clone + core::hash::Hash + Eq>(s: &IndexSet<T>) -> IndexSet<T> {
    let mut v: Vec<T> = s.iter().cloned().collect();
    v.swap(0, 1);
    v.into_iter().collect()
}

fn mutate_core(core: &mut IntentCoreV2, part: &str, k: usize) {
    match part {
        "hdr" => match k {
            1 => core.header.network_id = core.header.network_id.wrapping_add(1),
            2 => core.header.start_epoch_inclusive = Epoch::of(core.header.start_epoch_inclusive.number() + 1),
            3 => core.header.end_epoch_exclusive = Epoch::of(core.header.end_epoch_exclusive.number() + 1),
            4 => core.header.min_proposer_timestamp_inclusive = Some(Instant::new(core.header.min_proposer_timestamp_inclusive.as_ref().map(|t| t.seconds_since_unix_epoch + 1).unwrap_or(5))),
            5 => core.header.max_proposer_timestamp_exclusive = Some(Instant::new(core.header.max_proposer_timestamp_exclusive.as_ref().map(|t| t.seconds_since_unix_epoch + 1).unwrap_or(5))),
            _ => core.header.intent_discriminator = core.header.intent_discriminator.wrapping_add(1),
        },
        "instr" => {
            let idx = pick(k, core.instructions.0.len());
            let new = InstructionV2::DropAuthZoneProofs(DropAuthZoneProofs);
            core.instructions.0[idx] = if core.instructions.0[idx] == new { InstructionV2::DropNamedProofs(DropNamedProofs) } else { new };
        }
        "blob" => {
            let idx = pick(k, core.blobs.blobs.len());
            core.blobs.blobs[idx].0[0] ^= 1;
        }
        "msg" => core.message = MessageV2::Plaintext(PlaintextMessageV1::text("changed")),
        "children_order" => core.children.children = swap_first_two(&core.children.children),
        p => panic!("harness: unknown intent part {}", p),
    }
}

fn mutate(tx: &mut Tx, f: &Value) {
    let part = f["part"].as_str().unwrap();
    let i = f["i"].as_u64().unwrap() as usize;
    let k = f["k"].as_u64().unwrap() as usize;
    match tx {
        Tx::V1(t) | Tx::LedgerV1(t) => {
            let it = &mut t.signed_intent.intent;
            match part {
                "hdr" => match k {
                    1 => it.header.network_id = it.header.network_id.wrapping_add(1),
                    2 => it.header.start_epoch_inclusive = Epoch::of(it.header.start_epoch_inclusive.number() + 1),
                    3 => it.header.end_epoch_exclusive = Epoch::of(it.header.end_epoch_exclusive.number() + 1),
                    4 => it.header.nonce = it.header.nonce.wrapping_add(1),
                    5 => it.header.notary_public_key = other_key().public_key(),
                    6 => it.header.notary_is_signatory = !it.header.notary_is_signatory,
                    _ => it.header.tip_percentage = it.header.tip_percentage.wrapping_add(1),
                },
                "instr" => {
                    let idx = pick(k, it.instructions.0.len());
                    let new = InstructionV1::DropAuthZoneProofs(DropAuthZoneProofs);
                    it.instructions.0[idx] = if it.instructions.0[idx] == new { InstructionV1::DropNamedProofs(DropNamedProofs) } else { new };
                }
                "blob" => {
                    let idx = pick(k, it.blobs.blobs.len());
                    it.blobs.blobs[idx].0[0] ^= 1;
                }
                "msg" => it.message = MessageV1::Plaintext(PlaintextMessageV1::text("changed")),
                "isig" => t.signed_intent.intent_signatures.signatures[k - 1] = IntentSignatureV1(other_sig()),
                "nsig" => t.notary_signature = NotarySignatureV1(other_sig().signature()),
                p => panic!("harness: unknown v1 part {}", p),
            }
        }
        Tx::V2(t) | Tx::LedgerV2(t) => {
            let si = &mut t.signed_transaction_intent;
            match part {
                "thdr" => match k {
                    1 => si.transaction_intent.transaction_header.notary_public_key = other_key().public_key(),
                    2 => si.transaction_intent.transaction_header.notary_is_signatory = !si.transaction_intent.transaction_header.notary_is_signatory,
                    _ => si.transaction_intent.transaction_header.tip_basis_points += 1,
                },
                "nsig" => t.notary_signature = NotarySignatureV2(other_sig().signature()),
                "isig" => {
                    if i == 1 {
                        si.transaction_intent_signatures.signatures[k - 1] = IntentSignatureV1(other_sig());
                    } else {
                        si.non_root_subintent_signatures.by_subintent[i - 2].signatures[k - 1] = IntentSignatureV1(other_sig());
                    }
                }
                "list_order" => {
                    si.transaction_intent.non_root_subintents.0.swap(0, 1);
                    si.non_root_subintent_signatures.by_subintent.swap(0, 1);
                }
                _ => {
                    let core = if i == 1 { &mut si.transaction_intent.root_intent_core } else { &mut si.transaction_intent.non_root_subintents.0[i - 2].intent_core };
                    mutate_core(core, part, k);
                }
            }
        }
        Tx::Partial(t) => match part {
            "isig" => {
                if i == 1 {
                    t.root_subintent_signatures.signatures[k - 1] = IntentSignatureV1(other_sig());
                } else {
                    t.non_root_subintent_signatures.by_subintent[i - 2].signatures[k - 1] = IntentSignatureV1(other_sig());
                }
            }
            "list_order" => {
                t.partial_transaction.non_root_subintents.0.swap(0, 1);
                t.non_root_subintent_signatures.by_subintent.swap(0, 1);
            }
            _ => {
                let core = if i == 1 { &mut t.partial_transaction.root_subintent.intent_core } else { &mut t.partial_transaction.non_root_subintents.0[i - 2].intent_core };
                mutate_core(core, part, k);
            }
        },
    }
}

/// "edit" mode: after a change inside a subintent, bring the stored child hashes of its ancestors up
/// to date (what the builders do), bottom-up, keeping positions; no re-signing
fn propagate(tx: &mut Tx, old: &Tx, parents: &[usize]) {
    let settings = permissive();
    fn cores<'a>(tx: &'a mut Tx) -> Vec<&'a mut IntentCoreV2> {
        match tx {
            Tx::V2(t) | Tx::LedgerV2(t) => {
                let ti = &mut t.signed_transaction_intent.transaction_intent;
                let mut v = vec![&mut ti.root_intent_core];
                v.extend(ti.non_root_subintents.0.iter_mut().map(|s| &mut s.intent_core));
                v
            }
            Tx::Partial(t) => {
                let p = &mut t.partial_transaction;
                let mut v = vec![&mut p.root_subintent.intent_core];
                v.extend(p.non_root_subintents.0.iter_mut().map(|s| &mut s.intent_core));
                v
            }
            _ => vec![],
        }
    }
    let mut old = old.clone();
    let old_hashes: Vec<SubintentHash> = cores(&mut old).iter().map(|c| SubintentV2 { intent_core: (**c).clone() }.prepare(&settings).unwrap().subintent_hash()).collect();
    for i in (1..=parents.len()).rev() {
        // intent i+1 (1-based) is cores[i]; its parent is parents[i-1] (1-based)
        let mut cs = cores(tx);
        let new_hash = SubintentV2 { intent_core: (*cs[i]).clone() }.prepare(&settings).unwrap().subintent_hash();
        let parent = &mut cs[parents[i - 1] - 1];
        let replaced: IndexSet<ChildSubintentSpecifier> = parent.children.children.iter().map(|c| if c.hash == old_hashes[i] { ChildSubintentSpecifier { hash: new_hash } } else { c.clone() }).collect();
        parent.children.children = replaced;
    }
}

// NOTE on list_order: after swapping the first two entries of the flattened list the names S2 / S3 follow
// the POSITION in the list; the comparison below is by the subintent they belong to (hash sets), see `changed`.

pub fn run(mode: &str, args: &Args) {
    match mode {
        "replay" => replay(args),
        "bytes" => bytes(args),
        "noncanon" => noncanon(),
        _ => panic!("mode"),
    }
}

fn field_case(c: &Value, seed: u64) -> Result<Value, String> {
    let parents: Vec<usize> = c["parents"].as_array().unwrap().iter().map(|p| p.as_u64().unwrap() as usize).collect();
    let settings = permissive();
    let base = build_shape(c["shape"].as_str().unwrap(), &parents, seed, 2);
    let mut mutated = base.clone();
    mutate(&mut mutated, &c["f"]);
    if c["mode"].as_str() == Some("edit") {
        propagate(&mut mutated, &base, &parents);
    }
    let raw0 = raw_bytes(&base);
    let raw1 = raw_bytes(&mutated);
    let ids0 = identifiers(&base, &raw0, &settings).map_err(|e| format!("base not preparable: {:?}", e))?;
    let mut ids1 = identifiers(&mutated, &raw1, &settings).map_err(|e| format!("mutated not preparable: {:?}", e))?;
    if c["f"]["part"].as_str() == Some("list_order") {
        // identifiers are named by intent, not by list position
        let (a, b) = (ids1.get("S2").cloned(), ids1.get("S3").cloned());
        if let (Some(a), Some(b)) = (a, b) {
            ids1.insert("S2".into(), b);
            ids1.insert("S3".into(), a);
        }
    }
    let changed: Vec<String> = ids0.iter().filter(|(k, v)| ids1.get(*k) != Some(*v)).map(|(k, _)| k.clone()).collect();
    // round trip of both payloads
    let mut roundtrip = true;
    for (tx, raw, ids) in [(&base, &raw0, &ids0), (&mutated, &raw1, &identifiers(&mutated, &raw1, &settings).unwrap())] {
        match reencode(tx, raw) {
            Ok(again) => {
                if &again != raw || identifiers(tx, &again, &settings).ok().as_ref() != Some(ids) {
                    roundtrip = false;
                }
            }
            Err(_) => roundtrip = false,
        }
    }
    Ok(json!({"ids": ids0.keys().collect::<Vec<_>>(), "changed": changed, "roundtrip": roundtrip, "bytes_differ": raw0 != raw1}))
}

fn payload_case(c: &Value, seed: u64) -> Result<Value, String> {
    let p = &c["p"];
    let kind = c["payload"].as_str().unwrap();
    let mut tx = match kind {
        "notarized_v1" => build_shape("v1", &[], seed, 2),
        "ledger_v1" => build_shape("ledger_v1", &[], seed, 2),
        "notarized_v2" => build_shape("v2", &[1, 1], seed, 2),
        "signed_partial" => build_shape("partial", &[1, 1], seed, 2),
        k => return Err(format!("unknown payload kind {}", k)),
    };
    // value-level deviation: one more signature batch than subintents
    if p["sig_batches"].as_u64() == Some(3) {
        match &mut tx {
            Tx::V2(t) => t.signed_transaction_intent.non_root_subintent_signatures.by_subintent.push(IntentSignaturesV2::none()),
            Tx::Partial(t) => t.non_root_subintent_signatures.by_subintent.push(IntentSignaturesV2::none()),
            _ => return Err("sig_batches on a payload without subintents".into()),
        }
    }
    let mut raw = raw_bytes(&tx);
    if raw[0] != 0x4d || raw[1] != 0x22 {
        return Err("unexpected payload layout".into());
    }
    let disc = raw[2];
    if p["prefix"].as_str() == Some("bad") {
        raw[0] = 0x5c;
    }
    match p["discriminator"].as_str().unwrap() {
        "other" => raw[2] = if disc == 3 { 11 } else { 3 }, // V1Notarized <-> V2Notarized
        "unknown" => raw[2] = 0xff,
        _ => {}
    }
    match p["field_count"].as_str().unwrap() {
        "more" => raw[3] += 1,
        "less" => raw[3] -= 1,
        _ => {}
    }
    if p["size_encoding"].as_str() == Some("padded") {
        let n = raw[3];
        raw[3] = 0x80 | n;
        raw.insert(4, 0x00);
    }
    for _ in 0..p["trailing"].as_u64().unwrap() {
        raw.push(0);
    }
    let s = &p["settings"];
    let over = p["length_over"].as_u64().unwrap() as usize;
    let max_len = if p["limited_length"].as_bool().unwrap() { raw.len() - over } else { 0 };
    let settings = PreparationSettings {
        v2_transactions_permitted: s["v2Permitted"].as_bool().unwrap(),
        max_user_payload_length: if matches!(tx, Tx::LedgerV1(_) | Tx::LedgerV2(_)) { usize::MAX } else { max_len },
        max_ledger_payload_length: if matches!(tx, Tx::LedgerV1(_) | Tx::LedgerV2(_)) { max_len } else { usize::MAX },
        max_child_subintents_per_intent: s["maxChildren"].as_u64().unwrap() as usize,
        max_subintents_per_transaction: s["maxSubintents"].as_u64().unwrap() as usize,
        max_blobs: s["maxBlobs"].as_u64().unwrap() as usize,
    };
    let res = identifiers(&tx, &raw, &settings);
    Ok(json!({"accept": res.is_ok(), "err": res.err().map(|e| format!("{:?}", e).chars().take(80).collect::<String>())}))
}

fn replay(args: &Args) {
    let seed = args.u64("seed", 1);
    let mut out = Out::new();
    let cases = read_lines();
    let mut errors = BTreeMap::<String, u64>::new();
    for (bi, c) in cases.iter().enumerate() {
        let is_field = c["kind"].as_str() == Some("field");
        let got = catch(|| if is_field { field_case(c, seed) } else { payload_case(c, seed) });
        let got = match got {
            Ok(Ok(g)) => g,
            Ok(Err(e)) => {
                out.mismatch(bi, 0, "harness could not run the case", c.clone(), json!(e));
                continue;
            }
            Err(e) => {
                out.mismatch(bi, 0, "panic", c.clone(), json!(e));
                continue;
            }
        };
        if is_field {
            let set = |v: &Value| -> std::collections::BTreeSet<String> { v.as_array().unwrap().iter().map(|x| x.as_str().unwrap().to_string()).collect() };
            if set(&got["ids"]) != set(&c["ids"]) {
                out.mismatch(bi, 0, "identifiers present", c["ids"].clone(), got["ids"].clone());
            } else if set(&got["changed"]) != set(&c["affected"]) {
                out.mismatch(bi, 0, "identifiers changed", c["affected"].clone(), got["changed"].clone());
            } else if got["roundtrip"] != json!(true) {
                out.mismatch(bi, 0, "round trip", json!(true), got["roundtrip"].clone());
            } else if got["bytes_differ"] != json!(true) {
                out.mismatch(bi, 0, "mutation did not change the payload", json!(true), json!(false));
            }
        } else {
            if let Some(e) = got["err"].as_str() {
                *errors.entry(format!("{}:{}", c["dev"].as_str().unwrap(), e.split(|ch| ch == '(' || ch == ' ' || ch == '{').next().unwrap_or(""))).or_default() += 1;
            }
            if got["accept"] != c["accept"] {
                out.mismatch(bi, 0, "prepare verdict", c["accept"].clone(), got.clone());
            }
        }
    }
    out.emit(&json!({"prepare_errors": errors}));
    out.done(cases.len(), cases.len());
}

/// byte-level recording: every single-byte change of the raw payload of a few shapes; for the payloads
/// that can still be prepared: do decode + encode reproduce the bytes and the identifiers, and which
/// identifiers differ from the original's (TraceTxHashes decides)
fn bytes(args: &Args) {
    let seed = args.u64("seed", 1);
    let masks: Vec<u8> = args.str("masks", "1").split(',').map(|m| m.parse().unwrap()).collect();
    let stride = args.u64("stride", 1) as usize;
    let mut out = Out::new();
    let settings = permissive();
    let shapes: Vec<(&str, Vec<usize>)> = vec![("v1", vec![]), ("v2", vec![1, 1]), ("v2", vec![1, 2]), ("partial", vec![1]), ("ledger_v1", vec![]), ("ledger_v2", vec![1])];
    for (shape, parents) in shapes {
        let base = build_shape(shape, &parents, seed, 2);
        let raw0 = raw_bytes(&base);
        let ids0 = identifiers(&base, &raw0, &settings).expect("base preparable");
        for pos in (0..raw0.len()).step_by(stride) {
            for mask in &masks {
                let mut raw1 = raw0.clone();
                raw1[pos] ^= *mask;
                let r = catch(|| identifiers(&base, &raw1, &settings));
                let ev = match r {
                    Err(_) => json!({"a": "byte", "shape": shape, "pos": pos, "mask": mask, "prepared": false, "panic": true, "roundtrip": false, "changed": []}),
                    Ok(Err(_)) => json!({"a": "byte", "shape": shape, "pos": pos, "mask": mask, "prepared": false, "panic": false, "roundtrip": false, "changed": []}),
                    Ok(Ok(ids1)) => {
                        let mut changed: Vec<String> = ids0.iter().filter(|(k, v)| ids1.get(*k) != Some(*v)).map(|(k, _)| k.clone()).collect();
                        changed.extend(ids1.keys().filter(|k| !ids0.contains_key(*k)).cloned());
                        let roundtrip = match reencode(&base, &raw1) {
                            Ok(again) => again == raw1 && identifiers(&base, &again, &settings).ok().as_ref() == Some(&ids1),
                            Err(_) => false,
                        };
                        json!({"a": "byte", "shape": shape, "pos": pos, "mask": mask, "prepared": true, "panic": false, "roundtrip": roundtrip, "changed": changed})
                    }
                };
                out.emit(&ev);
            }
        }
    }
    out.flush();
}

// ---------------------------------------------------------------------------------------------
// Non-canonical V2 payloads at byte level (deterministic, no seed): set-like fields with a DUPLICATED element - they
// cannot be produced through the model types (IndexSet), so an honest payload with two distinct children [h1, h2] is
// encoded and the bytes of h2 are overwritten with h1.  Recorded per payload (`noncanon`): prepare / decode verdicts,
// whether re-encoding the decoded model reproduces the bytes, the identifier and an identity of the PREPARED content;
// and per pair of payloads (`pair`): same bytes? both prepared? same prepared content?  TraceTxHashes decides.
fn nc_core(children: &[[u8; 32]], disc: u64) -> IntentCoreV2 {
    IntentCoreV2 {
        header: IntentHeaderV2 {
            network_id: NetworkDefinition::simulator().id,
            start_epoch_inclusive: Epoch::of(0),
            end_epoch_exclusive: Epoch::of(1),
            min_proposer_timestamp_inclusive: None,
            max_proposer_timestamp_exclusive: None,
            intent_discriminator: disc,
        },
        blobs: BlobsV1::none(),
        message: MessageV2::None,
        children: ChildSubintentSpecifiersV2 { children: children.iter().map(|h| ChildSubintentSpecifier { hash: SubintentHash::from_bytes(*h) }).collect() },
        instructions: InstructionsV2(vec![]),
    }
}
fn nc_notarized(root_children: &[[u8; 32]], subs: Vec<SubintentV2>) -> NotarizedTransactionV2 {
    let n = subs.len();
    NotarizedTransactionV2 {
        signed_transaction_intent: SignedTransactionIntentV2 {
            transaction_intent: TransactionIntentV2 {
                transaction_header: TransactionHeaderV2 { notary_public_key: Ed25519PrivateKey::from_u64(1337).unwrap().public_key().into(), notary_is_signatory: false, tip_basis_points: 0 },
                root_intent_core: nc_core(root_children, 7),
                non_root_subintents: NonRootSubintentsV2(subs),
            },
            transaction_intent_signatures: IntentSignaturesV2::none(),
            non_root_subintent_signatures: NonRootSubintentSignaturesV2 { by_subintent: (0..n).map(|_| IntentSignaturesV2::none()).collect() },
        },
        notary_signature: NotarySignatureV2(SignatureV1::Ed25519(Ed25519Signature([0u8; Ed25519Signature::LENGTH]))),
    }
}
/// overwrites every occurrence of `from` with `to`
fn nc_overwrite(mut payload: Vec<u8>, from: &[u8; 32], to: &[u8; 32]) -> Vec<u8> {
    let mut i = 0;
    let mut n = 0;
    while i + 32 <= payload.len() {
        if &payload[i..i + 32] == from {
            payload[i..i + 32].copy_from_slice(to);
            i += 32;
            n += 1;
        } else {
            i += 1;
        }
    }
    assert!(n >= 1, "harness: hash to overwrite not found");
    payload
}
fn nc_core_content(c: &PreparedIntentCoreV2) -> Value {
    json!({
        "header": hex::encode(manifest_encode(&c.header.inner).unwrap()),
        "children": c.children.children.iter().map(|x| hex::encode(x.hash.as_hash().0)).collect::<Vec<_>>(),
        "instructions": hex::encode(manifest_encode(&*c.instructions.inner.0).unwrap()),
        "message": hex::encode(manifest_encode(&c.message.inner).unwrap()),
        "blobs": c.blobs.blobs_by_hash.keys().map(|h| hex::encode(h.0)).collect::<Vec<_>>(),
    })
}
struct NcObs {
    name: String,
    bytes: Vec<u8>,
    prepared: bool,
    content: String,
    ev: Value,
}
fn nc_observe_subintent(name: &str, bytes: Vec<u8>) -> NcObs {
    let settings = permissive();
    let raw = RawSubintent::from_vec(bytes.clone());
    let prep = catch(|| PreparedSubintentV2::prepare(&raw, &settings));
    let dec = catch(|| SubintentV2::from_raw(&raw));
    let (prepared, perr, id, content) = match &prep {
        Ok(Ok(p)) => (true, String::new(), hex::encode(p.subintent_hash().as_hash().0), nc_core_content(&p.intent_core).to_string()),
        Ok(Err(e)) => (false, format!("{:?}", e).chars().take(60).collect(), String::new(), String::new()),
        Err(_) => (false, "panic".into(), String::new(), String::new()),
    };
    let (decoded, roundtrip) = match &dec {
        Ok(Ok(m)) => (true, m.to_raw().map(|r| r.to_vec() == bytes).unwrap_or(false)),
        _ => (false, false),
    };
    let ev = json!({"a": "noncanon", "payload": name, "kind": "subintent", "panic": prep.is_err() || dec.is_err(), "prepared": prepared, "prepare_error": perr,
                    "decoded": decoded, "roundtrip": roundtrip, "id": id, "content": hex::encode(&hash(content.as_bytes()).0[..12])});
    NcObs { name: name.to_string(), bytes, prepared, content, ev }
}
fn nc_observe_notarized(name: &str, bytes: Vec<u8>) -> NcObs {
    let settings = permissive();
    let raw = RawNotarizedTransaction::from_vec(bytes.clone());
    let prep = catch(|| PreparedNotarizedTransactionV2::prepare(&raw, &settings));
    let dec = catch(|| NotarizedTransactionV2::from_raw(&raw));
    let (prepared, perr, id, content) = match &prep {
        Ok(Ok(p)) => {
            let ti = &p.signed_intent.transaction_intent;
            let subs: Vec<Value> = ti.non_root_subintents.subintents.iter().map(|s| nc_core_content(&s.intent_core)).collect();
            let content = json!({"root": nc_core_content(&ti.root_intent_core), "subintents": subs,
                                 "header": hex::encode(manifest_encode(&ti.transaction_header.inner).unwrap())}).to_string();
            (true, String::new(), hex::encode(p.transaction_intent_hash().as_hash().0), content)
        }
        Ok(Err(e)) => (false, format!("{:?}", e).chars().take(60).collect(), String::new(), String::new()),
        Err(_) => (false, "panic".into(), String::new(), String::new()),
    };
    let (decoded, roundtrip) = match &dec {
        Ok(Ok(m)) => (true, m.to_raw().map(|r| r.to_vec() == bytes).unwrap_or(false)),
        _ => (false, false),
    };
    let ev = json!({"a": "noncanon", "payload": name, "kind": "notarized_v2", "panic": prep.is_err() || dec.is_err(), "prepared": prepared, "prepare_error": perr,
                    "decoded": decoded, "roundtrip": roundtrip, "id": id, "content": hex::encode(&hash(content.as_bytes()).0[..12])});
    NcObs { name: name.to_string(), bytes, prepared, content, ev }
}
fn noncanon() {
    let mut out = Out::new();
    let (h1, h2, h3) = ([0x11u8; 32], [0x22u8; 32], [0x33u8; 32]);
    let sub = |children: &[[u8; 32]], disc: u64| SubintentV2 { intent_core: nc_core(children, disc) };
    let raw_sub = |s: &SubintentV2| s.to_raw().unwrap().to_vec();
    let raw_tx = |t: &NotarizedTransactionV2| t.to_raw().unwrap().to_vec();
    // subintent payloads: canonical [h1], [h1, h2], [h2, h1], [h1, h2, h3]; crafted [h1, h1], [h1, h1, h3], [h1, h3, h1] -> via overwrite, [h1, h1, h1]
    let mut groups: Vec<Vec<NcObs>> = vec![];
    let mut g = vec![];
    g.push(nc_observe_subintent("sub [h1]", raw_sub(&sub(&[h1], 7))));
    g.push(nc_observe_subintent("sub [h1,h2]", raw_sub(&sub(&[h1, h2], 7))));
    g.push(nc_observe_subintent("sub [h2,h1]", raw_sub(&sub(&[h2, h1], 7))));
    g.push(nc_observe_subintent("sub [h1,h1] (crafted)", nc_overwrite(raw_sub(&sub(&[h1, h2], 7)), &h2, &h1)));
    g.push(nc_observe_subintent("sub [h1,h3]", raw_sub(&sub(&[h1, h3], 7))));
    g.push(nc_observe_subintent("sub [h1,h1,h3] (crafted)", nc_overwrite(raw_sub(&sub(&[h1, h2, h3], 7)), &h2, &h1)));
    g.push(nc_observe_subintent("sub [h1,h3,h1] (crafted)", nc_overwrite(raw_sub(&sub(&[h1, h3, h2], 7)), &h2, &h1)));
    g.push(nc_observe_subintent("sub [h1,h1,h1] (crafted)", nc_overwrite(nc_overwrite(raw_sub(&sub(&[h1, h2, h3], 7)), &h2, &h1), &h3, &h1)));
    groups.push(g);
    // notarized V2: duplicated child of the transaction intent (root) core
    let mut g = vec![];
    g.push(nc_observe_notarized("tx root [h1]", raw_tx(&nc_notarized(&[h1], vec![]))));
    g.push(nc_observe_notarized("tx root [h1,h2]", raw_tx(&nc_notarized(&[h1, h2], vec![]))));
    g.push(nc_observe_notarized("tx root [h1,h1] (crafted)", nc_overwrite(raw_tx(&nc_notarized(&[h1, h2], vec![])), &h2, &h1)));
    g.push(nc_observe_notarized("tx root [h1,h1,h3] (crafted)", nc_overwrite(raw_tx(&nc_notarized(&[h1, h2, h3], vec![])), &h2, &h1)));
    groups.push(g);
    // notarized V2: duplicated child inside a non-root subintent; the same subintent listed twice (expressible in the model: a Vec)
    let mut g = vec![];
    g.push(nc_observe_notarized("tx sub [h1]", raw_tx(&nc_notarized(&[], vec![sub(&[h1], 8)]))));
    g.push(nc_observe_notarized("tx sub [h1,h2]", raw_tx(&nc_notarized(&[], vec![sub(&[h1, h2], 8)]))));
    g.push(nc_observe_notarized("tx sub [h1,h1] (crafted)", nc_overwrite(raw_tx(&nc_notarized(&[], vec![sub(&[h1, h2], 8)])), &h2, &h1)));
    g.push(nc_observe_notarized("tx subintents [s]", raw_tx(&nc_notarized(&[], vec![sub(&[], 9)]))));
    g.push(nc_observe_notarized("tx subintents [s,s]", raw_tx(&nc_notarized(&[], vec![sub(&[], 9), sub(&[], 9)]))));
    groups.push(g);
    for g in &groups {
        for o in g {
            out.emit(&o.ev);
        }
        for i in 0..g.len() {
            for j in (i + 1)..g.len() {
                out.emit(&json!({"a": "pair", "x": g[i].name, "y": g[j].name, "same_bytes": g[i].bytes == g[j].bytes,
                                 "both_prepared": g[i].prepared && g[j].prepared, "same_content": g[i].prepared && g[j].prepared && g[i].content == g[j].content}));
            }
        }
    }
    out.flush();
}

//! C34 — binding of spec/TxLimits to TransactionValidator (notarized V1 and V2 transactions).
//! TLC (GenTxLimits) supplies the abstract transaction, the configuration and the expected verdict;
//! the harness builds the real transaction, validates it with a validator made from the model's
//! configuration record and projects the answer (error variant -> class name, overall range).
use crate::txbuild::*;
use radix_common::prelude::*;
use radix_transactions::errors::*;
use radix_transactions::manifest::*;
use radix_transactions::model::*;
use radix_transactions::prelude::*;
use radix_transactions::validation::*;
use serde_json::{json, Value};
use vh::util::*;
use vh::Args;

fn intent_from_json(v: &Value, idx: usize, nsig_base: &mut usize, seed: u64) -> IntentSpec {
    let i = |k: &str| v[k].as_i64().unwrap();
    let nsigs = i("nsigs") as usize;
    let sigs = (0..nsigs)
        .map(|_| {
            let (curve, key) = signer_key(*nsig_base, seed);
            *nsig_base += 1;
            SigSpec { curve, key, over: Over::Own }
        })
        .collect();
    IntentSpec {
        net: i("net") as u8,
        start: embed(i("start"), u64::MAX),
        end: embed(i("end"), u64::MAX),
        tmin: v.get("tmin").and_then(|t| t.as_i64()).filter(|t| *t >= 0),
        tmax: v.get("tmax").and_then(|t| t.as_i64()).filter(|t| *t >= 0),
        disc: idx as u64 + seed * 1000,
        msg: MsgSpec::from_json(&v["msg"]),
        nrefs: i("nrefs") as usize,
        ninstr: i("ninstr") as usize,
        nblobs: i("nblobs") as usize,
        blob_pad: 0,
        instr_salt: 0,
        blob_salt: 0,
        sigs,
        parent: v.get("parent").and_then(|p| p.as_u64()).unwrap_or(0) as usize,
        reverse_children: false,
            child_yields: vec![],
            parent_yields: 0,
    }
}

pub fn spec_from_json(tx: &Value, seed: u64) -> TxSpec {
    let ver = tx["ver"].as_u64().unwrap() as u8;
    let mut nsig = 0usize;
    let notary = (Curve::Ed, 77 + seed % 1000);
    let notary_sig = SigSpec { curve: notary.0, key: notary.1, over: Over::Signed };
    if ver == 1 {
        TxSpec {
            ver,
            intents: vec![intent_from_json(tx, 0, &mut nsig, seed)],
            nonce: seed as u32,
            tip: tx["tip"].as_u64().unwrap() as u32,
            notary,
            notary_is_signatory: false,
            notary_sig,
        }
    } else {
        let intents = tx["intents"].as_array().unwrap().iter().enumerate().map(|(k, v)| intent_from_json(v, k, &mut nsig, seed)).collect();
        TxSpec { ver, intents, nonce: 0, tip: embed(tx["tipbp"].as_i64().unwrap(), u32::MAX as u64) as u32, notary, notary_is_signatory: false, notary_sig }
    }
}

/// pads blob 0 of the root intent until the raw payload has exactly `target` bytes
fn build_with_payload(spec: &mut TxSpec, target: i64, seed: u64) -> Result<Built, String> {
    let mut built = direct(spec, seed);
    if target < 0 {
        return Ok(built);
    }
    for _ in 0..8 {
        let len = built.raw.as_slice().len() as i64;
        if len == target {
            return Ok(built);
        }
        let pad = spec.intents[0].blob_pad as i64 + (target - len);
        if pad < 0 || spec.intents[0].nblobs == 0 {
            return Err(format!("cannot reach payload length {} (natural length {})", target, len));
        }
        spec.intents[0].blob_pad = pad as usize;
        built = direct(spec, seed);
    }
    Err("payload length targeting did not converge".into())
}

pub fn classify_error(e: &TransactionValidationError) -> String {
    use TransactionValidationError as E;
    let s: &str = match e {
        E::TransactionVersionNotPermitted(_) => "V2NotAllowed",
        E::TransactionTooLarge => "TooLarge",
        E::PrepareError(p) => match p {
            PrepareError::TransactionTooLarge => "TooLarge",
            PrepareError::TransactionTypeNotSupported => "V2NotPermitted",
            PrepareError::TooManyValues { value_type, .. } => match value_type {
                ValueType::Blob => "TooManyBlobs",
                ValueType::Subintent => "TooManySubintents",
                ValueType::ChildSubintentSpecifier => "TooManyChildren",
                ValueType::SubintentSignatureBatches => "TooManySignatureBatches",
            },
            PrepareError::DecodeError(_) => "DecodeError",
            PrepareError::EncodeError(_) => "EncodeError",
            PrepareError::LengthOverflow => "LengthOverflow",
            PrepareError::UnexpectedTransactionDiscriminator { .. } => "UnexpectedDiscriminator",
        },
        E::EncodeError(_) => "EncodeError",
        E::SubintentStructureError(_, s) => match s {
            SubintentStructureError::SubintentExceedsMaxDepth => "Depth",
            _ => return format!("structure:{:?}", s),
        },
        E::IntentValidationError(_, i) => match i {
            IntentValidationError::HeaderValidationError(h) => match h {
                HeaderValidationError::InvalidEpochRange => "EpochRange",
                HeaderValidationError::InvalidTimestampRange => "TimestampRange",
                HeaderValidationError::InvalidNetwork => "Network",
                HeaderValidationError::InvalidTip => "Tip",
                HeaderValidationError::NoValidEpochRangeAcrossAllIntents => "NoEpochOverlap",
                HeaderValidationError::NoValidTimestampRangeAcrossAllIntents => "NoTimestampOverlap",
            },
            IntentValidationError::InvalidMessage(m) => match m {
                InvalidMessageError::PlaintextMessageTooLong { .. } => "PlainTooLong",
                InvalidMessageError::MimeTypeTooLong { .. } => "MimeTooLong",
                InvalidMessageError::EncryptedMessageTooLong { .. } => "EncTooLong",
                InvalidMessageError::NoDecryptors => "NoDecryptors",
                InvalidMessageError::MismatchingDecryptorCurves { .. } => "CurveMismatch",
                InvalidMessageError::TooManyDecryptors { .. } => "TooManyDecryptors",
                InvalidMessageError::NoDecryptorsForCurveType { .. } => "NoDecryptorsForCurve",
            },
            IntentValidationError::TooManyReferences { .. } => "TooManyRefs",
            IntentValidationError::ManifestValidationError(ManifestValidationError::TooManyInstructions) => "TooManyInstr",
            other => return format!("intent:{:?}", other).chars().take(80).collect(),
        },
        E::SignatureValidationError(_, s) => match s {
            SignatureValidationError::TooManySignatures { .. } => "TooManySigs",
            SignatureValidationError::InvalidIntentSignature => "InvalidIntentSignature",
            SignatureValidationError::InvalidNotarySignature => "InvalidNotarySignature",
            SignatureValidationError::DuplicateSigner => "DuplicateSigner",
            SignatureValidationError::NotaryIsSignatorySoShouldNotAlsoBeASigner => "NotaryDuplicatesSigner",
            SignatureValidationError::SerializationError(_) => "SerializationError",
            SignatureValidationError::IncorrectNumberOfSubintentSignatureBatches => "WrongBatchCount",
        },
    };
    s.to_string()
}

fn overall_json(o: &OverallValidityRangeV2) -> Value {
    json!({
        "start": unembed(o.epoch_range.start_epoch_inclusive.number(), u64::MAX),
        "end": unembed(o.epoch_range.end_epoch_exclusive.number(), u64::MAX),
        "tmin": o.proposer_timestamp_range.start_timestamp_inclusive.as_ref().map(|t| t.seconds_since_unix_epoch).unwrap_or(-1),
        "tmax": o.proposer_timestamp_range.end_timestamp_exclusive.as_ref().map(|t| t.seconds_since_unix_epoch).unwrap_or(-1),
    })
}

pub fn run(mode: &str, args: &Args) {
    match mode {
        "replay" => replay(args),
        _ => panic!("mode"),
    }
}

fn real_config(name: &str) -> Option<TransactionValidationConfig> {
    match name {
        "babylon" => Some(TransactionValidationConfig::babylon()),
        "cuttlefish" => Some(TransactionValidationConfig::cuttlefish()),
        _ => None,
    }
}

fn replay(args: &Args) {
    let seed = args.u64("seed", 1);
    let mut out = Out::new();
    let cases = read_lines();
    let mut classes = std::collections::BTreeMap::<String, u64>::new();
    let mut builder_checked = 0u64;
    let mut checked_configs = std::collections::BTreeSet::<String>::new();
    for (bi, b) in cases.iter().enumerate() {
        let cfg = &b["cfg"];
        let name = cfg["name"].as_str().unwrap().to_string();
        // the model's transcription of a named configuration must be the real one
        if let Some(real) = real_config(&name) {
            if checked_configs.insert(name.clone()) {
                let (model_cfg, net) = config_from_json(cfg);
                if model_cfg != real || net != Some(NetworkDefinition::simulator().id) {
                    out.mismatch(bi, 0, "configuration transcription", json!(format!("{:?}", model_cfg)), json!(format!("{:?}", real)));
                }
                if name == "cuttlefish" && real != TransactionValidationConfig::latest() {
                    out.mismatch(bi, 0, "latest configuration is not cuttlefish", json!("cuttlefish"), json!(format!("{:?}", TransactionValidationConfig::latest())));
                }
            }
        }
        let validator = validator_from_json(cfg);
        let tx = &b["tx"];
        let mut spec = spec_from_json(tx, seed);
        let target = tx["payload"].as_i64().unwrap();
        let built = match catch(|| build_with_payload(&mut spec, target, seed)) {
            Ok(Ok(x)) => x,
            Ok(Err(e)) => {
                out.mismatch(bi, 0, "harness could not build the case", b["tx"].clone(), json!(e));
                continue;
            }
            Err(e) => {
                out.mismatch(bi, 0, "harness could not build the case", b["tx"].clone(), json!(e));
                continue;
            }
        };
        // natural payloads must be below every configured maximum (assumption of the model)
        if target < 0 && built.raw.as_slice().len() as i64 > cfg["prep"]["maxPayload"].as_i64().unwrap() {
            out.mismatch(bi, 0, "natural payload above the configured maximum", json!(cfg["prep"]["maxPayload"]), json!(built.raw.as_slice().len()));
            continue;
        }
        // cross-check with the real builders where they can express the transaction
        if is_dfs_order(&spec) {
            let s2 = spec.clone();
            if let Ok(Some(raw2)) = catch(|| with_builders(&s2, seed)) {
                builder_checked += 1;
                if raw2.as_slice() != built.raw.as_slice() {
                    out.mismatch(bi, 0, "builder and direct construction differ", json!(hex::encode(&built.raw.as_slice()[..32.min(built.raw.as_slice().len())])), json!(raw2.as_slice().len()));
                }
            }
        }
        let res = catch(|| built.raw.validate(&validator));
        let (got, overall) = match &res {
            Err(_) => ("panic".to_string(), Value::Null),
            Ok(Ok(ValidatedUserTransaction::V1(_))) => ("ok".to_string(), Value::Null),
            Ok(Ok(ValidatedUserTransaction::V2(v))) => ("ok".to_string(), overall_json(&v.overall_validity_range)),
            Ok(Err(e)) => (classify_error(e), Value::Null),
        };
        *classes.entry(got.clone()).or_default() += 1;
        let exp_ok = b["exp"]["ok"].as_bool().unwrap();
        if exp_ok != (got == "ok") {
            out.mismatch(bi, 0, "verdict", b["exp"].clone(), json!(got));
        } else if !exp_ok && !b["exp"]["errs"].as_array().unwrap().iter().any(|e| e.as_str() == Some(got.as_str())) {
            out.mismatch(bi, 0, "error class", b["exp"].clone(), json!(got));
        } else if exp_ok && spec.ver == 2 && overall != b["exp"]["overall"] {
            out.mismatch(bi, 0, "overall validity range", b["exp"]["overall"].clone(), overall);
        }
    }
    out.emit(&json!({"classes": classes, "builder_checked": builder_checked}));
    out.done(cases.len(), cases.len());
}

//! C48 — binding of spec/CryptoIdeal to radix_common::crypto (secp256k1, Ed25519, BLS12-381).
//! Scenarios and allowed outcomes come from TLC (GenCryptoIdeal); the harness instantiates the
//! symbolic keys / messages with real ones (seeded), applies the described byte operations to the
//! real encodings, calls the real primitive and projects the outcome to "true" / "false" /
//! "k1".."k3" / "other" / "none" / "panic".
use radix_common::prelude::*;
use rand::prelude::*;
use serde_json::{json, Value};
use vh::util::*;
use vh::Args;

pub struct World {
    pub secp: Vec<Secp256k1PrivateKey>,
    pub ed: Vec<Ed25519PrivateKey>,
    pub bls: Vec<Bls12381G1PrivateKey>,
    pub msgs: Vec<[u8; 32]>,
}
impl World {
    pub fn new(seed: u64) -> World {
        let mut rng = StdRng::seed_from_u64(seed);
        let mut bytes = |rng: &mut StdRng| {
            let mut b = [0u8; 32];
            rng.fill_bytes(&mut b);
            b
        };
        let mut secp = vec![];
        while secp.len() < 3 {
            if let Ok(k) = Secp256k1PrivateKey::from_bytes(&bytes(&mut rng)) {
                secp.push(k);
            }
        }
        let mut ed = vec![];
        while ed.len() < 3 {
            if let Ok(k) = Ed25519PrivateKey::from_bytes(&bytes(&mut rng)) {
                ed.push(k);
            }
        }
        let mut bls = vec![];
        while bls.len() < 3 {
            let mut b = bytes(&mut rng);
            b[0] &= 0x3f; // below the group order
            if let Ok(k) = Bls12381G1PrivateKey::from_bytes(&b) {
                bls.push(k);
            }
        }
        let msgs = (0..3).map(|_| bytes(&mut rng)).collect();
        World { secp, ed, bls, msgs }
    }
}

fn region_offset(alg: &str, target: &str, region: &str) -> usize {
    match (alg, target, region) {
        ("secp", "sig", "v") => 0,
        ("secp", "sig", "r") => 1,
        ("secp", "sig", "s") => 33,
        ("ed", "sig", "R") => 0,
        ("ed", "sig", "S") => 32,
        ("bls", "sig", "head") => 0,
        ("bls", "sig", "body") => 1,
        ("secp", "pk", "head") => 0,
        ("secp", "pk", "x") => 1,
        ("ed", "pk", "y") => 0,
        ("ed", "pk", "last") => 31,
        ("bls", "pk", "head") => 0,
        ("bls", "pk", "body") => 1,
        (_, "msg", "m") => 0,
        _ => panic!("harness: unknown region {} {} {}", alg, target, region),
    }
}

/// applies the scenario's byte operation when it targets `target`
fn mutate(alg: &str, target: &str, mut bytes: Vec<u8>, m: &Value) -> Vec<u8> {
    if m["target"].as_str().unwrap() != target {
        return bytes;
    }
    match m["kind"].as_str().unwrap() {
        "xor" => {
            let off = region_offset(alg, target, m["region"].as_str().unwrap()) + m["idx"].as_u64().unwrap() as usize;
            bytes[off] ^= m["mask"].as_u64().unwrap() as u8;
        }
        "trunc" => {
            bytes.pop();
        }
        "extend" => bytes.push(0),
        "zero" => bytes.iter_mut().for_each(|b| *b = 0),
        "swap" => {
            let n = bytes.len();
            bytes = match alg {
                "secp" => [&bytes[0..1], &bytes[33..65], &bytes[1..33]].concat(),
                _ => [&bytes[n / 2..], &bytes[..n / 2]].concat(),
            };
        }
        k => panic!("harness: unknown mutation kind {}", k),
    }
    bytes
}

fn b(x: bool) -> String {
    (if x { "true" } else { "false" }).to_string()
}

pub fn outcome(w: &World, s: &Value) -> String {
    let op = s["op"].as_str().unwrap();
    let m = &s["mut"];
    let ix = |k: &str| s[k].as_u64().unwrap() as usize - 1;
    match op {
        "secp.verify" | "secp.recover" => {
            let sig = mutate("secp", "sig", w.secp[ix("k")].sign(&Hash(w.msgs[ix("m")])).to_vec(), m);
            let pk = mutate("secp", "pk", w.secp[ix("vk")].public_key().to_vec(), m);
            let msg = mutate("secp", "msg", w.msgs[ix("vm")].to_vec(), m);
            let sig = match Secp256k1Signature::try_from(sig.as_slice()) {
                Ok(x) => x,
                Err(_) => return if op == "secp.verify" { b(false) } else { "none".into() },
            };
            let h = Hash(msg.try_into().unwrap());
            if op == "secp.verify" {
                match Secp256k1PublicKey::try_from(pk.as_slice()) {
                    Ok(pk) => b(verify_secp256k1(&h, &pk, &sig)),
                    Err(_) => b(false),
                }
            } else {
                match verify_and_recover_secp256k1(&h, &sig) {
                    None => "none".into(),
                    Some(pk) => match w.secp.iter().position(|k| k.public_key() == pk) {
                        Some(i) => format!("k{}", i + 1),
                        None => "other".into(),
                    },
                }
            }
        }
        "ed.verify" => {
            let sig = mutate("ed", "sig", w.ed[ix("k")].sign(&w.msgs[ix("m")]).to_vec(), m);
            let pk = mutate("ed", "pk", w.ed[ix("vk")].public_key().to_vec(), m);
            let msg = mutate("ed", "msg", w.msgs[ix("vm")].to_vec(), m);
            match (Ed25519Signature::try_from(sig.as_slice()), Ed25519PublicKey::try_from(pk.as_slice())) {
                (Ok(sig), Ok(pk)) => b(verify_ed25519(&msg, &pk, &sig)),
                _ => b(false),
            }
        }
        "bls.verify" => {
            let sig = mutate("bls", "sig", w.bls[ix("k")].sign_v1(&w.msgs[ix("m")]).to_vec(), m);
            let pk = mutate("bls", "pk", w.bls[ix("vk")].public_key().to_vec(), m);
            let msg = mutate("bls", "msg", w.msgs[ix("vm")].to_vec(), m);
            match (Bls12381G2Signature::try_from(sig.as_slice()), Bls12381G1PublicKey::try_from(pk.as_slice())) {
                (Ok(sig), Ok(pk)) => b(verify_bls12381_v1(&msg, &pk, &sig)),
                _ => b(false),
            }
        }
        "bls.agg" | "bls.fast" | "bls.fast_anemone" => {
            let comps: Vec<Bls12381G2Signature> = s["comps"]
                .as_array()
                .unwrap()
                .iter()
                .map(|c| w.bls[c["k"].as_u64().unwrap() as usize - 1].sign_v1(&w.msgs[c["m"].as_u64().unwrap() as usize - 1]))
                .collect();
            let agg = if op == "bls.fast_anemone" { Bls12381G2Signature::aggregate_anemone(&comps) } else { Bls12381G2Signature::aggregate(&comps, true) };
            let agg = agg.expect("harness: honest signatures must aggregate");
            let sig = mutate("bls", "sig", agg.to_vec(), m);
            let sig = match Bls12381G2Signature::try_from(sig.as_slice()) {
                Ok(x) => x,
                Err(_) => return b(false),
            };
            let mut pks = vec![];
            let mut msgs = vec![];
            for (i, p) in s["pairs"].as_array().unwrap().iter().enumerate() {
                let mut pk = w.bls[p["k"].as_u64().unwrap() as usize - 1].public_key().to_vec();
                if i == 0 {
                    pk = mutate("bls", "pk", pk, m);
                }
                match Bls12381G1PublicKey::try_from(pk.as_slice()) {
                    Ok(pk) => pks.push(pk),
                    Err(_) => return b(false),
                }
                if op == "bls.agg" {
                    let mut msg = w.msgs[p["m"].as_u64().unwrap() as usize - 1].to_vec();
                    if i == 0 {
                        msg = mutate("bls", "msg", msg, m);
                    }
                    msgs.push(msg);
                }
            }
            if op == "bls.agg" {
                let pairs: Vec<(Bls12381G1PublicKey, Vec<u8>)> = pks.into_iter().zip(msgs).collect();
                b(aggregate_verify_bls12381_v1(&pairs, &sig))
            } else {
                let msg = mutate("bls", "msg", w.msgs[ix("vm")].to_vec(), m);
                if op == "bls.fast" {
                    b(fast_aggregate_verify_bls12381_v1(&msg, &pks, &sig))
                } else {
                    b(fast_aggregate_verify_bls12381_v1_anemone(&msg, &pks, &sig))
                }
            }
        }
        _ => panic!("harness: unknown op {}", op),
    }
}

pub fn run(mode: &str, args: &Args) {
    match mode {
        "replay" => replay(args),
        _ => panic!("mode"),
    }
}

fn replay(args: &Args) {
    let seed = args.u64("seed", 1);
    let w = World::new(seed);
    let mut out = Out::new();
    let cases = read_lines();
    let mut outcomes = std::collections::BTreeMap::<String, u64>::new();
    for (bi, c) in cases.iter().enumerate() {
        let got = match catch(|| outcome(&w, &c["s"])) {
            Ok(g) => g,
            Err(e) if e.starts_with("harness:") => {
                out.mismatch(bi, 0, "harness error", c["s"].clone(), json!(e));
                continue;
            }
            Err(_) => "panic".to_string(),
        };
        *outcomes.entry(format!("{}:{}", c["s"]["op"].as_str().unwrap(), got)).or_default() += 1;
        if !c["allowed"].as_array().unwrap().iter().any(|a| a.as_str() == Some(got.as_str())) {
            out.mismatch(bi, 0, "outcome", c["allowed"].clone(), json!(got));
        }
    }
    out.emit(&json!({"outcomes": outcomes}));
    out.done(cases.len(), cases.len());
}

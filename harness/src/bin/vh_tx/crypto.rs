//! C48 — binding of spec/CryptoIdeal to radix_common::crypto (secp256k1, Ed25519, BLS12-381).
//! Scenarios and allowed outcomes come from TLC (GenCryptoIdeal); the harness instantiates the
//! symbolic keys / messages with real ones (seeded), applies the described byte operations to the
//! real encodings, calls the real primitive and projects the outcome to "true" / "false" /
//! "k1".."k3" / "other" / "none" / "panic".
use radix_common::prelude::*;
use rand::prelude::*;
use serde_json::{json, Value};
use vh::util::*;
use vh::Args;

pub struct World {
    pub secp: Vec<Secp256k1PrivateKey>,
    pub ed: Vec<Ed25519PrivateKey>,
    pub bls: Vec<Bls12381G1PrivateKey>,
    pub msgs: Vec<[u8; 32]>,
}
impl World {
    pub fn new(seed: u64) -> World {
        let mut rng = StdRng::seed_from_u64(seed);
        let mut bytes = |rng: &mut StdRng| {
            let mut b = [0u8; 32];
            rng.fill_bytes(&mut b);
            b
        };
        let mut secp = vec![];
        while secp.len() < 3 {
            if let Ok(k) = Secp256k1PrivateKey::from_bytes(&bytes(&mut rng)) {
                secp.push(k);
            }
        }
        let mut ed = vec![];
        while ed.len() < 3 {
            if let Ok(k) = Ed25519PrivateKey::from_bytes(&bytes(&mut rng)) {
                ed.push(k);
            }
        }
        let mut bls = vec![];
        while bls.len() < 3 {
            let mut b = bytes(&mut rng);
            b[0] &= 0x3f; // below the group order
            if let Ok(k) = Bls12381G1PrivateKey::from_bytes(&b) {
                bls.push(k);
            }
        }
        let msgs = (0..3).map(|_| bytes(&mut rng)).collect();
        World { secp, ed, bls, msgs }
    }
}

fn region_offset(alg: &str, target: &str, region: &str) -> usize {
    match (alg, target, region) {
        ("secp", "sig", "v") => 0,
        ("secp", "sig", "r") => 1,
        ("secp", "sig", "s") => 33,
        ("ed", "sig", "R") => 0,
        ("ed", "sig", "S") => 32,
        ("bls", "sig", "head") => 0,
        ("bls", "sig", "body") => 1,
        ("secp", "pk", "head") => 0,
        ("secp", "pk", "x") => 1,
        ("ed", "pk", "y") => 0,
        ("ed", "pk", "last") => 31,
        ("bls", "pk", "head") => 0,
        ("bls", "pk", "body") => 1,
        (_, "msg", "m") => 0,
        _ => panic!("harness: unknown region {} {} {}", alg, target, region),
    }
}

/// applies the scenario's byte operation when it targets `target`
fn mutate(alg: &str, target: &str, mut bytes: Vec<u8>, m: &Value) -> Vec<u8> {
    if m["target"].as_str().unwrap() != target {
        return bytes;
    }
    match m["kind"].as_str().unwrap() {
        "xor" => {
            let off = region_offset(alg, target, m["region"].as_str().unwrap()) + m["idx"].as_u64().unwrap() as usize;
            bytes[off] ^= m["mask"].as_u64().unwrap() as u8;
        }
        "trunc" => {
            bytes.pop();
        }
        "extend" => bytes.push(0),
        "zero" => bytes.iter_mut().for_each(|b| *b = 0),
        "swap" => {
            let n = bytes.len();
            bytes = match alg {
                "secp" => [&bytes[0..1], &bytes[33..65], &bytes[1..33]].concat(),
                _ => [&bytes[n / 2..], &bytes[..n / 2]].concat(),
            };
        }
        k => panic!("harness: unknown mutation kind {}", k),
    }
    bytes
}

// ---------------------------------------------------------------------------------------------
// algebraically degenerate values (scenario mut.target = "craft"): encodings nobody can have produced
const ED_L: &str = "edd3f55c1a631258d69cf7a2def9de1400000000000000000000000000000010"; // group order, little endian
const SECP_N: &str = "fffffffffffffffffffffffffffffffebaaedce6af48a03bbfd25e8cd0364141"; // group order, big endian
fn hexv(s: &str) -> Vec<u8> {
    hex::decode(s).unwrap()
}
fn bls_inf(len: usize) -> Vec<u8> {
    let mut v = vec![0u8; len];
    v[0] = 0xc0; // compressed, infinity
    v
}
fn is_craft(m: &Value) -> bool {
    m["target"].as_str() == Some("craft")
}
/// little-endian a + b (32 bytes, carry dropped)
fn add_le(a: &[u8], b: &[u8]) -> Vec<u8> {
    let mut carry = 0u16;
    (0..32).map(|i| { let x = a[i] as u16 + b[i] as u16 + carry; carry = x >> 8; x as u8 }).collect()
}
/// big-endian a - b (32 bytes, a >= b)
fn sub_be(a: &[u8], b: &[u8]) -> Vec<u8> {
    let mut out = vec![0u8; 32];
    let mut borrow = 0i16;
    for i in (0..32).rev() {
        let mut x = a[i] as i16 - b[i] as i16 - borrow;
        borrow = if x < 0 { x += 256; 1 } else { 0 };
        out[i] = x as u8;
    }
    out
}
fn ed_s(kind: &str, honest_sig: &[u8]) -> Vec<u8> {
    match kind {
        "s0" => vec![0u8; 32],
        "s1" => { let mut v = vec![0u8; 32]; v[0] = 1; v }
        "sL" => hexv(ED_L),
        "sHonest" => honest_sig[32..].to_vec(),
        k => panic!("harness: unknown s kind {}", k),
    }
}
/// (public key, signature) of a crafted Ed25519 scenario
fn craft_ed(m: &Value, honest_pk: Vec<u8>, honest_sig: Vec<u8>) -> (Vec<u8>, Vec<u8>) {
    let idx = m["idx"].as_u64().unwrap() as usize;
    let mask = m["mask"].as_u64().unwrap() as usize;
    let region = m["region"].as_str().unwrap();
    match m["kind"].as_str().unwrap() {
        "ed.torsion" => (crate::txbuild::ed_torsion(idx).to_vec(), [crate::txbuild::ed_torsion(mask).to_vec(), ed_s(region, &honest_sig)].concat()),
        "ed.torsionR" => (honest_pk, [crate::txbuild::ed_torsion(idx).to_vec(), ed_s(region, &honest_sig)].concat()),
        "ed.torsionPk" => (crate::txbuild::ed_torsion(idx).to_vec(), honest_sig),
        "ed.sPlusL" => (honest_pk, [honest_sig[..32].to_vec(), add_le(&honest_sig[32..], &hexv(ED_L))].concat()),
        k => panic!("harness: unknown craft kind {}", k),
    }
}
/// crafted secp256k1 signature from the honest one ([v | r | s], big endian)
fn craft_secp(m: &Value, honest: Vec<u8>) -> Vec<u8> {
    let n = hexv(SECP_N);
    let zero = vec![0u8; 32];
    let (r, s) = (honest[1..33].to_vec(), honest[33..65].to_vec());
    let (r, s) = match m["kind"].as_str().unwrap() {
        "secp.r0" => (zero.clone(), s),
        "secp.s0" => (r, zero.clone()),
        "secp.r0s0" => (zero.clone(), zero.clone()),
        "secp.rn" => (n.clone(), s),
        "secp.sn" => (r, n.clone()),
        "secp.twin" => (r, sub_be(&n, &s)),
        k => panic!("harness: unknown craft kind {}", k),
    };
    let v = match m["idx"].as_u64().unwrap() {
        4 => honest[0],
        5 => honest[0] ^ 1,
        x => x as u8,
    };
    [vec![v], r, s].concat()
}

fn b(x: bool) -> String {
    (if x { "true" } else { "false" }).to_string()
}

pub fn outcome(w: &World, s: &Value) -> String {
    let op = s["op"].as_str().unwrap();
    let m = &s["mut"];
    let ix = |k: &str| s[k].as_u64().unwrap() as usize - 1;
    match op {
        "secp.verify" | "secp.recover" => {
            let mut sig = mutate("secp", "sig", w.secp[ix("k")].sign(&Hash(w.msgs[ix("m")])).to_vec(), m);
            if is_craft(m) {
                sig = craft_secp(m, sig);
            }
            let pk = mutate("secp", "pk", w.secp[ix("vk")].public_key().to_vec(), m);
            let msg = mutate("secp", "msg", w.msgs[ix("vm")].to_vec(), m);
            let sig = match Secp256k1Signature::try_from(sig.as_slice()) {
                Ok(x) => x,
                Err(_) => return if op == "secp.verify" { b(false) } else { "none".into() },
            };
            let h = Hash(msg.try_into().unwrap());
            if op == "secp.verify" {
                match Secp256k1PublicKey::try_from(pk.as_slice()) {
                    Ok(pk) => b(verify_secp256k1(&h, &pk, &sig)),
                    Err(_) => b(false),
                }
            } else {
                match verify_and_recover_secp256k1(&h, &sig) {
                    None => "none".into(),
                    Some(pk) => match w.secp.iter().position(|k| k.public_key() == pk) {
                        Some(i) => format!("k{}", i + 1),
                        None => "other".into(),
                    },
                }
            }
        }
        "ed.verify" => {
            let sig = mutate("ed", "sig", w.ed[ix("k")].sign(&w.msgs[ix("m")]).to_vec(), m);
            let pk = mutate("ed", "pk", w.ed[ix("vk")].public_key().to_vec(), m);
            let msg = mutate("ed", "msg", w.msgs[ix("vm")].to_vec(), m);
            let (pk, sig) = if is_craft(m) { craft_ed(m, pk, sig) } else { (pk, sig) };
            match (Ed25519Signature::try_from(sig.as_slice()), Ed25519PublicKey::try_from(pk.as_slice())) {
                (Ok(sig), Ok(pk)) => b(verify_ed25519(&msg, &pk, &sig)),
                _ => b(false),
            }
        }
        "bls.verify" => {
            let mut sig = mutate("bls", "sig", w.bls[ix("k")].sign_v1(&w.msgs[ix("m")]).to_vec(), m);
            let mut pk = mutate("bls", "pk", w.bls[ix("vk")].public_key().to_vec(), m);
            if is_craft(m) {
                let kind = m["kind"].as_str().unwrap();
                if kind == "bls.infPk" || kind == "bls.infBoth" {
                    pk = bls_inf(48);
                }
                if kind == "bls.infSig" || kind == "bls.infBoth" {
                    sig = bls_inf(96);
                }
            }
            let msg = mutate("bls", "msg", w.msgs[ix("vm")].to_vec(), m);
            match (Bls12381G2Signature::try_from(sig.as_slice()), Bls12381G1PublicKey::try_from(pk.as_slice())) {
                (Ok(sig), Ok(pk)) => b(verify_bls12381_v1(&msg, &pk, &sig)),
                _ => b(false),
            }
        }
        "bls.agg" | "bls.fast" | "bls.fast_anemone" => {
            let comps: Vec<Bls12381G2Signature> = s["comps"]
                .as_array()
                .unwrap()
                .iter()
                .map(|c| w.bls[c["k"].as_u64().unwrap() as usize - 1].sign_v1(&w.msgs[c["m"].as_u64().unwrap() as usize - 1]))
                .collect();
            let agg = if op == "bls.fast_anemone" { Bls12381G2Signature::aggregate_anemone(&comps) } else { Bls12381G2Signature::aggregate(&comps, true) };
            let agg = agg.expect("harness: honest signatures must aggregate");
            let craft = if is_craft(m) { m["kind"].as_str().unwrap() } else { "" };
            let mut sig = mutate("bls", "sig", agg.to_vec(), m);
            if craft == "bls.infSig" || craft == "bls.infAll" {
                sig = bls_inf(96);
            }
            let sig = match Bls12381G2Signature::try_from(sig.as_slice()) {
                Ok(x) => x,
                Err(_) => return b(false),
            };
            let mut pks = vec![];
            let mut msgs = vec![];
            for (i, p) in s["pairs"].as_array().unwrap().iter().enumerate() {
                let mut pk = w.bls[p["k"].as_u64().unwrap() as usize - 1].public_key().to_vec();
                if i == 0 {
                    pk = mutate("bls", "pk", pk, m);
                }
                if craft == "bls.infAll" || (craft == "bls.infPkAt" && i + 1 == m["idx"].as_u64().unwrap() as usize) {
                    pk = bls_inf(48);
                }
                match Bls12381G1PublicKey::try_from(pk.as_slice()) {
                    Ok(pk) => pks.push(pk),
                    Err(_) => return b(false),
                }
                if op == "bls.agg" {
                    let mut msg = w.msgs[p["m"].as_u64().unwrap() as usize - 1].to_vec();
                    if i == 0 {
                        msg = mutate("bls", "msg", msg, m);
                    }
                    msgs.push(msg);
                }
            }
            if op == "bls.agg" {
                let pairs: Vec<(Bls12381G1PublicKey, Vec<u8>)> = pks.into_iter().zip(msgs).collect();
                b(aggregate_verify_bls12381_v1(&pairs, &sig))
            } else {
                let msg = mutate("bls", "msg", w.msgs[ix("vm")].to_vec(), m);
                if op == "bls.fast" {
                    b(fast_aggregate_verify_bls12381_v1(&msg, &pks, &sig))
                } else {
                    b(fast_aggregate_verify_bls12381_v1_anemone(&msg, &pks, &sig))
                }
            }
        }
        _ => panic!("harness: unknown op {}", op),
    }
}

pub fn run(mode: &str, args: &Args) {
    match mode {
        "replay" => replay(args),
        _ => panic!("mode"),
    }
}

fn replay(args: &Args) {
    let seed = args.u64("seed", 1);
    let w = World::new(seed);
    let mut out = Out::new();
    let cases = read_lines();
    let mut outcomes = std::collections::BTreeMap::<String, u64>::new();
    let mut craft = std::collections::BTreeMap::<String, u64>::new();
    for (bi, c) in cases.iter().enumerate() {
        let got = match catch(|| outcome(&w, &c["s"])) {
            Ok(g) => g,
            Err(e) if e.starts_with("harness:") => {
                out.mismatch(bi, 0, "harness error", c["s"].clone(), json!(e));
                continue;
            }
            Err(_) => "panic".to_string(),
        };
        *outcomes.entry(format!("{}:{}", c["s"]["op"].as_str().unwrap(), got)).or_default() += 1;
        if is_craft(&c["s"]["mut"]) {
            *craft.entry(format!("{}:{}:{}", c["s"]["op"].as_str().unwrap(), c["s"]["mut"]["kind"].as_str().unwrap(), got)).or_default() += 1;
        }
        if !c["allowed"].as_array().unwrap().iter().any(|a| a.as_str() == Some(got.as_str())) {
            out.mismatch(bi, 0, "outcome", c["allowed"].clone(), json!(got));
        }
    }
    out.emit(&json!({"outcomes": outcomes, "craft_outcomes": craft}));
    out.done(cases.len(), cases.len());
}

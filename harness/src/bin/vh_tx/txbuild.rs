//! Construction of real V1 / V2 notarized transactions from an abstract description (shared by
//! the C34 limits, C33 signatures and C32 hashes bindings).  Two construction paths:
//!  * `direct`: the model structs are assembled field by field and hashes for signing are obtained
//!    from `prepare` with permissive preparation settings - works for over-limit transactions too;
//!  * `builder`: TransactionV1Builder / TransactionV2Builder / PartialTransactionV2Builder and the
//!    ManifestBuilder - possible whenever the transaction can be prepared with the latest settings.
//! When both are possible the raw payloads must be byte-identical (checked by the callers).
use radix_common::prelude::*;
use radix_transactions::manifest::*;
use radix_transactions::model::*;
use radix_transactions::prelude::*;
use radix_transactions::validation::*;
use serde_json::Value;

pub const INF: i64 = 2147483647;

/// order embedding of the model number line into a real unsigned range (see TxLimits.tla)
pub fn embed(v: i64, real_max: u64) -> u64 {
    if v < (1 << 30) {
        v as u64
    } else {
        real_max - ((INF - v) as u64)
    }
}
pub fn unembed(r: u64, real_max: u64) -> i64 {
    if r < (1 << 30) {
        r as i64
    } else {
        INF - ((real_max - r) as i64)
    }
}
pub fn usize_of(v: i64) -> usize {
    if v >= INF {
        usize::MAX
    } else {
        v as usize
    }
}

#[derive(Clone, Copy, Debug, PartialEq, Eq)]
pub enum Curve {
    Secp,
    Ed,
}
pub enum Key {
    Secp(Secp256k1PrivateKey),
    Ed(Ed25519PrivateKey),
    /// an Ed25519 "key" nobody holds: a small-order point as public key, and as its "signature" over anything the
    /// constant (R, s = 0) with R = the same point (kind 0) or the neutral element (kind 1)
    Degenerate { pk: [u8; 32], sig: [u8; 64] },
}
/// key numbers from here on name degenerate keys: DEGENERATE_BASE + 10 * (index of the small-order point) + kind
pub const DEGENERATE_BASE: u64 = 9_000_000;
/// the 8 points of small order of edwards25519 (orders 1, 2, 4, 4, 8, 8, 8, 8), compressed
pub const ED_TORSION: [&str; 8] = [
    "0100000000000000000000000000000000000000000000000000000000000000",
    "ecffffffffffffffffffffffffffffffffffffffffffffffffffffffffffff7f",
    "0000000000000000000000000000000000000000000000000000000000000080",
    "0000000000000000000000000000000000000000000000000000000000000000",
    "c7176a703d4dd84fba3c0b760d10670f2a2053fa2c39ccc64ec7fd7792ac037a",
    "c7176a703d4dd84fba3c0b760d10670f2a2053fa2c39ccc64ec7fd7792ac03fa",
    "26e8958fc2b227b045c3f489f2ef98f0d5dfac05d3c63339b13802886d53fc05",
    "26e8958fc2b227b045c3f489f2ef98f0d5dfac05d3c63339b13802886d53fc85",
];
pub fn ed_torsion(i: usize) -> [u8; 32] {
    hex::decode(ED_TORSION[i]).unwrap().try_into().unwrap()
}
impl Key {
    pub fn new(curve: Curve, n: u64) -> Key {
        if n >= DEGENERATE_BASE {
            let pk = ed_torsion(((n - DEGENERATE_BASE) / 10) as usize);
            let mut sig = [0u8; 64];
            sig[..32].copy_from_slice(&if (n - DEGENERATE_BASE) % 10 == 0 { pk } else { ed_torsion(0) });
            return Key::Degenerate { pk, sig };
        }
        match curve {
            Curve::Secp => Key::Secp(Secp256k1PrivateKey::from_u64(n).unwrap()),
            Curve::Ed => Key::Ed(Ed25519PrivateKey::from_u64(n).unwrap()),
        }
    }
    pub fn public_key(&self) -> PublicKey {
        match self {
            Key::Secp(k) => k.public_key().into(),
            Key::Ed(k) => k.public_key().into(),
            Key::Degenerate { pk, .. } => Ed25519PublicKey(*pk).into(),
        }
    }
    pub fn sign_with_public_key(&self, h: &Hash) -> SignatureWithPublicKeyV1 {
        match self {
            Key::Secp(k) => SignatureWithPublicKeyV1::Secp256k1 { signature: k.sign(h) },
            Key::Ed(k) => SignatureWithPublicKeyV1::Ed25519 { public_key: k.public_key(), signature: k.sign(h) },
            Key::Degenerate { pk, sig } => SignatureWithPublicKeyV1::Ed25519 { public_key: Ed25519PublicKey(*pk), signature: Ed25519Signature(*sig) },
        }
    }
    pub fn sign(&self, h: &Hash) -> SignatureV1 {
        match self {
            Key::Secp(k) => SignatureV1::Secp256k1(k.sign(h)),
            Key::Ed(k) => SignatureV1::Ed25519(k.sign(h)),
            Key::Degenerate { sig, .. } => SignatureV1::Ed25519(Ed25519Signature(*sig)),
        }
    }
}
/// the n-th key of the harness: alternating curves, disjoint from the notary keys
pub fn signer_key(n: usize, seed: u64) -> (Curve, u64) {
    (if n % 2 == 0 { Curve::Secp } else { Curve::Ed }, 1000 + seed % 1000 * 100 + n as u64)
}

#[derive(Clone, Debug, Default)]
pub struct MsgSpec {
    pub kind: String, // none | plain | enc
    pub mime: usize,
    pub len: usize,
    pub dec: Vec<(String, String, usize)>, // map key curve, value curve, number of decryptors
    pub salt: u8,
}
impl MsgSpec {
    pub fn from_json(v: &Value) -> MsgSpec {
        MsgSpec {
            kind: v["kind"].as_str().unwrap().to_string(),
            mime: v["mime"].as_u64().unwrap() as usize,
            len: v["len"].as_u64().unwrap() as usize,
            dec: v["dec"]
                .as_array()
                .unwrap()
                .iter()
                .map(|d| (d["key"].as_str().unwrap().to_string(), d["val"].as_str().unwrap().to_string(), d["n"].as_u64().unwrap() as usize))
                .collect(),
            salt: v.get("salt").and_then(|s| s.as_u64()).unwrap_or(0) as u8,
        }
    }
    fn curve(s: &str) -> CurveType {
        if s == "Ed25519" {
            CurveType::Ed25519
        } else {
            CurveType::Secp256k1
        }
    }
    fn fingerprints(n: usize, salt: u8) -> Vec<PublicKeyFingerprint> {
        (0..n).map(|i| PublicKeyFingerprint([salt, 1, 2, 3, 4, 5, (i >> 8) as u8, i as u8])).collect()
    }
    fn plaintext(&self) -> PlaintextMessageV1 {
        let mut m = "b".repeat(self.len);
        if self.salt != 0 && self.len > 0 {
            m.replace_range(0..1, "c");
        }
        PlaintextMessageV1 { mime_type: "a".repeat(self.mime), message: MessageContentsV1::String(m) }
    }
    pub fn v1(&self) -> MessageV1 {
        match self.kind.as_str() {
            "none" => MessageV1::None,
            "plain" => MessageV1::Plaintext(self.plaintext()),
            _ => {
                let mut map: IndexMap<CurveType, DecryptorsByCurve> = Default::default();
                for (k, v, n) in &self.dec {
                    let decryptors: IndexMap<_, _> = Self::fingerprints(*n, self.salt).into_iter().map(|f| (f, AesWrapped128BitKey([7; 24]))).collect();
                    let val = match Self::curve(v) {
                        CurveType::Ed25519 => DecryptorsByCurve::Ed25519 { dh_ephemeral_public_key: Ed25519PublicKey([3; 32]), decryptors },
                        CurveType::Secp256k1 => DecryptorsByCurve::Secp256k1 { dh_ephemeral_public_key: Secp256k1PublicKey([3; 33]), decryptors },
                    };
                    map.insert(Self::curve(k), val);
                }
                MessageV1::Encrypted(EncryptedMessageV1 { encrypted: AesGcmPayload(vec![self.salt; self.len]), decryptors_by_curve: map })
            }
        }
    }
    pub fn v2(&self) -> MessageV2 {
        match self.kind.as_str() {
            "none" => MessageV2::None,
            "plain" => MessageV2::Plaintext(self.plaintext()),
            _ => {
                let mut map: IndexMap<CurveType, DecryptorsByCurveV2> = Default::default();
                for (k, v, n) in &self.dec {
                    let decryptors: IndexMap<_, _> = Self::fingerprints(*n, self.salt).into_iter().map(|f| (f, AesWrapped256BitKey([7; 40]))).collect();
                    let val = match Self::curve(v) {
                        CurveType::Ed25519 => DecryptorsByCurveV2::Ed25519 { dh_ephemeral_public_key: Ed25519PublicKey([3; 32]), decryptors },
                        CurveType::Secp256k1 => DecryptorsByCurveV2::Secp256k1 { dh_ephemeral_public_key: Secp256k1PublicKey([3; 33]), decryptors },
                    };
                    map.insert(Self::curve(k), val);
                }
                MessageV2::Encrypted(EncryptedMessageV2 { encrypted: AesGcmPayload(vec![self.salt; self.len]), decryptors_by_curve: map })
            }
        }
    }
}

/// which hash a signature is made over
#[derive(Clone, Debug, PartialEq, Eq)]
pub enum Over {
    Own,           // the hash of the intent the signature is attached to (intent signatures)
    Intent(usize), // the hash of intent i (1 = transaction intent)
    Signed,        // the signed-intent hash (what the notary signs)
    Stale,         // the hash the own intent had before its last edit (discriminator / nonce + 1)
    Garbage,       // a hash unrelated to the transaction
}
#[derive(Clone, Debug)]
pub struct SigSpec {
    pub curve: Curve,
    pub key: u64,
    pub over: Over,
}

#[derive(Clone, Debug)]
pub struct IntentSpec {
    pub net: u8,
    pub start: u64,
    pub end: u64,
    pub tmin: Option<i64>,
    pub tmax: Option<i64>,
    pub disc: u64,
    pub msg: MsgSpec,
    pub nrefs: usize,
    pub ninstr: usize,
    pub nblobs: usize,
    pub blob_pad: usize,  // extra bytes in blob 0 (payload length targeting)
    pub instr_salt: u8,   // varies the method name of the reference-carrying instruction
    pub blob_salt: u8,    // varies the content of blob 0
    pub sigs: Vec<SigSpec>,
    pub parent: usize, // 0 for the root, else 1-based index of the parent intent
    pub reverse_children: bool,
    /// number of YIELD_TO_CHILD per declared child (empty = one each) and of YIELD_TO_PARENT (0 = one)
    pub child_yields: Vec<usize>,
    pub parent_yields: usize,
}

#[derive(Clone, Debug)]
pub struct TxSpec {
    pub ver: u8,
    pub intents: Vec<IntentSpec>, // V1: exactly one
    pub nonce: u32,               // V1
    pub tip: u32,                 // V1: percentage (u16), V2: basis points
    pub notary: (Curve, u64),
    pub notary_is_signatory: bool,
    pub notary_sig: SigSpec,
}

pub fn permissive() -> PreparationSettings {
    PreparationSettings {
        v2_transactions_permitted: true,
        max_user_payload_length: usize::MAX / 4,
        max_ledger_payload_length: usize::MAX / 4,
        max_child_subintents_per_intent: 100000,
        max_subintents_per_transaction: 100000,
        max_blobs: 100000,
    }
}

fn ref_address(i: usize, salt: u64) -> ComponentAddress {
    let mut b = [0u8; 30];
    b[0] = EntityType::GlobalGenericComponent as u8;
    b[1] = (salt & 0xff) as u8;
    b[27] = (i >> 16) as u8;
    b[28] = (i >> 8) as u8;
    b[29] = i as u8;
    ComponentAddress::new_or_panic(b)
}
fn blob(i: usize, it: &IntentSpec) -> Vec<u8> {
    let mut v = vec![0xb1, (i >> 8) as u8, i as u8];
    if i == 0 {
        v.push(it.blob_salt);
        v.extend(std::iter::repeat(0x5a).take(it.blob_pad));
    }
    v
}
fn children_of(spec: &TxSpec, i: usize) -> Vec<usize> {
    let mut c: Vec<usize> = (0..spec.intents.len()).filter(|j| spec.intents[*j].parent == i + 1).collect();
    if spec.intents[i].reverse_children {
        c.reverse();
    }
    c
}

fn method_name(it: &IntentSpec) -> String {
    format!("m{}", it.instr_salt)
}

pub fn manifest_v1(it: &IntentSpec, salt: u64) -> TransactionManifestV1 {
    let mut b = ManifestBuilder::new_v1();
    for i in 0..it.nblobs {
        b.add_blob(blob(i, it));
    }
    let mut used = 0;
    if it.nrefs > 0 {
        let rest: Vec<ComponentAddress> = (1..it.nrefs).map(|i| ref_address(i, salt)).collect();
        b = b.call_method(ref_address(0, salt), method_name(it), manifest_args!(rest));
        used += 1;
    }
    assert!(it.ninstr >= used, "harness: ninstr below the mandatory instructions");
    for _ in used..it.ninstr {
        b = b.drop_auth_zone_proofs();
    }
    b.build_no_validate()
}

/// V2 manifests: `children` = (name, hash) in the order they are declared
pub fn manifest_v2_root(it: &IntentSpec, children: &[(String, SubintentHash)], salt: u64) -> TransactionManifestV2 {
    let mut b = ManifestBuilder::new_v2();
    for (name, h) in children {
        b = b.use_child(name, *h);
    }
    for i in 0..it.nblobs {
        b.add_blob(blob(i, it));
    }
    let mut used = 0;
    if it.nrefs > 0 {
        let rest: Vec<ComponentAddress> = (1..it.nrefs).map(|i| ref_address(i, salt)).collect();
        b = b.call_method(ref_address(0, salt), method_name(it), manifest_args!(rest));
        used += 1;
    }
    for (ci, (name, _)) in children.iter().enumerate() {
        for _ in 0..it.child_yields.get(ci).cloned().unwrap_or(1) {
            b = b.yield_to_child(name, ());
            used += 1;
        }
    }
    assert!(it.ninstr >= used, "harness: ninstr below the mandatory instructions");
    for _ in used..it.ninstr {
        b = b.drop_auth_zone_proofs();
    }
    b.build_no_validate()
}
pub fn manifest_v2_sub(it: &IntentSpec, children: &[(String, SubintentHash)], salt: u64) -> SubintentManifestV2 {
    let mut b = ManifestBuilder::new_subintent_v2();
    for (name, h) in children {
        b = b.use_child(name, *h);
    }
    for i in 0..it.nblobs {
        b.add_blob(blob(i, it));
    }
    let mut used = 1; // the final YIELD_TO_PARENT
    if it.nrefs > 0 {
        let rest: Vec<ComponentAddress> = (1..it.nrefs).map(|i| ref_address(i, salt)).collect();
        b = b.call_method(ref_address(0, salt), method_name(it), manifest_args!(rest));
        used += 1;
    }
    for _ in 1..it.parent_yields.max(1) {
        b = b.yield_to_parent(());
        used += 1;
    }
    for (ci, (name, _)) in children.iter().enumerate() {
        for _ in 0..it.child_yields.get(ci).cloned().unwrap_or(1) {
            b = b.yield_to_child(name, ());
            used += 1;
        }
    }
    assert!(it.ninstr >= used, "harness: ninstr below the mandatory instructions");
    for _ in used..it.ninstr {
        b = b.drop_auth_zone_proofs();
    }
    b = b.yield_to_parent(());
    b.build_no_validate()
}

pub fn header_v1(spec: &TxSpec) -> TransactionHeaderV1 {
    let it = &spec.intents[0];
    TransactionHeaderV1 {
        network_id: it.net,
        start_epoch_inclusive: Epoch::of(it.start),
        end_epoch_exclusive: Epoch::of(it.end),
        nonce: spec.nonce,
        notary_public_key: Key::new(spec.notary.0, spec.notary.1).public_key(),
        notary_is_signatory: spec.notary_is_signatory,
        tip_percentage: spec.tip as u16,
    }
}
pub fn header_v2(it: &IntentSpec) -> IntentHeaderV2 {
    IntentHeaderV2 {
        network_id: it.net,
        start_epoch_inclusive: Epoch::of(it.start),
        end_epoch_exclusive: Epoch::of(it.end),
        min_proposer_timestamp_inclusive: it.tmin.map(Instant::new),
        max_proposer_timestamp_exclusive: it.tmax.map(Instant::new),
        intent_discriminator: it.disc,
    }
}
pub fn tx_header_v2(spec: &TxSpec) -> TransactionHeaderV2 {
    TransactionHeaderV2 {
        notary_public_key: Key::new(spec.notary.0, spec.notary.1).public_key(),
        notary_is_signatory: spec.notary_is_signatory,
        tip_basis_points: spec.tip,
    }
}

pub struct Built {
    pub raw: RawNotarizedTransaction,
    pub v1: Option<NotarizedTransactionV1>,
    pub v2: Option<NotarizedTransactionV2>,
    /// intent hashes: [0] = transaction intent, then the non-root subintents in list order
    pub intent_hashes: Vec<Hash>,
    pub signed_hash: Hash,
}

fn garbage_hash() -> Hash {
    hash("vh-unrelated-hash")
}

fn sign_list(sigs: &[SigSpec], own: usize, hashes: &[Hash], stale: &[Hash], signed: Option<Hash>) -> Vec<IntentSignatureV1> {
    sigs.iter()
        .map(|s| {
            let h = match &s.over {
                Over::Own => hashes[own],
                Over::Intent(i) => hashes[*i - 1],
                Over::Signed => signed.expect("harness: intent signature over the signed-intent hash needs two passes"),
                Over::Stale => stale[own],
                Over::Garbage => garbage_hash(),
            };
            IntentSignatureV1(Key::new(s.curve, s.key).sign_with_public_key(&h))
        })
        .collect()
}

/// Direct assembly (always possible).
pub fn direct(spec: &TxSpec, salt: u64) -> Built {
    let settings = permissive();
    if spec.ver == 1 {
        let it = &spec.intents[0];
        let mk_intent = |nonce: u32| {
            let (instructions, blobs) = manifest_v1(it, salt).for_intent();
            let mut header = header_v1(spec);
            header.nonce = nonce;
            IntentV1 { header, instructions, blobs, message: it.msg.v1() }
        };
        let intent = mk_intent(spec.nonce);
        let ih = intent.prepare(&settings).expect("harness: intent not preparable").transaction_intent_hash().0;
        let stale = mk_intent(spec.nonce.wrapping_add(1)).prepare(&settings).unwrap().transaction_intent_hash().0;
        // intent signatures over the signed-intent hash are made over the hash of the signed intent WITHOUT them
        let needs_signed = it.sigs.iter().any(|s| s.over == Over::Signed);
        let pre_signed = if needs_signed {
            let others: Vec<SigSpec> = it.sigs.iter().filter(|s| s.over != Over::Signed).cloned().collect();
            let si = SignedIntentV1 { intent: intent.clone(), intent_signatures: IntentSignaturesV1 { signatures: sign_list(&others, 0, &[ih], &[stale], None) } };
            Some(si.prepare(&settings).unwrap().signed_transaction_intent_hash().0)
        } else {
            None
        };
        let signed_intent = SignedIntentV1 { intent, intent_signatures: IntentSignaturesV1 { signatures: sign_list(&it.sigs, 0, &[ih], &[stale], pre_signed) } };
        let sh = signed_intent.prepare(&settings).expect("harness: signed intent not preparable").signed_transaction_intent_hash().0;
        let nh = match &spec.notary_sig.over {
            Over::Signed | Over::Own => sh,
            Over::Intent(_) => ih,
            Over::Stale => pre_signed.unwrap_or(stale),
            Over::Garbage => garbage_hash(),
        };
        let tx = NotarizedTransactionV1 { signed_intent, notary_signature: NotarySignatureV1(Key::new(spec.notary_sig.curve, spec.notary_sig.key).sign(&nh)) };
        let raw = tx.to_raw().expect("harness: encode");
        Built { raw, v1: Some(tx), v2: None, intent_hashes: vec![ih], signed_hash: sh }
    } else {
        let n = spec.intents.len();
        // subintents bottom-up (children have larger indices than their parents)
        let mut subs: Vec<Option<SubintentV2>> = vec![None; n];
        let mut hashes: Vec<Hash> = vec![Hash([0; 32]); n];
        let mut stale: Vec<Hash> = vec![Hash([0; 32]); n];
        let mut root_core: Option<IntentCoreV2> = None;
        // children before parents (post-order from the root; intents outside the tree first)
        let mut post: Vec<usize> = vec![];
        fn walk(spec: &TxSpec, i: usize, post: &mut Vec<usize>, seen: &mut Vec<bool>) {
            if seen[i] {
                return;
            }
            seen[i] = true;
            for j in children_of(spec, i) {
                walk(spec, j, post, seen);
            }
            post.push(i);
        }
        let mut seen = vec![false; n];
        for i in (1..n).filter(|i| spec.intents[*i].parent == 0 || spec.intents[*i].parent > n) {
            walk(spec, i, &mut post, &mut seen);
        }
        walk(spec, 0, &mut post, &mut seen);
        for i in (0..n).rev() {
            if !seen[i] {
                post.insert(0, i);
            }
        }
        for i in post {
            let it = &spec.intents[i];
            let children: Vec<(String, SubintentHash)> = children_of(spec, i).iter().map(|j| (format!("c{}", j), SubintentHash::from_hash(hashes[*j]))).collect();
            if i == 0 {
                let (instructions, blobs, ch) = manifest_v2_root(it, &children, salt).for_intent();
                root_core = Some(IntentCoreV2 { header: header_v2(it), blobs, message: it.msg.v2(), children: ch, instructions });
            } else {
                let (instructions, blobs, ch) = manifest_v2_sub(it, &children, salt).for_intent();
                let core = IntentCoreV2 { header: header_v2(it), blobs, message: it.msg.v2(), children: ch, instructions };
                let sub = SubintentV2 { intent_core: core };
                hashes[i] = sub.prepare(&settings).expect("harness: subintent not preparable").subintent_hash().0;
                let mut st = sub.clone();
                st.intent_core.header.intent_discriminator = it.disc.wrapping_add(1);
                stale[i] = st.prepare(&settings).unwrap().subintent_hash().0;
                subs[i] = Some(sub);
            }
        }
        let intent = TransactionIntentV2 {
            transaction_header: tx_header_v2(spec),
            root_intent_core: root_core.unwrap(),
            non_root_subintents: NonRootSubintentsV2(subs.into_iter().skip(1).map(|s| s.unwrap()).collect()),
        };
        hashes[0] = intent.prepare(&settings).expect("harness: transaction intent not preparable").transaction_intent_hash().0;
        let mut st = intent.clone();
        st.root_intent_core.header.intent_discriminator = spec.intents[0].disc.wrapping_add(1);
        stale[0] = st.prepare(&settings).unwrap().transaction_intent_hash().0;
        let mk_signed = |signed: Option<Hash>, skip_signed: bool| {
            let pick = |i: usize| -> Vec<SigSpec> { spec.intents[i].sigs.iter().filter(|s| !(skip_signed && s.over == Over::Signed)).cloned().collect() };
            SignedTransactionIntentV2 {
                transaction_intent: intent.clone(),
                transaction_intent_signatures: IntentSignaturesV2 { signatures: sign_list(&pick(0), 0, &hashes, &stale, signed) },
                non_root_subintent_signatures: NonRootSubintentSignaturesV2 {
                    by_subintent: (1..n).map(|i| IntentSignaturesV2 { signatures: sign_list(&pick(i), i, &hashes, &stale, signed) }).collect(),
                },
            }
        };
        let needs_signed = spec.intents.iter().any(|it| it.sigs.iter().any(|s| s.over == Over::Signed));
        let pre_signed = if needs_signed { Some(mk_signed(None, true).prepare(&settings).unwrap().signed_transaction_intent_hash().0) } else { None };
        let signed_intent = mk_signed(pre_signed, false);
        let sh = signed_intent.prepare(&settings).expect("harness: signed intent not preparable").signed_transaction_intent_hash().0;
        let nh = match &spec.notary_sig.over {
            Over::Signed | Over::Own => sh,
            Over::Intent(i) => hashes[*i - 1],
            Over::Stale => pre_signed.unwrap_or(stale[0]),
            Over::Garbage => garbage_hash(),
        };
        let tx = NotarizedTransactionV2 {
            signed_transaction_intent: signed_intent,
            notary_signature: NotarySignatureV2(Key::new(spec.notary_sig.curve, spec.notary_sig.key).sign(&nh)),
        };
        let raw = tx.to_raw().expect("harness: encode");
        Built { raw, v1: None, v2: Some(tx), intent_hashes: hashes, signed_hash: sh }
    }
}

/// Construction with the real transaction builders.  Only signatures "over the own hash" and a
/// notary signature over the signed-intent hash can be expressed (that is what the builders do);
/// returns None otherwise.  Panics of the builders (un-preparable content) are left to the caller.
pub fn with_builders(spec: &TxSpec, salt: u64) -> Option<RawNotarizedTransaction> {
    if spec.intents.iter().any(|it| it.sigs.iter().any(|s| s.over != Over::Own)) || spec.notary_sig.over != Over::Signed {
        return None;
    }
    // degenerate keys have no private key: the builders cannot sign with them
    if spec.intents.iter().any(|it| it.sigs.iter().any(|s| s.key >= DEGENERATE_BASE)) || spec.notary_sig.key >= DEGENERATE_BASE || spec.notary.1 >= DEGENERATE_BASE {
        return None;
    }
    let notary = Key::new(spec.notary_sig.curve, spec.notary_sig.key);
    if spec.ver == 1 {
        let it = &spec.intents[0];
        let mut b = TransactionBuilder::new().header(header_v1(spec)).manifest(manifest_v1(it, salt)).message(it.msg.v1());
        for s in &it.sigs {
            b = match Key::new(s.curve, s.key) {
                Key::Secp(k) => b.sign(&k),
                Key::Ed(k) => b.sign(&k),
                Key::Degenerate { .. } => unreachable!(),
            };
        }
        b = match &notary {
            Key::Secp(k) => b.notarize(k),
            Key::Ed(k) => b.notarize(k),
            Key::Degenerate { .. } => unreachable!(),
        };
        Some(b.build().to_raw().unwrap())
    } else {
        fn partial(spec: &TxSpec, i: usize, salt: u64) -> SignedPartialTransactionV2 {
            let it = &spec.intents[i];
            let mut b = PartialTransactionV2Builder::new().intent_header(header_v2(it)).message(it.msg.v2());
            let mut children = vec![];
            for j in children_of(spec, i) {
                let p = partial(spec, j, salt);
                let h = p.prepare(&permissive()).unwrap().subintent_hash();
                children.push((format!("c{}", j), h));
                b = b.add_signed_child(format!("c{}", j), p);
            }
            b = b.manifest(manifest_v2_sub(it, &children, salt));
            for s in &it.sigs {
                b = match Key::new(s.curve, s.key) {
                    Key::Secp(k) => b.sign(&k),
                    Key::Ed(k) => b.sign(&k),
                Key::Degenerate { .. } => unreachable!(),
                };
            }
            b.build_minimal()
        }
        let it = &spec.intents[0];
        let mut b = TransactionV2Builder::new().transaction_header(tx_header_v2(spec)).intent_header(header_v2(it)).message(it.msg.v2());
        let mut children = vec![];
        for j in children_of(spec, 0) {
            let p = partial(spec, j, salt);
            let h = p.prepare(&permissive()).unwrap().subintent_hash();
            children.push((format!("c{}", j), h));
            b = b.add_signed_child(format!("c{}", j), p);
        }
        b = b.manifest(manifest_v2_root(it, &children, salt));
        for s in &it.sigs {
            b = match Key::new(s.curve, s.key) {
                Key::Secp(k) => b.sign(&k),
                Key::Ed(k) => b.sign(&k),
                Key::Degenerate { .. } => unreachable!(),
            };
        }
        b = match &notary {
            Key::Secp(k) => b.notarize(k),
            Key::Ed(k) => b.notarize(k),
            Key::Degenerate { .. } => unreachable!(),
        };
        Some(b.build_minimal_no_validate().to_raw().unwrap())
    }
}

/// the subintent list order produced by the builders is depth first; `direct` uses list order
pub fn is_dfs_order(spec: &TxSpec) -> bool {
    fn walk(spec: &TxSpec, i: usize, out: &mut Vec<usize>) {
        for j in children_of(spec, i) {
            out.push(j);
            walk(spec, j, out);
        }
    }
    let mut order = vec![];
    walk(spec, 0, &mut order);
    order == (1..spec.intents.len()).collect::<Vec<_>>()
}

// ---------------------------------------------------------------------------------------------
// configuration from the model's record

pub fn config_from_json(c: &Value) -> (TransactionValidationConfig, Option<u8>) {
    let base = TransactionValidationConfig::latest();
    let p = &c["prep"];
    let m = &c["msg"];
    let i = |v: &Value| v.as_i64().unwrap();
    let cfg = TransactionValidationConfig {
        max_signer_signatures_per_intent: usize_of(i(&c["maxSigs"])),
        max_references_per_intent: usize_of(i(&c["maxRefs"])),
        min_tip_percentage: i(&c["minTipPct"]) as u16,
        max_tip_percentage: i(&c["maxTipPct"]) as u16,
        max_epoch_range: i(&c["maxEpochRange"]) as u64,
        max_instructions: usize_of(i(&c["maxInstr"])),
        message_validation: MessageValidationConfig {
            max_plaintext_message_length: usize_of(i(&m["maxPlain"])),
            max_encrypted_message_length: usize_of(i(&m["maxEnc"])),
            max_mime_type_length: usize_of(i(&m["maxMime"])),
            max_decryptors: usize_of(i(&m["maxDecr"])),
        },
        v1_transactions_allow_notary_to_duplicate_signer: c["notaryDup"].as_bool().unwrap(),
        preparation_settings: PreparationSettings {
            v2_transactions_permitted: p["v2Permitted"].as_bool().unwrap(),
            max_user_payload_length: usize_of(i(&p["maxPayload"])),
            max_ledger_payload_length: usize_of(i(&p["maxPayload"])).saturating_add(10),
            max_child_subintents_per_intent: usize_of(i(&p["maxChildren"])),
            max_subintents_per_transaction: usize_of(i(&p["maxSubintents"])),
            max_blobs: usize_of(i(&p["maxBlobs"])),
        },
        manifest_validation: if c["rules"].as_str() == Some("basic") {
            ManifestValidationRuleset::BabylonBasicValidator
        } else {
            base.manifest_validation
        },
        v2_transactions_allowed: c["v2Allowed"].as_bool().unwrap(),
        min_tip_basis_points: embed(i(&c["minTipBp"]), u32::MAX as u64) as u32,
        max_tip_basis_points: embed(i(&c["maxTipBp"]), u32::MAX as u64) as u32,
        max_subintent_depth: usize_of(i(&c["maxDepth"])),
        max_total_signature_validations: usize_of(i(&c["maxTotalSigs"])),
        max_total_references: usize_of(i(&c["maxTotalRefs"])),
    };
    let net = i(&c["net"]);
    (cfg, if net < 0 { None } else { Some(net as u8) })
}
pub fn validator_from_json(c: &Value) -> TransactionValidator {
    let (cfg, net) = config_from_json(c);
    match net {
        Some(n) => TransactionValidator::new_with_static_config(cfg, n),
        None => TransactionValidator::new_with_static_config_network_agnostic(cfg),
    }
}

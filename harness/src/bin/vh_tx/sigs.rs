//! C33 — binding of spec/TxSigs to signature validation of notarized V1 / V2 transactions.
//!  replay: TLC (GenTxSigs) gives signer configurations with the set of allowed outcomes; the harness
//!          builds the real transaction with real keys, runs prepare + validate and projects the
//!          outcome (verdict, error class, signer keys as model key names).
//!  mutate: for valid configurations every selected byte of the raw payload is changed; the harness
//!          records verdict / content / signer keys before and after; TraceTxSigs decides the law.
use crate::limits::classify_error;
use crate::txbuild::*;
use radix_common::prelude::*;
use radix_transactions::model::*;
use radix_transactions::prelude::*;
use radix_transactions::validation::*;
use serde_json::{json, Value};
use vh::util::*;
use vh::Args;

fn curve_of(k: u64) -> Curve {
    if k % 2 == 1 {
        Curve::Secp
    } else {
        Curve::Ed
    }
}
/// model keys 1..4 are real keys; 10 + 2 t (t = 0..7) is the degenerate Ed25519 key whose public key is the t-th
/// small-order point
fn key_no(k: u64, seed: u64) -> u64 {
    if k >= 10 {
        return DEGENERATE_BASE + (k - 10) / 2 * 10;
    }
    5000 + (seed % 1000) * 10 + k
}
/// a degenerate key "signs" with a constant: R = its own point ("forgedSame") or the neutral element ("forgedId"), s = 0
fn sig_key_no(s: &Value, seed: u64) -> u64 {
    let k = s["k"].as_u64().unwrap();
    key_no(k, seed) + if k >= 10 && s["over"].as_str() == Some("forgedId") { 1 } else { 0 }
}
fn model_key(k: u64, seed: u64) -> Key {
    Key::new(curve_of(k), key_no(k, seed))
}
fn over_of(s: &Value) -> Over {
    match s["over"].as_str().unwrap() {
        "own" => Over::Own,
        "intent" => Over::Intent(s["j"].as_u64().unwrap_or(1).max(1) as usize),
        "signed" => Over::Signed,
        "stale" => Over::Stale,
        _ => Over::Garbage,
    }
}

pub fn spec_of(c: &Value, seed: u64) -> TxSpec {
    let ver = c["ver"].as_u64().unwrap() as u8;
    let n = c["sigs"].as_array().unwrap().len();
    let intents = (0..n)
        .map(|i| IntentSpec {
            net: NetworkDefinition::simulator().id,
            start: 10,
            end: 20,
            tmin: None,
            tmax: None,
            disc: i as u64 + seed * 100,
            msg: MsgSpec { kind: if i == 0 { "plain".into() } else { "none".into() }, mime: 4, len: 6, dec: vec![], salt: 0 },
            nrefs: 1,
            ninstr: 3,
            nblobs: 1,
            blob_pad: 0,
            instr_salt: 0,
            blob_salt: 0,
            sigs: c["sigs"][i].as_array().unwrap().iter().map(|s| { let k = s["k"].as_u64().unwrap(); SigSpec { curve: curve_of(k), key: sig_key_no(s, seed), over: over_of(s) } }).collect(),
            parent: if i == 0 { 0 } else { 1 },
            reverse_children: false,
            child_yields: vec![],
            parent_yields: 0,
        })
        .collect();
    let notary = c["notary"].as_u64().unwrap();
    let nk = c["nsig"]["k"].as_u64().unwrap();
    let nover = match c["nsig"]["over"].as_str().unwrap() {
        "signed" => Over::Signed,
        "intent" => Over::Intent(1),
        "stale" => Over::Stale,
        _ => Over::Garbage,
    };
    TxSpec {
        ver,
        intents,
        nonce: seed as u32,
        tip: 0,
        notary: (curve_of(notary), key_no(notary, seed)),
        notary_is_signatory: c["signatory"].as_bool().unwrap(),
        notary_sig: SigSpec { curve: curve_of(nk), key: sig_key_no(&c["nsig"], seed), over: nover },
    }
}

fn validator_of(cfg: &Value) -> TransactionValidator {
    let mut config = TransactionValidationConfig::latest();
    config.v1_transactions_allow_notary_to_duplicate_signer = cfg["notaryDup"].as_bool().unwrap();
    config.max_signer_signatures_per_intent = cfg["maxSigs"].as_u64().unwrap() as usize;
    config.max_total_signature_validations = cfg["maxTotalSigs"].as_u64().unwrap() as usize;
    TransactionValidator::new_with_static_config(config, NetworkDefinition::simulator().id)
}

fn signer_sets(v: &ValidatedUserTransaction) -> Vec<Vec<PublicKey>> {
    match v {
        ValidatedUserTransaction::V1(t) => vec![t.signer_keys.iter().cloned().collect()],
        ValidatedUserTransaction::V2(t) => {
            let mut r = vec![t.transaction_intent_info.signer_keys.iter().cloned().collect::<Vec<_>>()];
            for s in &t.non_root_subintents_info {
                r.push(s.signer_keys.iter().cloned().collect());
            }
            r
        }
    }
}

pub fn run(mode: &str, args: &Args) {
    match mode {
        "replay" => replay(args),
        "mutate" => mutate(args),
        _ => panic!("mode"),
    }
}

fn replay(args: &Args) {
    let seed = args.u64("seed", 1);
    let mut out = Out::new();
    let cases = read_lines();
    let known: Vec<PublicKey> = (1..=4).map(|k| model_key(k, seed).public_key()).collect();
    let mut outcomes = std::collections::BTreeMap::<String, u64>::new();
    for (bi, c) in cases.iter().enumerate() {
        let spec = spec_of(c, seed);
        let built = match catch(|| direct(&spec, seed)) {
            Ok(b) => b,
            Err(e) => {
                out.mismatch(bi, 0, "harness could not build the case", c.clone(), json!(e));
                continue;
            }
        };
        let validator = validator_of(&c["cfg"]);
        let res = catch(|| built.raw.validate(&validator));
        let (ok, err, signers): (bool, String, Vec<Vec<u64>>) = match &res {
            Err(_) => (false, "panic".into(), vec![]),
            Ok(Err(e)) => (false, classify_error(e), vec![]),
            Ok(Ok(v)) => {
                // duplicates inside a signer set are impossible in an IndexSet; the list is projected to sorted model names
                let sets = signer_sets(v)
                    .iter()
                    .map(|ks| {
                        let mut names: Vec<u64> = ks.iter().map(|k| known.iter().position(|x| x == k).map(|p| p as u64 + 1).unwrap_or(99)).collect();
                        names.sort();
                        names
                    })
                    .collect();
                (true, String::new(), sets)
            }
        };
        *outcomes.entry(if ok { "ok".to_string() } else { err.clone() }).or_default() += 1;
        let matches = c["allowed"].as_array().unwrap().iter().any(|a| {
            if a["ok"].as_bool().unwrap() != ok {
                return false;
            }
            if ok {
                let exp: Vec<Vec<u64>> = a["signers"].as_array().unwrap().iter().map(|s| { let mut v: Vec<u64> = s.as_array().unwrap().iter().map(|x| x.as_u64().unwrap()).collect(); v.sort(); v.dedup(); v }).collect();
                exp == signers
            } else {
                a["errs"].as_array().unwrap().iter().any(|e| e.as_str() == Some(err.as_str()))
            }
        });
        if !matches {
            out.mismatch(bi, 0, "outcome", c["allowed"].clone(), json!({"ok": ok, "err": err, "signers": signers}));
        }
    }
    out.emit(&json!({"outcomes": outcomes}));
    out.done(cases.len(), cases.len());
}

// ---------------------------------------------------------------------------------------------
// byte mutations

fn find(hay: &[u8], needle: &[u8], from: usize) -> Option<usize> {
    if needle.is_empty() || hay.len() < needle.len() {
        return None;
    }
    (from..=hay.len() - needle.len()).find(|i| &hay[*i..*i + needle.len()] == needle)
}

/// labels every byte of the raw payload with the part it belongs to (found by searching the
/// encodings of the parts); everything else is "structure" (prefix, discriminators, kinds, lengths)
pub fn regions(raw: &[u8], built: &Built) -> Vec<String> {
    let mut label = vec!["structure".to_string(); raw.len()];
    let mut mark = |bytes: Vec<u8>, name: &str, strip: usize| {
        let b = &bytes[strip.min(bytes.len())..];
        if let Some(p) = find(raw, b, 0) {
            for i in p..p + b.len() {
                if label[i] == "structure" {
                    label[i] = name.to_string();
                }
            }
        }
    };
    let sig_parts = |s: &SignatureWithPublicKeyV1, prefix: &str, mark: &mut dyn FnMut(Vec<u8>, &str, usize)| match s {
        SignatureWithPublicKeyV1::Secp256k1 { signature } => {
            mark(signature.0.to_vec(), &format!("{}.secp", prefix), 0);
        }
        SignatureWithPublicKeyV1::Ed25519 { public_key, signature } => {
            mark(public_key.0.to_vec(), &format!("{}.ed.pk", prefix), 0);
            mark(signature.0.to_vec(), &format!("{}.ed.sig", prefix), 0);
        }
    };
    let nsig_parts = |s: &SignatureV1, mark: &mut dyn FnMut(Vec<u8>, &str, usize)| match s {
        SignatureV1::Secp256k1(signature) => mark(signature.0.to_vec(), "nsig.secp", 0),
        SignatureV1::Ed25519(signature) => mark(signature.0.to_vec(), "nsig.ed.sig", 0),
    };
    if let Some(tx) = &built.v1 {
        let it = &tx.signed_intent.intent;
        mark(manifest_encode(&it.header).unwrap(), "header", 1);
        mark(manifest_encode(&it.instructions).unwrap(), "instructions", 1);
        mark(manifest_encode(&it.blobs).unwrap(), "blobs", 1);
        mark(manifest_encode(&it.message).unwrap(), "message", 1);
        for s in &tx.signed_intent.intent_signatures.signatures {
            sig_parts(&s.0, "isig", &mut mark);
        }
        nsig_parts(&tx.notary_signature.0, &mut mark);
    }
    if let Some(tx) = &built.v2 {
        let ti = &tx.signed_transaction_intent.transaction_intent;
        mark(manifest_encode(&ti.transaction_header).unwrap(), "txheader", 1);
        let mut cores = vec![&ti.root_intent_core];
        for s in &ti.non_root_subintents.0 {
            cores.push(&s.intent_core);
        }
        for (i, core) in cores.iter().enumerate() {
            mark(manifest_encode(&core.header).unwrap(), &format!("header{}", i + 1), 1);
            mark(manifest_encode(&core.instructions).unwrap(), &format!("instructions{}", i + 1), 1);
            mark(manifest_encode(&core.blobs).unwrap(), &format!("blobs{}", i + 1), 1);
            mark(manifest_encode(&core.message).unwrap(), &format!("message{}", i + 1), 1);
            mark(manifest_encode(&core.children).unwrap(), &format!("children{}", i + 1), 1);
        }
        for s in &tx.signed_transaction_intent.transaction_intent_signatures.signatures {
            sig_parts(&s.0, "isig1", &mut mark);
        }
        for (i, b) in tx.signed_transaction_intent.non_root_subintent_signatures.by_subintent.iter().enumerate() {
            for s in &b.signatures {
                sig_parts(&s.0, &format!("isig{}", i + 2), &mut mark);
            }
        }
        nsig_parts(&tx.notary_signature.0, &mut mark);
    }
    label
}

/// observation of one raw payload: verdict, content identity (hash of the re-encoded decoded
/// intents, independent of the transaction hashes), signer keys
fn observe(raw: &RawNotarizedTransaction, validator: &TransactionValidator) -> Value {
    let res = catch(|| raw.validate(validator));
    match res {
        Err(_) => json!({"ok": false, "err": "panic", "content": [], "signers": []}),
        Ok(Err(e)) => json!({"ok": false, "err": classify_error(&e), "content": [], "signers": []}),
        Ok(Ok(v)) => {
            let content: Vec<String> = match raw.into_typed() {
                Ok(UserTransaction::V1(t)) => vec![hex::encode(&hash(manifest_encode(&t.signed_intent.intent).unwrap()).0[..12])],
                Ok(UserTransaction::V2(t)) => vec![hex::encode(&hash(manifest_encode(&t.signed_transaction_intent.transaction_intent).unwrap()).0[..12])],
                Err(_) => vec!["undecodable".into()],
            };
            let signers: Vec<Vec<String>> = signer_sets(&v)
                .iter()
                .map(|ks| {
                    let mut s: Vec<String> = ks.iter().map(|k| match k { PublicKey::Secp256k1(p) => format!("s{}", hex::encode(&p.0[..10])), PublicKey::Ed25519(p) => format!("e{}", hex::encode(&p.0[..10])) }).collect();
                    s.sort();
                    s
                })
                .collect();
            json!({"ok": true, "err": "", "content": content, "signers": signers})
        }
    }
}

fn mutate(args: &Args) {
    let seed = args.u64("seed", 1);
    let per_region = args.u64("per_region", 3) as usize; // 0 = every byte
    let masks: Vec<u8> = args.str("masks", "1,128").split(',').map(|m| m.parse().unwrap()).collect();
    let mut out = Out::new();
    let cases = read_lines();
    for (bi, c) in cases.iter().enumerate() {
        let spec = spec_of(c, seed);
        let built = direct(&spec, seed);
        let validator = validator_of(&c["cfg"]);
        let before = observe(&built.raw, &validator);
        let raw = built.raw.as_slice().to_vec();
        let labels = regions(&raw, &built);
        // positions: per region the first / middle / last byte (or all); all structure bytes
        let mut by_region: std::collections::BTreeMap<String, Vec<usize>> = Default::default();
        for (i, l) in labels.iter().enumerate() {
            by_region.entry(l.clone()).or_default().push(i);
        }
        for (region, idxs) in &by_region {
            let chosen: Vec<usize> = if per_region == 0 || region == "structure" || idxs.len() <= per_region {
                idxs.clone()
            } else {
                (0..per_region).map(|k| idxs[k * (idxs.len() - 1) / (per_region - 1).max(1)]).collect()
            };
            for pos in chosen {
                for mask in &masks {
                    let mut m = raw.clone();
                    m[pos] ^= *mask;
                    let after = observe(&RawNotarizedTransaction::from_vec(m), &validator);
                    out.emit(&json!({"a": "mut", "base": bi, "ver": spec.ver, "region": region, "pos": pos, "off": pos - idxs[0], "mask": mask, "before": before, "after": after}));
                }
            }
        }
    }
    out.flush();
}

//! vh_tx — transaction layer: TxStructure (C35), TxLimits (C34), CryptoIdeal (C48), TxSigs (C33),
//! TxHashes (C32).  Binds the TLA+ specifications under /verif/spec to radix-transactions
//! (model, validation, builder) and radix-common::crypto.
#![allow(clippy::all)]
mod crypto;
mod hashes;
mod limits;
mod sigs;
mod structure;
mod txbuild;

fn main() {
    let (module, mode, args) = vh::start();
    match module.as_str() {
        "structure" => structure::run(&mode, &args),
        "limits" => limits::run(&mode, &args),
        "crypto" => crypto::run(&mode, &args),
        "sigs" => sigs::run(&mode, &args),
        "hashes" => hashes::run(&mode, &args),
        m => vh::unknown(m),
    }
}

//! C40 — binding of spec/AccessController to the access controller blueprint on a real ledger.
//! Input: behaviours from TLC (GenAccessController): `init` state, `path` (calls with the result and
//! the state the model demands after each) and `fan` (single calls from the state reached by the
//! path).  A model caller {b..} is a transaction that creates proofs of exactly these badges; time is
//! advanced with next-round system transactions.  After every call the harness projects: commit /
//! error class, the decoded controller substate, the rules of the three roles read from the
//! role-assignment module, the balance of the controlled vault - and compares with the model.
use radix_common::prelude::*;
use radix_engine::blueprints::access_controller::v2::*;
use radix_engine::blueprints::access_controller::*;
use radix_engine::errors::*;
use radix_engine::object_modules::role_assignment::*;
use radix_engine::system::system_db_reader::*;
use radix_engine::system::system_modules::auth::AuthError;
use radix_engine_interface::blueprints::access_controller::*;
use radix_engine_interface::prelude::*;
use radix_transactions::prelude::*;
use scrypto_test::prelude::{DefaultLedgerSimulator, LedgerSimulatorBuilder, LedgerSimulatorSnapshot};
use serde_json::{json, Value};
use vh::util::*;
use vh::Args;

pub struct World {
    pub ledger: DefaultLedgerSimulator,
    pub pk: Secp256k1PublicKey,
    pub account: ComponentAddress,
    pub badges: Vec<ResourceAddress>, // badge b = badges[b - 1]
    pub asset: ResourceAddress,
    pub base: LedgerSimulatorSnapshot,
    // per behaviour
    pub ac: ComponentAddress,
    pub base_ms: i64,
    pub mint_counter: u64,
}

impl World {
    pub fn new() -> World {
        let mut ledger = LedgerSimulatorBuilder::new().build();
        let (pk, _, account) = ledger.new_account(false);
        let badges = (0..4).map(|_| ledger.create_fungible_resource(1.into(), 0, account)).collect();
        let asset = ledger.create_fungible_resource(1000000.into(), 0, account);
        let base = ledger.create_snapshot();
        World { ledger, pk, account, badges, asset, base, ac: account, base_ms: 0, mint_counter: 0 }
    }

    fn rule(&self, b: i64) -> AccessRule {
        if b == 0 {
            AccessRule::DenyAll
        } else {
            rule!(require(self.badges[b as usize - 1]))
        }
    }
    fn rule_set(&self, rules: &Value) -> RuleSet {
        let r = i64s(rules);
        RuleSet { primary_role: self.rule(r[0]), recovery_role: self.rule(r[1]), confirmation_role: self.rule(r[2]) }
    }
    fn delay(v: &Value) -> Option<u32> {
        let d = v.as_i64().unwrap();
        if d < 0 {
            None
        } else {
            Some(d as u32)
        }
    }
    fn rule_name(&self, r: &AccessRule) -> i64 {
        if *r == AccessRule::DenyAll {
            return 0;
        }
        for b in 1..=4 {
            if *r == self.rule(b) {
                return b;
            }
        }
        -1
    }
    fn proposal_json(&self, p: &RecoveryProposal) -> Value {
        json!({"rules": [self.rule_name(&p.rule_set.primary_role), self.rule_name(&p.rule_set.recovery_role), self.rule_name(&p.rule_set.confirmation_role)],
               "delay": p.timed_recovery_delay_in_minutes.map(|d| d as i64).unwrap_or(-1)})
    }

    fn sign(&self) -> Vec<NonFungibleGlobalId> {
        vec![NonFungibleGlobalId::from_public_key(&self.pk)]
    }

    /// starts a behaviour: fresh ledger state from the snapshot, clock on a minute boundary, new controller
    pub fn start(&mut self, init: &Value) {
        self.ledger.restore_snapshot(self.base.clone());
        self.mint_counter = 0;
        let t = self.ledger.get_current_proposer_timestamp_ms();
        self.base_ms = (t / 60000 + 2) * 60000;
        self.tick_to(0);
        let st = &init["st"];
        let rs = self.rule_set(&st["rules"]);
        let manifest = ManifestBuilder::new()
            .lock_standard_test_fee(self.account)
            .withdraw_from_account(self.account, self.asset, 1)
            .take_all_from_worktop(self.asset, "controlled_asset")
            .create_access_controller("controlled_asset", rs.primary_role, rs.recovery_role, rs.confirmation_role, Self::delay(&st["delay"]))
            .build();
        let receipt = self.ledger.execute_manifest(manifest, self.sign());
        self.ac = receipt.expect_commit(true).new_component_addresses()[0];
    }

    /// model time `now` is in half minutes from the base
    pub fn tick_to(&mut self, now: i64) {
        let round = self.ledger.get_consensus_manager_state().round.number();
        self.ledger.advance_to_round_at_timestamp(Round::of(round + 1), self.base_ms + now * 30000).expect_commit_success();
    }

    /// one call by a caller holding proofs of exactly the badges in `c`
    pub fn call(&mut self, m: &str, c: &[i64], prop: &Value) -> String {
        let mut b = ManifestBuilder::new().lock_standard_test_fee(self.account);
        for badge in c {
            b = b.create_proof_from_account_of_amount(self.account, self.badges[*badge as usize - 1], dec!(1));
        }
        let ac = self.ac;
        let (rule_set, delay) = if prop["delay"].as_i64() == Some(-2) { (self.rule_set(&json!([0, 0, 0])), None) } else { (self.rule_set(&prop["rules"]), Self::delay(&prop["delay"])) };
        b = match m {
            "createProof" => b.call_method(ac, ACCESS_CONTROLLER_CREATE_PROOF_IDENT, AccessControllerCreateProofInput {}),
            "initRecP" => b.call_method(ac, ACCESS_CONTROLLER_INITIATE_RECOVERY_AS_PRIMARY_IDENT, AccessControllerInitiateRecoveryAsPrimaryInput { rule_set, timed_recovery_delay_in_minutes: delay }),
            "initRecR" => b.call_method(ac, ACCESS_CONTROLLER_INITIATE_RECOVERY_AS_RECOVERY_IDENT, AccessControllerInitiateRecoveryAsRecoveryInput { rule_set, timed_recovery_delay_in_minutes: delay }),
            "initWdP" => b.call_method(ac, ACCESS_CONTROLLER_INITIATE_BADGE_WITHDRAW_ATTEMPT_AS_PRIMARY_IDENT, AccessControllerInitiateBadgeWithdrawAttemptAsPrimaryInput {}),
            "initWdR" => b.call_method(ac, ACCESS_CONTROLLER_INITIATE_BADGE_WITHDRAW_ATTEMPT_AS_RECOVERY_IDENT, AccessControllerInitiateBadgeWithdrawAttemptAsRecoveryInput {}),
            "qcPRec" => b.call_method(ac, ACCESS_CONTROLLER_QUICK_CONFIRM_PRIMARY_ROLE_RECOVERY_PROPOSAL_IDENT, AccessControllerQuickConfirmPrimaryRoleRecoveryProposalInput { rule_set, timed_recovery_delay_in_minutes: delay }),
            "qcRRec" => b.call_method(ac, ACCESS_CONTROLLER_QUICK_CONFIRM_RECOVERY_ROLE_RECOVERY_PROPOSAL_IDENT, AccessControllerQuickConfirmRecoveryRoleRecoveryProposalInput { rule_set, timed_recovery_delay_in_minutes: delay }),
            "qcPWd" => b.call_method(ac, ACCESS_CONTROLLER_QUICK_CONFIRM_PRIMARY_ROLE_BADGE_WITHDRAW_ATTEMPT_IDENT, AccessControllerQuickConfirmPrimaryRoleBadgeWithdrawAttemptInput {}),
            "qcRWd" => b.call_method(ac, ACCESS_CONTROLLER_QUICK_CONFIRM_RECOVERY_ROLE_BADGE_WITHDRAW_ATTEMPT_IDENT, AccessControllerQuickConfirmRecoveryRoleBadgeWithdrawAttemptInput {}),
            "timedConfirm" => b.call_method(ac, ACCESS_CONTROLLER_TIMED_CONFIRM_RECOVERY_IDENT, AccessControllerTimedConfirmRecoveryInput { rule_set, timed_recovery_delay_in_minutes: delay }),
            "cancelPRec" => b.call_method(ac, ACCESS_CONTROLLER_CANCEL_PRIMARY_ROLE_RECOVERY_PROPOSAL_IDENT, AccessControllerCancelPrimaryRoleRecoveryProposalInput {}),
            "cancelRRec" => b.call_method(ac, ACCESS_CONTROLLER_CANCEL_RECOVERY_ROLE_RECOVERY_PROPOSAL_IDENT, AccessControllerCancelRecoveryRoleRecoveryProposalInput {}),
            "cancelPWd" => b.call_method(ac, ACCESS_CONTROLLER_CANCEL_PRIMARY_ROLE_BADGE_WITHDRAW_ATTEMPT_IDENT, AccessControllerCancelPrimaryRoleBadgeWithdrawAttemptInput {}),
            "cancelRWd" => b.call_method(ac, ACCESS_CONTROLLER_CANCEL_RECOVERY_ROLE_BADGE_WITHDRAW_ATTEMPT_IDENT, AccessControllerCancelRecoveryRoleBadgeWithdrawAttemptInput {}),
            "lock" => b.call_method(ac, ACCESS_CONTROLLER_LOCK_PRIMARY_ROLE_IDENT, AccessControllerLockPrimaryRoleInput {}),
            "unlock" => b.call_method(ac, ACCESS_CONTROLLER_UNLOCK_PRIMARY_ROLE_IDENT, AccessControllerUnlockPrimaryRoleInput {}),
            "stopTimed" => b.call_method(ac, ACCESS_CONTROLLER_STOP_TIMED_RECOVERY_IDENT, AccessControllerStopTimedRecoveryInput { rule_set, timed_recovery_delay_in_minutes: delay }),
            "mintRecoveryBadges" => {
                self.mint_counter += 1;
                b.call_method(ac, ACCESS_CONTROLLER_MINT_RECOVERY_BADGES_IDENT, AccessControllerMintRecoveryBadgesInput { non_fungible_local_ids: indexset!(NonFungibleLocalId::integer(self.mint_counter)) })
            }
            other => panic!("harness: unknown method {}", other),
        };
        let manifest = b.try_deposit_entire_worktop_or_abort(self.account, None).build();
        let receipt = self.ledger.execute_manifest(manifest, self.sign());
        classify(&receipt)
    }

    /// projection of the controller to the model's state record
    pub fn observe(&mut self) -> Value {
        let reader = SystemDatabaseReader::new(self.ledger.substate_db());
        let node = self.ac.as_node_id();
        let s: AccessControllerV2Substate = reader
            .read_typed_object_field::<AccessControllerV2StateFieldPayload>(node, ModuleId::Main, AccessControllerV2Field::State.field_index())
            .expect("controller state")
            .fully_update_and_into_latest_version();
        let mut rules = vec![];
        for role in ["primary", "recovery", "confirmation"] {
            let key = ModuleRoleKey::new(ModuleId::Main, RoleKey::new(role));
            let entry: Option<RoleAssignmentAccessRuleEntryPayload> = reader
                .read_object_collection_entry(node, ModuleId::RoleAssignment, ObjectCollectionKey::KeyValue(RoleAssignmentCollection::AccessRuleKeyValue.collection_index(), &key))
                .expect("role assignment entry");
            rules.push(match entry {
                Some(e) => self.rule_name(&e.fully_update_and_into_latest_version()),
                None => -2,
            });
        }
        drop(reader);
        let no_prop = json!({"rules": [0, 0, 0], "delay": -2});
        let p_rec = match &s.state.1 {
            PrimaryRoleRecoveryAttemptState::NoRecoveryAttempt => no_prop.clone(),
            PrimaryRoleRecoveryAttemptState::RecoveryAttempt(p) => self.proposal_json(p),
        };
        let r_rec = match &s.state.3 {
            RecoveryRoleRecoveryAttemptState::NoRecoveryAttempt => json!({"kind": "none", "prop": no_prop, "after": 0}),
            RecoveryRoleRecoveryAttemptState::RecoveryAttempt(RecoveryRoleRecoveryState::UntimedRecovery(p)) => json!({"kind": "untimed", "prop": self.proposal_json(p), "after": 0}),
            RecoveryRoleRecoveryAttemptState::RecoveryAttempt(RecoveryRoleRecoveryState::TimedRecovery { proposal, timed_recovery_allowed_after }) => {
                let secs = timed_recovery_allowed_after.seconds_since_unix_epoch - self.base_ms / 1000;
                json!({"kind": "timed", "prop": self.proposal_json(proposal), "after": if secs % 60 == 0 { secs / 60 } else { -999 }})
            }
        };
        let vault = s.controlled_asset.0.as_node_id().clone();
        let balance = self.ledger.inspect_vault_balance(vault).expect("vault");
        json!({
            "locked": matches!(s.state.0, PrimaryRoleLockingState::Locked),
            "pRec": p_rec,
            "pWd": matches!(s.state.2, PrimaryRoleBadgeWithdrawAttemptState::BadgeWithdrawAttempt),
            "rRec": r_rec,
            "rWd": matches!(s.state.4, RecoveryRoleBadgeWithdrawAttemptState::BadgeWithdrawAttempt),
            "rules": rules,
            "asset": if balance == dec!(1) { "held".to_string() } else if balance.is_zero() { "withdrawn".to_string() } else { format!("balance {}", balance) },
            "delay": s.timed_recovery_delay_in_minutes.map(|d| d as i64).unwrap_or(-1),
        })
    }
}

pub fn classify(receipt: &scrypto_test::prelude::TransactionReceipt) -> String {
    use radix_engine::transaction::{TransactionOutcome, TransactionResult};
    match &receipt.result {
        TransactionResult::Commit(c) => match &c.outcome {
            TransactionOutcome::Success(_) => "ok".to_string(),
            TransactionOutcome::Failure(e) => match e {
                RuntimeError::SystemModuleError(SystemModuleError::AuthError(AuthError::Unauthorized(_))) => "Unauthorized".to_string(),
                RuntimeError::ApplicationError(ApplicationError::AccessControllerError(e)) => {
                    let d = format!("{:?}", e);
                    d.split(|ch: char| !ch.is_alphanumeric()).next().unwrap_or("").to_string()
                }
                RuntimeError::ApplicationError(ApplicationError::ConsensusManagerError(e)) => {
                    let d = format!("{:?}", e);
                    d.split(|ch: char| !ch.is_alphanumeric()).next().unwrap_or("").to_string()
                }
                other => format!("other:{:?}", other).chars().take(120).collect(),
            },
        },
        TransactionResult::Reject(r) => format!("reject:{:?}", r.reason).chars().take(120).collect(),
        TransactionResult::Abort(_) => "abort".to_string(),
    }
}

pub fn run(mode: &str, args: &Args) {
    match mode {
        "replay" => replay(args),
        _ => panic!("mode"),
    }
}

fn replay(_args: &Args) {
    let mut out = Out::new();
    let behaviours = read_lines();
    let mut w = World::new();
    let mut steps = 0usize;
    let mut results = std::collections::BTreeMap::<String, u64>::new();
    for (bi, b) in behaviours.iter().enumerate() {
        w.start(&b["init"]);
        let got0 = w.observe();
        if got0 != b["init"]["st"] {
            out.mismatch(bi, 0, "state after creation", b["init"]["st"].clone(), got0);
            continue;
        }
        let mut ok = true;
        let mut now = 0;
        for (si, st) in b["path"].as_array().unwrap().iter().enumerate() {
            steps += 1;
            let m = st["m"].as_str().unwrap();
            now = st["now"].as_i64().unwrap();
            let res = if m == "tick" {
                w.tick_to(now);
                "ok".to_string()
            } else {
                match catch(|| w.call(m, &i64s(&st["c"]), &st["prop"])) {
                    Ok(r) => r,
                    Err(e) => format!("panic:{}", e),
                }
            };
            *results.entry(format!("{}:{}", m, res)).or_default() += 1;
            if res != st["res"].as_str().unwrap() {
                out.mismatch(bi, si + 1, &format!("result of {}", m), st["res"].clone(), json!(res));
                ok = false;
                break;
            }
            let got = w.observe();
            if got != st["st"] {
                out.mismatch(bi, si + 1, &format!("state after {}", m), st["st"].clone(), got);
                ok = false;
                break;
            }
        }
        if !ok {
            continue;
        }
        let fan = b["fan"].as_array().unwrap();
        if fan.is_empty() {
            continue;
        }
        let _ = now;
        let snap = w.ledger.create_snapshot();
        let before = w.observe();
        for (fi, f) in fan.iter().enumerate() {
            steps += 1;
            let m = f["m"].as_str().unwrap();
            let res = match catch(|| w.call(m, &i64s(&f["c"]), &f["prop"])) {
                Ok(r) => r,
                Err(e) => format!("panic:{}", e),
            };
            *results.entry(format!("{}:{}", m, res)).or_default() += 1;
            let got = w.observe();
            if res != f["res"].as_str().unwrap() {
                out.mismatch(bi, 1000 + fi, &format!("result of {} (fan)", m), json!({"res": f["res"], "c": f["c"], "prop": f["prop"]}), json!(res));
            } else if got != f["st"] {
                out.mismatch(bi, 1000 + fi, &format!("state after {} (fan)", m), f["st"].clone(), got.clone());
            }
            if got != before {
                w.ledger.restore_snapshot(snap.clone());
            }
        }
    }
    out.emit(&json!({"results": results}));
    out.done(behaviours.len(), steps);
}

//! vh_native — native blueprints at ledger level: AccessController (C40), Consensus (C44).
//! Binds the TLA+ specifications under /verif/spec to the real blueprints running on a
//! scrypto_test::LedgerSimulator (real transactions, real auth module, real clock).
#![allow(clippy::all)]
mod access_controller;
mod consensus;

fn main() {
    let (module, mode, args) = vh::start();
    match module.as_str() {
        "access_controller" => access_controller::run(&mode, &args),
        "consensus" => consensus::run(&mode, &args),
        m => vh::unknown(m),
    }
}

//! C44 — binding of spec/Consensus to the consensus manager blueprint on a real ledger.
//! Behaviours from TLC (GenConsensus): `path` and `fan` of next_round(r, t) calls with the result and
//! the state the model demands, `gets` / `queries` = what get_current_time / compare_current_time must
//! answer in the state reached by the path.  Calls are real next-round system transactions; the
//! clock queries are a plain user transaction calling the (public) consensus manager methods.
//! Model times are milliseconds; the run far from zero adds BASE_MIN whole minutes to every time.
use crate::access_controller::classify;
use radix_common::prelude::*;
use radix_engine::blueprints::consensus_manager::*;
use radix_engine::system::system_db_reader::*;
use radix_engine::updates::BabylonSettings;
use radix_engine_interface::blueprints::consensus_manager::*;
use radix_engine_interface::prelude::*;
use radix_transactions::prelude::*;
use scrypto_test::prelude::{DefaultLedgerSimulator, LedgerSimulatorBuilder, LedgerSimulatorSnapshot};
use serde_json::{json, Value};
use vh::util::*;
use vh::Args;

struct World {
    ledger: DefaultLedgerSimulator,
    base: LedgerSimulatorSnapshot,
    base_min: i64,
    epoch0: u64,
}

impl World {
    fn new(base_min: i64, init_ms: i64) -> World {
        let mut genesis = BabylonSettings::test_default().with_consensus_manager_config(
            ConsensusManagerConfig::test_default().with_epoch_change_condition(EpochChangeCondition { min_round_count: 2, max_round_count: 4, target_duration_millis: 60000 }),
        );
        genesis.initial_time_ms = base_min * 60000 + init_ms;
        let mut ledger = LedgerSimulatorBuilder::new().with_custom_protocol(|b| b.configure_babylon(|_| genesis).from_bootstrap_to_latest()).build();
        let epoch0 = ledger.get_consensus_manager_state().epoch.number();
        let base = ledger.create_snapshot();
        World { ledger, base, base_min, epoch0 }
    }

    fn observe(&mut self) -> Value {
        let s = self.ledger.get_consensus_manager_state();
        let ms = self.ledger.get_current_proposer_timestamp_ms();
        let reader = SystemDatabaseReader::new(self.ledger.substate_db());
        let minute = reader
            .read_typed_object_field::<ConsensusManagerProposerMinuteTimestampFieldPayload>(CONSENSUS_MANAGER.as_node_id(), ModuleId::Main, ConsensusManagerField::ProposerMinuteTimestamp.field_index())
            .unwrap()
            .fully_update_and_into_latest_version()
            .epoch_minute as i64;
        json!({
            "epoch": s.epoch.number() as i64 - self.epoch0 as i64,
            "round": s.round.number(),
            "ms": ms - self.base_min * 60000,
            "minute": minute - self.base_min,
            "effStart": s.effective_epoch_start_milli - self.base_min * 60000,
        })
    }

    /// next_round(r, t): result class and whether an EpochChangeEvent was emitted (with the epoch it names)
    fn next_round(&mut self, r: u64, t: i64) -> (String, bool, i64) {
        let receipt = self.ledger.advance_to_round_at_timestamp(Round::of(r), self.base_min * 60000 + t);
        let res = classify(&receipt);
        let mut change = false;
        let mut named = -1;
        if res == "ok" {
            for (id, data) in &receipt.expect_commit_success().application_events {
                if id.1 == "EpochChangeEvent" {
                    change = true;
                    let ev: EpochChangeEvent = scrypto_decode(data).expect("event");
                    named = ev.epoch.number() as i64 - self.epoch0 as i64;
                }
            }
        }
        (res, change, named)
    }

    /// one user transaction asking the clock: two get_current_time and all compare_current_time queries
    /// the instant of a query: relative to the run's base (`i`), or absolute as a big integer `big` = {s, l: limbs base 10^4}
    fn instant_of(&self, q: &Value) -> i64 {
        if let Some(big) = q.get("big") {
            let mut v: i128 = 0;
            for limb in big["l"].as_array().unwrap().iter().rev() {
                v = v * 10_000 + limb.as_i64().unwrap() as i128;
            }
            let v = v * big["s"].as_i64().unwrap() as i128;
            return i64::try_from(v).expect("harness: far instant outside i64");
        }
        self.base_min * 60 + q["i"].as_i64().unwrap()
    }
    fn ask(&mut self, queries: &[Value]) -> Result<(i64, i64, Vec<bool>), String> {
        let prec = |p: &str| if p == "Minute" { TimePrecision::Minute } else { TimePrecision::Second };
        let mut b = ManifestBuilder::new()
            .lock_fee_from_faucet()
            .call_method(CONSENSUS_MANAGER, CONSENSUS_MANAGER_GET_CURRENT_TIME_IDENT, ConsensusManagerGetCurrentTimeInputV2 { precision: TimePrecision::Minute })
            .call_method(CONSENSUS_MANAGER, CONSENSUS_MANAGER_GET_CURRENT_TIME_IDENT, ConsensusManagerGetCurrentTimeInputV2 { precision: TimePrecision::Second });
        for q in queries {
            let op = match q["op"].as_str().unwrap() {
                "Eq" => TimeComparisonOperator::Eq,
                "Lt" => TimeComparisonOperator::Lt,
                "Lte" => TimeComparisonOperator::Lte,
                "Gt" => TimeComparisonOperator::Gt,
                _ => TimeComparisonOperator::Gte,
            };
            b = b.call_method(
                CONSENSUS_MANAGER,
                CONSENSUS_MANAGER_COMPARE_CURRENT_TIME_IDENT,
                ConsensusManagerCompareCurrentTimeInputV2 { instant: Instant::new(self.instant_of(q)), precision: prec(q["prec"].as_str().unwrap()), operator: op },
            );
        }
        let receipt = self.ledger.execute_manifest(b.build(), vec![]);
        let res = classify(&receipt);
        if res != "ok" {
            return Err(res);
        }
        let c = receipt.expect_commit_success();
        let m: Instant = c.output(1);
        let s: Instant = c.output(2);
        let answers = (0..queries.len()).map(|k| c.output::<bool>(3 + k)).collect();
        Ok((m.seconds_since_unix_epoch - self.base_min * 60, s.seconds_since_unix_epoch - self.base_min * 60, answers))
    }
}

pub fn run(mode: &str, args: &Args) {
    match mode {
        "replay" => replay(args),
        _ => panic!("mode"),
    }
}

fn replay(args: &Args) {
    let base_min = args.u64("base_min", 0) as i64;
    let mut out = Out::new();
    let behaviours = read_lines();
    if behaviours.is_empty() {
        out.done(0, 0);
        return;
    }
    let init_ms = behaviours[0]["init"]["ms"].as_i64().unwrap();
    let mut w = World::new(base_min, init_ms);
    let mut steps = 0usize;
    let mut results = std::collections::BTreeMap::<String, u64>::new();
    for (bi, b) in behaviours.iter().enumerate() {
        w.ledger.restore_snapshot(w.base.clone());
        let got0 = w.observe();
        if got0 != b["init"] {
            out.mismatch(bi, 0, "initial state", b["init"].clone(), got0);
            continue;
        }
        let mut ok = true;
        let do_step = |w: &mut World, st: &Value| -> (String, bool, i64, Value) {
            let (res, change, named) = w.next_round(st["r"].as_u64().unwrap(), st["t"].as_i64().unwrap());
            let got = w.observe();
            (res, change, named, got)
        };
        for (si, st) in b["path"].as_array().unwrap().iter().enumerate() {
            steps += 1;
            let (res, change, named, got) = match catch(|| do_step(&mut w, st)) {
                Ok(x) => x,
                Err(e) => (format!("panic:{}", e), false, -1, Value::Null),
            };
            *results.entry(format!("{}{}", res, if change { "+epoch" } else { "" })).or_default() += 1;
            if res != st["res"].as_str().unwrap() {
                out.mismatch(bi, si + 1, "result of next_round", st["res"].clone(), json!(res));
                ok = false;
            } else if got != st["st"] {
                out.mismatch(bi, si + 1, "state after next_round", st["st"].clone(), got);
                ok = false;
            } else if change != st["change"].as_bool().unwrap() || (change && named != st["st"]["epoch"].as_i64().unwrap()) {
                out.mismatch(bi, si + 1, "EpochChangeEvent", json!([st["change"], st["st"]["epoch"]]), json!([change, named]));
                ok = false;
            }
            if !ok {
                break;
            }
        }
        if !ok {
            continue;
        }
        // the clock as components see it
        let mut queries = b["queries"].as_array().unwrap().clone();
        if let Some(far) = b.get("farq").and_then(|f| f.as_array()) {
            queries.extend(far.iter().cloned());
        }
        let queries = &queries;
        steps += 1;
        match catch(|| w.ask(queries)) {
            Ok(Ok((m, s, answers))) => {
                if json!(m) != b["gets"]["Minute"] || json!(s) != b["gets"]["Second"] {
                    out.mismatch(bi, 500, "get_current_time", b["gets"].clone(), json!({"Minute": m, "Second": s}));
                }
                for (k, q) in queries.iter().enumerate() {
                    if json!(answers[k]) != q["exp"] {
                        out.mismatch(bi, 501 + k, "compare_current_time", q.clone(), json!(answers[k]));
                    }
                }
            }
            Ok(Err(e)) => out.mismatch(bi, 500, "clock query transaction", json!("ok"), json!(e)),
            Err(e) => out.mismatch(bi, 500, "clock query transaction", json!("ok"), json!(format!("panic:{}", e))),
        }
        let fan = b["fan"].as_array().unwrap();
        if fan.is_empty() {
            continue;
        }
        let snap = w.ledger.create_snapshot();
        let before = w.observe();
        for (fi, f) in fan.iter().enumerate() {
            steps += 1;
            let (res, change, named, got) = match catch(|| do_step(&mut w, f)) {
                Ok(x) => x,
                Err(e) => (format!("panic:{}", e), false, -1, Value::Null),
            };
            *results.entry(format!("{}{}", res, if change { "+epoch" } else { "" })).or_default() += 1;
            if res != f["res"].as_str().unwrap() {
                out.mismatch(bi, 1000 + fi, "result of next_round (fan)", json!({"r": f["r"], "t": f["t"], "res": f["res"]}), json!(res));
            } else if got != f["st"] {
                out.mismatch(bi, 1000 + fi, "state after next_round (fan)", f["st"].clone(), got.clone());
            } else if change != f["change"].as_bool().unwrap() || (change && named != f["st"]["epoch"].as_i64().unwrap()) {
                out.mismatch(bi, 1000 + fi, "EpochChangeEvent (fan)", json!([f["change"], f["st"]["epoch"]]), json!([change, named]));
            }
            if got != before {
                w.ledger.restore_snapshot(snap.clone());
            }
        }
    }
    out.emit(&json!({"results": results}));
    out.done(behaviours.len(), steps);
}

//! vh_codec — codec column: KeyMapper (C16), Sbor (C20, C21), Bech32m/Ids (C28).
#![allow(clippy::all)]
mod ids;
mod keymapper;
mod sbor;

/// Counting allocator: C21 bounds the heap the decoders take for a hostile payload.
pub mod alloc_counter {
    use std::alloc::{GlobalAlloc, Layout, System};
    use std::sync::atomic::{AtomicUsize, Ordering::Relaxed};
    static CUR: AtomicUsize = AtomicUsize::new(0);
    static PEAK: AtomicUsize = AtomicUsize::new(0);
    static BASE: AtomicUsize = AtomicUsize::new(0);
    pub struct Counting;
    unsafe impl GlobalAlloc for Counting {
        unsafe fn alloc(&self, l: Layout) -> *mut u8 {
            let p = System.alloc(l);
            if !p.is_null() {
                let c = CUR.fetch_add(l.size(), Relaxed) + l.size();
                PEAK.fetch_max(c, Relaxed);
            }
            p
        }
        unsafe fn dealloc(&self, p: *mut u8, l: Layout) {
            CUR.fetch_sub(l.size(), Relaxed);
            System.dealloc(p, l)
        }
        unsafe fn realloc(&self, p: *mut u8, l: Layout, new: usize) -> *mut u8 {
            let q = System.realloc(p, l, new);
            if !q.is_null() {
                if new >= l.size() {
                    let c = CUR.fetch_add(new - l.size(), Relaxed) + (new - l.size());
                    PEAK.fetch_max(c, Relaxed);
                } else {
                    CUR.fetch_sub(l.size() - new, Relaxed);
                }
            }
            q
        }
    }
    /// start a measurement: peak() then reports the most bytes live above the current level
    pub fn reset() {
        let c = CUR.load(Relaxed);
        BASE.store(c, Relaxed);
        PEAK.store(c, Relaxed);
    }
    pub fn peak() -> usize {
        PEAK.load(Relaxed).saturating_sub(BASE.load(Relaxed))
    }
}
#[global_allocator]
static GLOBAL: alloc_counter::Counting = alloc_counter::Counting;

fn main() {
    let (module, mode, args) = vh::start();
    match module.as_str() {
        "keymapper" => keymapper::run(&mode, &args),
        "sbor" => sbor::run(&mode, &args),
        "ids" => ids::run(&mode, &args),
        m => vh::unknown(m),
    }
}

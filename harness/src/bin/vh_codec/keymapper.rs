//! C16 — drives the real SpreadPrefixKeyMapper on the input classes enumerated by
//! spec/KeyMapper/GenKeyMapper.tla (stdin) x seeded random fill and records every call
//! (logical key, db key, from_db(db key), independently computed blake2b-256 prefix).
//! The decision (structure, round trip, injectivity, order) is taken by TraceKeyMapper.tla.
use blake2::digest::{consts::U32, Digest};
use blake2::Blake2b;
use radix_common::prelude::*;
use radix_substate_store_interface::db_key_mapper::*;
use rand::prelude::*;
use serde_json::{json, Value};
use std::collections::BTreeMap;
use vh::util::*;
use vh::Args;

type M = SpreadPrefixKeyMapper;

/// blake2b-256 by the `blake2` crate directly (not through radix_common::hash)
fn h20(body: &[u8]) -> Vec<u8> {
    let d = Blake2b::<U32>::digest(body);
    d[..20].to_vec()
}

fn fill(rng: &mut StdRng, how: &str, n: usize) -> Vec<u8> {
    match how {
        "zero" => vec![0u8; n],
        "ones" => vec![0xffu8; n],
        _ => (0..n).map(|_| rng.gen()).collect(),
    }
}

fn body_for(rng: &mut StdRng, c: &Value, prev: &Option<Vec<u8>>) -> Vec<u8> {
    let len = c["len"].as_u64().unwrap() as usize;
    let how = c["fill"].as_str().unwrap();
    let rel = c["rel"].as_str().unwrap();
    let fresh = fill(rng, how, len);
    match (rel, prev) {
        ("same", Some(p)) => p.clone(),
        ("prefix", Some(p)) if !p.is_empty() => p[..rng.gen_range(0..p.len())].to_vec(),
        ("extend", Some(p)) => {
            let mut b = p.clone();
            b.extend(fill(rng, how, 1 + len % 4));
            b
        }
        ("hashlike", Some(p)) => {
            let mut b = h20(p);
            b.extend(fresh);
            b
        }
        _ => fresh,
    }
}

pub fn run(mode: &str, args: &Args) {
    match mode {
        "record" => record(args),
        _ => panic!("mode"),
    }
}

fn record(args: &Args) {
    let seed = args.u64("seed", 1);
    let reps = args.u64("reps", 3) as usize;
    let chunk = args.u64("chunk", 1500) as usize; // events per independent trace
    let mut rng = StdRng::seed_from_u64(seed);
    let mut classes = read_lines();
    classes.shuffle(&mut rng);
    let mut out = Out::new();
    let mut n_in_chunk = 0usize;
    let mut prev_map: Option<Vec<u8>> = None;
    let mut prev_sorted: Option<Vec<u8>> = None;
    // the database view of the sorted keys of this chunk: db key -> event
    let mut sorted_db: BTreeMap<Vec<u8>, Value> = BTreeMap::new();
    let flush_scan = |out: &mut Out, sorted_db: &mut BTreeMap<Vec<u8>, Value>| {
        // iterate in database order (byte-wise, as RocksDB and the in-memory BTreeMap do)
        let mut first = true;
        for (_, ev) in sorted_db.iter() {
            let mut e = ev.clone();
            e["ord"] = json!(!first);
            first = false;
            out.emit(&e);
        }
        sorted_db.clear();
        out.emit(&json!({"k": "reset"}));
    };
    for c in classes.iter() {
        let long = c.get("len").and_then(|l| l.as_u64()).unwrap_or(0) >= 255;
        let r = if long { std::cmp::max(1, reps / 8) } else { reps };
        for _ in 0..r {
            let ev = match c["kind"].as_str().unwrap() {
                "node" => {
                    let mut b = fill(&mut rng, c["fill"].as_str().unwrap(), 30);
                    b[0] = c["e"].as_u64().unwrap() as u8;
                    let pn = c["pn"].as_u64().unwrap() as u8;
                    let node = NodeId(b.clone().try_into().unwrap());
                    match catch(|| {
                        let pk = M::to_db_partition_key(&node, PartitionNumber(pn));
                        let (bn, bp) = M::from_db_partition_key(&pk);
                        let alt = vec![M::to_db_node_key(&node)];
                        let altback = vec![M::from_db_node_key(&pk.node_key).0.to_vec()];
                        let altpn = vec![M::to_db_partition_num(PartitionNumber(pn)), M::from_db_partition_num(pk.partition_num).0];
                        (pk, bn, bp, alt, altback, altpn)
                    }) {
                        Ok((pk, bn, bp, alt, altback, altpn)) => json!({"k": "node", "body": b, "pn": pn, "db": pk.node_key, "dbpn": pk.partition_num,
                            "back": bn.0.to_vec(), "backpn": bp.0, "h": h20(&b), "alt": alt, "altback": altback, "altpn": altpn}),
                        Err(e) => json!({"k": "panic", "what": "node", "body": b, "msg": e}),
                    }
                }
                "field" => {
                    let f = c["f"].as_u64().unwrap() as u8;
                    match catch(|| {
                        let db = M::to_db_sort_key(&SubstateKey::Field(f));
                        let back = M::from_db_sort_key::<FieldKey>(&db);
                        // every other public entry point for the same logical key
                        let alt = vec![M::to_db_sort_key_from_ref(SubstateKeyRef::Field(&f)).0, M::field_to_db_sort_key(&f).0];
                        let altback = vec![M::field_from_db_sort_key(&db), M::from_db_sort_key_to_inner::<FieldKey>(&db)];
                        (db, back, alt, altback)
                    }) {
                        Ok((db, SubstateKey::Field(back), alt, altback)) => json!({"k": "field", "f": f, "db": db.0, "back": back, "alt": alt, "altback": altback}),
                        Ok((db, _, _, _)) => json!({"k": "panic", "what": "field", "db": db.0, "msg": "wrong key kind returned"}),
                        Err(e) => json!({"k": "panic", "what": "field", "f": f, "msg": e}),
                    }
                }
                "map" => {
                    let b = body_for(&mut rng, c, &prev_map);
                    prev_map = Some(b.clone());
                    match catch(|| {
                        let db = M::to_db_sort_key(&SubstateKey::Map(b.clone()));
                        let back = M::from_db_sort_key::<MapKey>(&db);
                        let alt = vec![M::to_db_sort_key_from_ref(SubstateKeyRef::Map(&b)).0, M::map_to_db_sort_key(&b).0];
                        let altback = vec![M::map_from_db_sort_key(&db), M::from_db_sort_key_to_inner::<MapKey>(&db)];
                        (db, back, alt, altback)
                    }) {
                        Ok((db, SubstateKey::Map(back), alt, altback)) => json!({"k": "map", "body": b, "db": db.0, "back": back, "h": h20(&b), "alt": alt, "altback": altback}),
                        Ok((db, _, _, _)) => json!({"k": "panic", "what": "map", "db": db.0, "msg": "wrong key kind returned"}),
                        Err(e) => json!({"k": "panic", "what": "map", "body": b, "msg": e}),
                    }
                }
                "sorted" => {
                    let b = body_for(&mut rng, c, &prev_sorted);
                    prev_sorted = Some(b.clone());
                    let p: Vec<u8> = c["p"].as_array().unwrap().iter().map(|x| x.as_u64().unwrap() as u8).collect();
                    let key: SortedKey = ([p[0], p[1]], b.clone());
                    match catch(|| {
                        let db = M::to_db_sort_key(&SubstateKey::Sorted(key.clone()));
                        let back = M::from_db_sort_key::<SortedKey>(&db);
                        let alt = vec![M::to_db_sort_key_from_ref(SubstateKeyRef::Sorted(&key)).0, M::sorted_to_db_sort_key(&key).0];
                        let a1 = M::sorted_from_db_sort_key(&db);
                        let a2 = M::from_db_sort_key_to_inner::<SortedKey>(&db);
                        (db, back, alt, vec![a1.0.to_vec(), a2.0.to_vec()], vec![a1.1, a2.1])
                    }) {
                        Ok((db, SubstateKey::Sorted(back), alt, altbackp, altback)) => {
                            let e = json!({"k": "sorted", "p": p, "body": b, "db": db.0, "backp": back.0.to_vec(), "back": back.1,
                                "h": h20(&b), "ord": false, "alt": alt, "altbackp": altbackp, "altback": altback});
                            sorted_db.insert(db.0.clone(), e.clone());
                            e
                        }
                        Ok((db, _, _, _, _)) => json!({"k": "panic", "what": "sorted", "db": db.0, "msg": "wrong key kind returned"}),
                        Err(e) => json!({"k": "panic", "what": "sorted", "body": b, "msg": e}),
                    }
                }
                _ => panic!("bad class"),
            };
            out.emit(&ev);
            n_in_chunk += 1;
        }
        if n_in_chunk >= chunk {
            flush_scan(&mut out, &mut sorted_db);
            n_in_chunk = 0;
        }
    }
    flush_scan(&mut out, &mut sorted_db);
    out.flush();
}

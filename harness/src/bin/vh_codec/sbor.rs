//! C20 / C21 — binding of spec/Sbor to the real SBOR Value codec (encoder, decoder, traverser) of
//! the three flavours.  The harness only builds values, drives the code and projects results to
//! the JSON value shape of Sbor.tla; every decision is taken in TLA+ (GenSbor* expectations,
//! TraceSbor).
use crate::alloc_counter;
use radix_common::prelude::*;
use rand::prelude::*;
use sbor::traversal::*;
use serde_json::{json, Value as J};
use std::fmt::Debug;
use vh::util::*;
use vh::Args;

// ---------------------------------------------------------------------------------------------
// flavours

pub trait Flav {
    type X: CustomValueKind;
    type Y: CustomValue<Self::X>
        + Clone
        + PartialEq
        + Debug
        + for<'a> Encode<Self::X, VecEncoder<'a, Self::X>>
        + for<'a> Decode<Self::X, VecDecoder<'a, Self::X>>;
    type T: CustomTraversal<CustomValueKind = Self::X>;
    const NAME: &'static str;
    const PREFIX: u8;
    fn cust_from(kind: u8, form: &str, b: &[u8]) -> Option<Self::Y>;
    fn cust_to(y: &Self::Y) -> (u8, &'static str, Vec<u8>);
}
type V<F> = sbor::Value<<F as Flav>::X, <F as Flav>::Y>;

pub struct Basic;
pub struct Scrypto;
pub struct Manifest;

impl Flav for Basic {
    type X = NoCustomValueKind;
    type Y = NoCustomValue;
    type T = NoCustomTraversal;
    const NAME: &'static str = "basic";
    const PREFIX: u8 = BASIC_SBOR_V1_PAYLOAD_PREFIX;
    fn cust_from(_: u8, _: &str, _: &[u8]) -> Option<Self::Y> {
        None
    }
    fn cust_to(_: &Self::Y) -> (u8, &'static str, Vec<u8>) {
        unreachable!()
    }
}

fn arr<const N: usize>(b: &[u8]) -> Option<[u8; N]> {
    b.try_into().ok()
}

impl Flav for Scrypto {
    type X = ScryptoCustomValueKind;
    type Y = ScryptoCustomValue;
    type T = ScryptoCustomTraversal;
    const NAME: &'static str = "scrypto";
    const PREFIX: u8 = SCRYPTO_SBOR_V1_PAYLOAD_PREFIX;
    fn cust_from(kind: u8, form: &str, b: &[u8]) -> Option<Self::Y> {
        Some(match (kind, form) {
            (0x80, "raw") => ScryptoCustomValue::Reference(Reference(NodeId(arr::<30>(b)?))),
            (0x90, "raw") => ScryptoCustomValue::Own(Own(NodeId(arr::<30>(b)?))),
            (0xa0, "raw") => ScryptoCustomValue::Decimal(Decimal::from_attos(I192::from_le_bytes(&arr::<24>(b)?))),
            (0xb0, "raw") => ScryptoCustomValue::PreciseDecimal(PreciseDecimal::from_precise_subunits(I256::from_le_bytes(&arr::<32>(b)?))),
            (0xc0, "str") => ScryptoCustomValue::NonFungibleLocalId(NonFungibleLocalId::string(String::from_utf8(b.to_vec()).ok()?).ok()?),
            (0xc0, "int") => ScryptoCustomValue::NonFungibleLocalId(NonFungibleLocalId::integer(u64::from_be_bytes(arr::<8>(b)?))),
            (0xc0, "bytes") => ScryptoCustomValue::NonFungibleLocalId(NonFungibleLocalId::bytes(b.to_vec()).ok()?),
            (0xc0, "ruid") => ScryptoCustomValue::NonFungibleLocalId(NonFungibleLocalId::ruid(arr::<32>(b)?)),
            _ => return None,
        })
    }
    fn cust_to(y: &Self::Y) -> (u8, &'static str, Vec<u8>) {
        match y {
            ScryptoCustomValue::Reference(r) => (0x80, "raw", r.0 .0.to_vec()),
            ScryptoCustomValue::Own(r) => (0x90, "raw", r.0 .0.to_vec()),
            ScryptoCustomValue::Decimal(d) => (0xa0, "raw", d.attos().to_le_bytes().to_vec()),
            ScryptoCustomValue::PreciseDecimal(d) => (0xb0, "raw", d.precise_subunits().to_le_bytes().to_vec()),
            ScryptoCustomValue::NonFungibleLocalId(id) => match id {
                NonFungibleLocalId::String(s) => (0xc0, "str", s.value().as_bytes().to_vec()),
                NonFungibleLocalId::Integer(i) => (0xc0, "int", i.value().to_be_bytes().to_vec()),
                NonFungibleLocalId::Bytes(b) => (0xc0, "bytes", b.value().to_vec()),
                NonFungibleLocalId::RUID(r) => (0xc0, "ruid", r.value().to_vec()),
            },
        }
    }
}

impl Flav for Manifest {
    type X = ManifestCustomValueKind;
    type Y = ManifestCustomValue;
    type T = ManifestCustomTraversal;
    const NAME: &'static str = "manifest";
    const PREFIX: u8 = MANIFEST_SBOR_V1_PAYLOAD_PREFIX;
    fn cust_from(kind: u8, form: &str, b: &[u8]) -> Option<Self::Y> {
        let u32le = |b: &[u8]| arr::<4>(b).map(u32::from_le_bytes);
        Some(match (kind, form) {
            (0x80, "static") => ManifestCustomValue::Address(ManifestAddress::Static(NodeId(arr::<30>(b)?))),
            (0x80, "named") => ManifestCustomValue::Address(ManifestAddress::Named(ManifestNamedAddress(u32le(b)?))),
            (0x81, "raw") => ManifestCustomValue::Bucket(ManifestBucket(u32le(b)?)),
            (0x82, "raw") => ManifestCustomValue::Proof(ManifestProof(u32le(b)?)),
            (0x83, "raw") => ManifestCustomValue::Expression(match b {
                [0] => ManifestExpression::EntireWorktop,
                [1] => ManifestExpression::EntireAuthZone,
                _ => return None,
            }),
            (0x84, "raw") => ManifestCustomValue::Blob(ManifestBlobRef(arr::<32>(b)?)),
            (0x85, "raw") => ManifestCustomValue::Decimal(ManifestDecimal(arr::<24>(b)?)),
            (0x86, "raw") => ManifestCustomValue::PreciseDecimal(ManifestPreciseDecimal(arr::<32>(b)?)),
            // the enum variants are public: content is NOT validated on construction
            (0x87, "str") => ManifestCustomValue::NonFungibleLocalId(ManifestNonFungibleLocalId::String(String::from_utf8(b.to_vec()).ok()?)),
            (0x87, "int") => ManifestCustomValue::NonFungibleLocalId(ManifestNonFungibleLocalId::Integer(u64::from_be_bytes(arr::<8>(b)?))),
            (0x87, "bytes") => ManifestCustomValue::NonFungibleLocalId(ManifestNonFungibleLocalId::Bytes(b.to_vec())),
            (0x87, "ruid") => ManifestCustomValue::NonFungibleLocalId(ManifestNonFungibleLocalId::RUID(arr::<32>(b)?)),
            (0x88, "raw") => ManifestCustomValue::AddressReservation(ManifestAddressReservation(u32le(b)?)),
            _ => return None,
        })
    }
    fn cust_to(y: &Self::Y) -> (u8, &'static str, Vec<u8>) {
        match y {
            ManifestCustomValue::Address(ManifestAddress::Static(n)) => (0x80, "static", n.0.to_vec()),
            ManifestCustomValue::Address(ManifestAddress::Named(n)) => (0x80, "named", n.0.to_le_bytes().to_vec()),
            ManifestCustomValue::Bucket(x) => (0x81, "raw", x.0.to_le_bytes().to_vec()),
            ManifestCustomValue::Proof(x) => (0x82, "raw", x.0.to_le_bytes().to_vec()),
            ManifestCustomValue::Expression(ManifestExpression::EntireWorktop) => (0x83, "raw", vec![0]),
            ManifestCustomValue::Expression(ManifestExpression::EntireAuthZone) => (0x83, "raw", vec![1]),
            ManifestCustomValue::Blob(x) => (0x84, "raw", x.0.to_vec()),
            ManifestCustomValue::Decimal(x) => (0x85, "raw", x.0.to_vec()),
            ManifestCustomValue::PreciseDecimal(x) => (0x86, "raw", x.0.to_vec()),
            ManifestCustomValue::NonFungibleLocalId(id) => match id {
                ManifestNonFungibleLocalId::String(s) => (0x87, "str", s.as_bytes().to_vec()),
                ManifestNonFungibleLocalId::Integer(i) => (0x87, "int", i.to_be_bytes().to_vec()),
                ManifestNonFungibleLocalId::Bytes(b) => (0x87, "bytes", b.clone()),
                ManifestNonFungibleLocalId::RUID(r) => (0x87, "ruid", r.to_vec()),
            },
            ManifestCustomValue::AddressReservation(x) => (0x88, "raw", x.0.to_le_bytes().to_vec()),
        }
    }
}

// ---------------------------------------------------------------------------------------------
// JSON tree <-> real Value

fn bytes_of(j: &J) -> Option<Vec<u8>> {
    j.as_array()?.iter().map(|x| x.as_u64().and_then(|v| u8::try_from(v).ok())).collect()
}

fn from_json<F: Flav>(j: &J) -> Option<V<F>> {
    use sbor::Value as SV;
    let children = |j: &J| -> Option<Vec<V<F>>> { j["e"].as_array()?.iter().map(from_json::<F>).collect() };
    let kind = |j: &J| -> Option<ValueKind<F::X>> { ValueKind::from_u8(u8::try_from(j.as_u64()?).ok()?) };
    Some(match j["t"].as_str()? {
        "bool" => SV::Bool { value: j["v"].as_bool()? },
        "int" => {
            let b = bytes_of(&j["b"])?;
            match j["k"].as_u64()? {
                2 => SV::I8 { value: i8::from_le_bytes(arr(&b)?) },
                3 => SV::I16 { value: i16::from_le_bytes(arr(&b)?) },
                4 => SV::I32 { value: i32::from_le_bytes(arr(&b)?) },
                5 => SV::I64 { value: i64::from_le_bytes(arr(&b)?) },
                6 => SV::I128 { value: i128::from_le_bytes(arr(&b)?) },
                7 => SV::U8 { value: u8::from_le_bytes(arr(&b)?) },
                8 => SV::U16 { value: u16::from_le_bytes(arr(&b)?) },
                9 => SV::U32 { value: u32::from_le_bytes(arr(&b)?) },
                10 => SV::U64 { value: u64::from_le_bytes(arr(&b)?) },
                11 => SV::U128 { value: u128::from_le_bytes(arr(&b)?) },
                _ => return None,
            }
        }
        "str" => SV::String { value: String::from_utf8(bytes_of(&j["b"])?).ok()? },
        "arr" => SV::Array { element_value_kind: kind(&j["ek"])?, elements: children(j)? },
        "tup" => SV::Tuple { fields: children(j)? },
        "enum" => SV::Enum { discriminator: u8::try_from(j["d"].as_u64()?).ok()?, fields: children(j)? },
        "map" => {
            let c = children(j)?;
            if c.len() % 2 != 0 {
                return None;
            }
            let mut entries = vec![];
            let mut it = c.into_iter();
            while let (Some(k), Some(v)) = (it.next(), it.next()) {
                entries.push((k, v));
            }
            SV::Map { key_value_kind: kind(&j["kk"])?, value_value_kind: kind(&j["vk"])?, entries }
        }
        "cust" => SV::Custom {
            value: F::cust_from(u8::try_from(j["k"].as_u64()?).ok()?, j["c"]["f"].as_str()?, &bytes_of(&j["c"]["b"])?)?,
        },
        _ => return None,
    })
}

fn to_json<F: Flav>(v: &V<F>) -> J {
    use sbor::Value as SV;
    let int = |k: u8, b: Vec<u8>| json!({"t": "int", "k": k, "b": b});
    match v {
        SV::Bool { value } => json!({"t": "bool", "v": value}),
        SV::I8 { value } => int(2, value.to_le_bytes().to_vec()),
        SV::I16 { value } => int(3, value.to_le_bytes().to_vec()),
        SV::I32 { value } => int(4, value.to_le_bytes().to_vec()),
        SV::I64 { value } => int(5, value.to_le_bytes().to_vec()),
        SV::I128 { value } => int(6, value.to_le_bytes().to_vec()),
        SV::U8 { value } => int(7, value.to_le_bytes().to_vec()),
        SV::U16 { value } => int(8, value.to_le_bytes().to_vec()),
        SV::U32 { value } => int(9, value.to_le_bytes().to_vec()),
        SV::U64 { value } => int(10, value.to_le_bytes().to_vec()),
        SV::U128 { value } => int(11, value.to_le_bytes().to_vec()),
        SV::String { value } => json!({"t": "str", "b": value.as_bytes()}),
        SV::Array { element_value_kind, elements } => {
            json!({"t": "arr", "ek": element_value_kind.as_u8(), "e": elements.iter().map(to_json::<F>).collect::<Vec<_>>()})
        }
        SV::Tuple { fields } => json!({"t": "tup", "e": fields.iter().map(to_json::<F>).collect::<Vec<_>>()}),
        SV::Enum { discriminator, fields } => {
            json!({"t": "enum", "d": discriminator, "e": fields.iter().map(to_json::<F>).collect::<Vec<_>>()})
        }
        SV::Map { key_value_kind, value_value_kind, entries } => {
            let mut e = vec![];
            for (k, v) in entries {
                e.push(to_json::<F>(k));
                e.push(to_json::<F>(v));
            }
            json!({"t": "map", "kk": key_value_kind.as_u8(), "vk": value_value_kind.as_u8(), "e": e})
        }
        SV::Custom { value } => {
            let (k, f, b) = F::cust_to(value);
            json!({"t": "cust", "k": k, "c": {"f": f, "b": b}})
        }
    }
}

// ---------------------------------------------------------------------------------------------
// the three consumers, each under catch_unwind; verdict strings: "ok" | "err:<variant>" | "panic"

fn variant<E: Debug>(e: &E) -> String {
    let s = format!("{:?}", e);
    s.split(|c: char| !c.is_alphanumeric()).next().unwrap_or("").to_string()
}

fn encode<F: Flav>(v: &V<F>, d: usize) -> (String, Vec<u8>) {
    match catch(|| {
        let mut buf = Vec::new();
        let enc = VecEncoder::<F::X>::new(&mut buf, d);
        enc.encode_payload(v, F::PREFIX).map(|_| buf)
    }) {
        Ok(Ok(b)) => ("ok".into(), b),
        Ok(Err(e)) => (format!("err:{}", variant(&e)), vec![]),
        Err(_) => ("panic".into(), vec![]),
    }
}

fn decode<F: Flav>(b: &[u8], d: usize) -> (String, Option<V<F>>) {
    match catch(|| VecDecoder::<F::X>::new(b, d).decode_payload::<V<F>>(F::PREFIX)) {
        Ok(Ok(v)) => ("ok".into(), Some(v)),
        Ok(Err(e)) => (format!("err:{}", variant(&e)), None),
        Err(_) => ("panic".into(), None),
    }
}

/// runs the VecTraverser to completion; returns verdict and the deepest level of any value seen
fn traverse<F: Flav>(b: &[u8], d: usize) -> (String, usize) {
    match catch(|| {
        let mut t = VecTraverser::<F::T>::new(
            b,
            ExpectedStart::PayloadPrefix(F::PREFIX),
            VecTraverserConfig { max_depth: d, check_exact_end: true },
        );
        let mut deepest = 0usize;
        let mut steps = 0usize;
        loop {
            let ev = t.next_event();
            steps += 1;
            match &ev.event {
                TraversalEvent::ContainerStart(_) | TraversalEvent::TerminalValue(_) | TraversalEvent::TerminalValueBatch(_) => {
                    deepest = deepest.max(ev.location.ancestor_path.len() + 1);
                }
                TraversalEvent::ContainerEnd(_) => {}
                TraversalEvent::End => return ("ok".to_string(), deepest),
                TraversalEvent::DecodeError(e) => return (format!("err:{}", variant(e)), deepest),
            }
            if steps > 10 * b.len() + 100 {
                return ("err:NoProgress".to_string(), deepest);
            }
        }
    }) {
        Ok(r) => r,
        Err(_) => ("panic".into(), 0),
    }
}

// ---------------------------------------------------------------------------------------------
// G: replay of TLC-generated cases

macro_rules! by_flavour {
    ($f:expr, $fun:ident, $($arg:expr),*) => {
        match $f {
            "basic" => $fun::<Basic>($($arg),*),
            "scrypto" => $fun::<Scrypto>($($arg),*),
            _ => $fun::<Manifest>($($arg),*),
        }
    };
}


pub fn run(mode: &str, args: &Args) {
    match mode {
        "replayv" => replay(args, true),
        "replayb" => replay(args, false),
        "record" => record(args),
        "probe" => probe(),
        _ => panic!("mode"),
    }
}

/// mismatch reporting: only the kinds of the selected property, at most 15 lines per kind (the shared
/// Out caps the total at 200 lines), all of them counted
struct Rep {
    out: Out,
    kinds: Option<Vec<String>>,
    counts: std::collections::BTreeMap<String, usize>,
}
impl Rep {
    fn mismatch(&mut self, i: usize, d: usize, what: &str, exp: J, got: J) {
        if let Some(k) = &self.kinds {
            if !k.iter().any(|x| x == what) {
                return;
            }
        }
        let c = self.counts.entry(what.to_string()).or_insert(0);
        *c += 1;
        if *c <= 15 {
            self.out.mismatch(i, d, what, exp, got);
        }
    }
}

fn replay(args: &Args, values: bool) {
    let cases = read_lines();
    let kinds = args.str("kinds", "");
    let mut out = Rep {
        out: Out::new(),
        kinds: if kinds.is_empty() { None } else { Some(kinds.split(',').map(|x| x.replace('_', " ")).collect()) },
        counts: Default::default(),
    };
    let mut steps = 0usize;
    for (i, c) in cases.iter().enumerate() {
        let f = c["f"].as_str().unwrap();
        steps += if values { by_flavour!(f, replay_value, i, c, &mut out) } else { by_flavour!(f, replay_bytes, i, c, &mut out) };
    }
    let counts = json!(out.counts);
    out.out.emit(&json!({"counts": counts}));
    out.out.done(cases.len(), steps);
}

/// case: {f, v, enc: Enc(f,v), depth: Depth(v), wk: WellKinded(v), cv: ContentValid(f,v)}
fn replay_value<F: Flav>(i: usize, c: &J, out: &mut Rep) -> usize {
    let v = match from_json::<F>(&c["v"]) {
        Some(v) => v,
        None => {
            // the specification only generates Shaped values: each must exist as a Rust value, except
            // Scrypto non-fungible ids with invalid content, whose constructors refuse them
            if !(F::NAME == "scrypto" && !c["cv"].as_bool().unwrap()) {
                out.mismatch(i, 0, "value not constructible", c["v"].clone(), json!(null));
            }
            return 1;
        }
    };
    let depth = c["depth"].as_u64().unwrap() as usize;
    let wk = c["wk"].as_bool().unwrap();
    let cv = c["cv"].as_bool().unwrap();
    let exp_enc = bytes_of(&c["enc"]).unwrap();
    let mut n = 0;
    // encoder verdict at depth-1, depth, 64: ok iff well-kinded and deep enough
    for d in [depth - 1, depth, 64] {
        let (verdict, bytes) = encode::<F>(&v, d);
        n += 1;
        let exp_ok = wk && depth <= d;
        if (verdict == "ok") != exp_ok {
            out.mismatch(i, d, "encode verdict", json!(exp_ok), json!(verdict));
        } else if exp_ok && bytes != exp_enc {
            out.mismatch(i, d, "encoded bytes", json!(exp_enc), json!(bytes));
        }
    }
    if wk {
        // decoding the specified encoding: back to the same value iff the content is valid
        for d in [depth - 1, depth, 64] {
            let (verdict, back) = decode::<F>(&exp_enc, d);
            let (tverdict, tdepth) = traverse::<F>(&exp_enc, d);
            n += 2;
            let exp_ok = cv && depth <= d;
            if (verdict == "ok") != exp_ok {
                out.mismatch(i, d, if !cv { "decode verdict (invalid content)" } else if d == 64 { "decode verdict@64" } else { "decode verdict" }, json!(exp_ok), json!(verdict));
            }
            if (tverdict == "ok") != exp_ok {
                out.mismatch(i, d, if d == 0 { "traverse verdict at depth limit 0" } else { "traverse verdict" }, json!(exp_ok), json!(tverdict));
            }
            if let Some(b) = back {
                if b != v || to_json::<F>(&b) != c["v"] {
                    out.mismatch(i, d, "decoded value", c["v"].clone(), to_json::<F>(&b));
                }
                if tverdict == "ok" && tdepth != depth {
                    out.mismatch(i, d, "traverser depth", json!(depth), json!(tdepth));
                }
            }
        }
        // C20 statement, first sentence: what the real encoder accepts must decode back
        if !cv {
            let (everdict, bytes) = encode::<F>(&v, 64);
            if everdict == "ok" {
                let (dverdict, _) = decode::<F>(&bytes, 64);
                n += 1;
                if dverdict != "ok" {
                    out.mismatch(i, 64, "encodable value does not decode", json!("ok"), json!(dverdict));
                }
            }
        }
    }
    n
}

/// case: {f, b, acc: [Accept at d=0,1,2,3,4,5,64], v: [Dec(f,b)] or []}
fn replay_bytes<F: Flav>(i: usize, c: &J, out: &mut Rep) -> usize {
    let b = bytes_of(&c["b"]).unwrap();
    let acc: Vec<bool> = c["acc"].as_array().unwrap().iter().map(|x| x.as_bool().unwrap()).collect();
    let mut n = 0;
    for (j, d) in [0usize, 1, 2, 3, 4, 5, 64].into_iter().enumerate() {
        let (verdict, val) = decode::<F>(&b, d);
        let (tverdict, _) = traverse::<F>(&b, d);
        n += 2;
        if (verdict == "ok") != acc[j] {
            out.mismatch(i, d, if d == 64 { "decode verdict@64" } else { "decode verdict" }, json!(acc[j]), json!(verdict));
        }
        if (tverdict == "ok") != acc[j] {
            out.mismatch(i, d, if d == 0 { "traverse verdict at depth limit 0" } else { "traverse verdict" }, json!(acc[j]), json!(tverdict));
        }
        if let (Some(val), true) = (val, d == 64) {
            let exp = &c["v"][0];
            if &to_json::<F>(&val) != exp {
                out.mismatch(i, d, "decoded value", exp.clone(), to_json::<F>(&val));
            }
            let (everdict, re) = encode::<F>(&val, 64);
            n += 1;
            if everdict != "ok" || re != b {
                out.mismatch(i, d, "re-encoded bytes", json!(b), json!({"verdict": everdict, "bytes": re}));
            }
        }
    }
    n
}

// ---------------------------------------------------------------------------------------------
// T: seeded random + mutation traffic

fn rand_bytes(rng: &mut StdRng, n: usize) -> Vec<u8> {
    match rng.gen_range(0..4) {
        0 => vec![0; n],
        1 => vec![0xff; n],
        _ => (0..n).map(|_| rng.gen()).collect(),
    }
}

const ENTITY: [u8; 22] = [13, 134, 131, 130, 192, 193, 194, 195, 196, 197, 198, 104, 209, 210, 81, 82, 93, 88, 154, 152, 248, 176];
const IDCH: &[u8] = b"abcxyzABCXYZ0189_";
const STRS: [&str; 8] = ["", "a", "hello", "é", "日本", "\u{10FFFF}", "a\u{0}b", "𝔘𝔫𝔦"];

/// random leaf; `bad` = produce custom content that only decoders validate (manifest flavour)
fn gen_leaf(rng: &mut StdRng, f: &str, kind: Option<u8>, bad: &mut Option<String>) -> J {
    let custom: &[u8] = match f {
        "scrypto" => &[0x80, 0x90, 0xa0, 0xb0, 0xc0],
        "manifest" => &[0x80, 0x81, 0x82, 0x83, 0x84, 0x85, 0x86, 0x87, 0x88],
        _ => &[],
    };
    let k = kind.unwrap_or_else(|| {
        if !custom.is_empty() && rng.gen_bool(0.3) {
            custom[rng.gen_range(0..custom.len())]
        } else {
            rng.gen_range(1..=12)
        }
    });
    let nf = |rng: &mut StdRng, bad: &mut Option<String>| -> J {
        let want_bad = f == "manifest" && rng.gen_bool(0.03);
        match rng.gen_range(0..4) {
            0 => {
                let hi = if rng.gen_bool(0.1) { 64 } else { 6 };
                let n = if want_bad { [0usize, 65][rng.gen_range(0..2)] } else { rng.gen_range(1..=hi) };
                let mut s: Vec<u8> = (0..n).map(|_| IDCH[rng.gen_range(0..IDCH.len())]).collect();
                if want_bad && rng.gen_bool(0.5) {
                    s = vec![b'a', b'-'];
                }
                if want_bad {
                    *bad = Some("invalid-custom:nf-string".into());
                }
                json!({"f": "str", "b": s})
            }
            1 => json!({"f": "int", "b": rand_bytes(rng, 8)}),
            2 => {
                let hi = if rng.gen_bool(0.1) { 64 } else { 5 };
                let n = if want_bad { [0usize, 65][rng.gen_range(0..2)] } else { rng.gen_range(1..=hi) };
                if want_bad {
                    *bad = Some("invalid-custom:nf-bytes".into());
                }
                json!({"f": "bytes", "b": rand_bytes(rng, n)})
            }
            _ => json!({"f": "ruid", "b": rand_bytes(rng, 32)}),
        }
    };
    match k {
        1 => json!({"t": "bool", "v": rng.gen_bool(0.5)}),
        2..=11 => {
            let w = [1, 2, 4, 8, 16, 1, 2, 4, 8, 16][(k - 2) as usize];
            let mut b = rand_bytes(rng, w);
            if rng.gen_bool(0.2) {
                b = vec![0; w];
                b[w - 1] = 0x80; // MIN of the signed kinds
            }
            json!({"t": "int", "k": k, "b": b})
        }
        12 => json!({"t": "str", "b": STRS[rng.gen_range(0..STRS.len())].as_bytes()}),
        _ => {
            let c = match (f, k) {
                ("scrypto", 0x80) | ("scrypto", 0x90) => json!({"f": "raw", "b": rand_bytes(rng, 30)}),
                ("scrypto", 0xa0) | ("manifest", 0x85) => json!({"f": "raw", "b": rand_bytes(rng, 24)}),
                ("scrypto", 0xb0) | ("manifest", 0x86) | ("manifest", 0x84) => json!({"f": "raw", "b": rand_bytes(rng, 32)}),
                ("scrypto", 0xc0) | ("manifest", 0x87) => nf(rng, bad),
                ("manifest", 0x80) => {
                    if rng.gen_bool(0.4) {
                        json!({"f": "named", "b": rand_bytes(rng, 4)})
                    } else {
                        let mut b = rand_bytes(rng, 30);
                        b[0] = ENTITY[rng.gen_range(0..ENTITY.len())];
                        if rng.gen_bool(0.03) {
                            b[0] = [0u8, 1, 12, 14, 255][rng.gen_range(0..5)];
                            *bad = Some("invalid-custom:static-address".into());
                        }
                        json!({"f": "static", "b": b})
                    }
                }
                ("manifest", 0x83) => json!({"f": "raw", "b": [rng.gen_range(0..2u8)]}),
                ("manifest", _) => json!({"f": "raw", "b": rand_bytes(rng, 4)}),
                _ => unreachable!(),
            };
            json!({"t": "cust", "k": k, "c": c})
        }
    }
}

fn kind_of(j: &J) -> u8 {
    match j["t"].as_str().unwrap() {
        "bool" => 1,
        "int" | "cust" => j["k"].as_u64().unwrap() as u8,
        "str" => 12,
        "arr" => 32,
        "tup" => 33,
        "enum" => 34,
        "map" => 35,
        _ => unreachable!(),
    }
}

/// random value tree of (about) `budget` nodes; all children of arrays / maps get one kind
fn gen_tree(rng: &mut StdRng, f: &str, budget: &mut i32, kind: Option<u8>, bad: &mut Option<String>) -> J {
    *budget -= 1;
    let k = kind.unwrap_or_else(|| if *budget > 0 && rng.gen_bool(0.55) { rng.gen_range(32..=35) } else { 0 });
    if !(32..=35).contains(&k) {
        return gen_leaf(rng, f, if k == 0 { None } else { Some(k) }, bad);
    }
    let n = if *budget <= 0 { 0 } else { rng.gen_range(0..=std::cmp::min(4, *budget)) as usize };
    let any_kind = |rng: &mut StdRng, f: &str| -> u8 {
        let custom: &[u8] = match f {
            "scrypto" => &[0x80, 0x90, 0xa0, 0xb0, 0xc0],
            "manifest" => &[0x80, 0x81, 0x82, 0x83, 0x84, 0x85, 0x86, 0x87, 0x88],
            _ => &[],
        };
        let r = rng.gen_range(0..20);
        if r < 12 {
            (r + 1) as u8
        } else if r < 16 || custom.is_empty() {
            32 + (r % 4) as u8
        } else {
            custom[rng.gen_range(0..custom.len())]
        }
    };
    match k {
        33 => json!({"t": "tup", "e": (0..n).map(|_| gen_tree(rng, f, budget, None, bad)).collect::<Vec<_>>()}),
        34 => json!({"t": "enum", "d": rng.gen::<u8>(), "e": (0..n).map(|_| gen_tree(rng, f, budget, None, bad)).collect::<Vec<_>>()}),
        32 => {
            let ek = any_kind(rng, f);
            let n = if ek == 7 && rng.gen_bool(0.5) { rng.gen_range(0..40) } else { n };
            json!({"t": "arr", "ek": ek, "e": (0..n).map(|_| gen_tree(rng, f, budget, Some(ek), bad)).collect::<Vec<_>>()})
        }
        _ => {
            let (kk, vk) = (any_kind(rng, f), any_kind(rng, f));
            let mut e = vec![];
            for _ in 0..(n / 2) {
                e.push(gen_tree(rng, f, budget, Some(kk), bad));
                e.push(gen_tree(rng, f, budget, Some(vk), bad));
            }
            json!({"t": "map", "kk": kk, "vk": vk, "e": e})
        }
    }
}

/// a chain of `levels` nested containers of the given shape around a leaf (total depth levels + 1),
/// or around nothing (innermost container empty, total depth = levels)
fn nest(shape: &str, levels: usize, with_leaf: bool) -> J {
    let leaf = json!({"t": "int", "k": 7, "b": [7]});
    let mut v: Option<J> = if with_leaf { Some(leaf) } else { None };
    for i in 0..levels {
        let inner: Vec<J> = v.into_iter().collect();
        let ik = inner.first().map(kind_of);
        let sh = if shape == "mixed" { ["arr", "tup", "enum", "mapk", "mapv"][i % 5] } else { shape };
        v = Some(match sh {
            "arr" => json!({"t": "arr", "ek": ik.unwrap_or(32), "e": inner}),
            "tup" => json!({"t": "tup", "e": inner}),
            "enum" => json!({"t": "enum", "d": (i % 256) as u8, "e": inner}),
            "mapk" => {
                let mut e = inner;
                if !e.is_empty() {
                    e.push(json!({"t": "bool", "v": true}));
                }
                json!({"t": "map", "kk": ik.unwrap_or(35), "vk": 1, "e": e})
            }
            _ => {
                let mut e = inner;
                if !e.is_empty() {
                    e.insert(0, json!({"t": "bool", "v": false}));
                }
                json!({"t": "map", "kk": 1, "vk": ik.unwrap_or(35), "e": e})
            }
        });
    }
    v.unwrap()
}

struct Rec<'a> {
    out: &'a mut Out,
    n: usize,
}

/// one byte-string event: all consumers at limit d and at limit 64
fn bytes_event<F: Flav>(r: &mut Rec, cls: &str, b: &[u8], d: usize) {
    alloc_counter::reset();
    let (dec64, val) = decode::<F>(b, 64);
    let peak = alloc_counter::peak();
    let (trav64, tdepth) = traverse::<F>(b, 64);
    let (dec, _) = decode::<F>(b, d);
    alloc_counter::reset();
    let (trav, _) = traverse::<F>(b, d);
    let tpeak = alloc_counter::peak();
    let (re, enc) = match &val {
        Some(v) => {
            let (v64, bytes) = encode::<F>(v, 64);
            let (vd, _) = encode::<F>(v, d);
            (if v64 == "ok" { bytes } else { vec![] }, vd)
        }
        None => (vec![], "na".to_string()),
    };
    let typed = typed_decoders::<F>(b);
    let panic = [&dec64, &trav64, &dec, &trav, &enc, &typed].iter().any(|s| s.as_str() == "panic");
    r.out.emit(&json!({"k": "bytes", "cls": cls, "f": F::NAME, "b": b, "d": d,
        "dec": dec == "ok", "trav": trav == "ok", "dec64": dec64 == "ok", "trav64": trav64 == "ok",
        "re": re, "enc": enc == "ok", "tdepth": tdepth, "peak": peak.max(tpeak), "vsz": std::mem::size_of::<V<F>>(),
        "panic": panic, "why": [dec, trav, dec64, trav64, enc, typed]}));
    r.n += 1;
}

/// typed decoders of the same payload: only "never panics" is of interest (not compared for depth, L11)
fn typed_decoders<F: Flav>(b: &[u8]) -> String {
    let r = catch(|| match F::NAME {
        "basic" => {
            let _ = basic_decode::<(u8, Vec<String>)>(b);
            let _ = basic_decode::<BTreeMap<String, u32>>(b);
            let _ = basic_decode::<Option<Vec<u8>>>(b);
            let _ = basic_decode::<BasicOwnedRawValue>(b);
            let _ = basic_decode::<Vec<(u64, bool)>>(b);
            let _ = basic_decode::<BTreeSet<u8>>(b);
        }
        "scrypto" => {
            let _ = scrypto_decode::<ScryptoOwnedRawValue>(b);
            let _ = scrypto_decode::<NonFungibleLocalId>(b);
            let _ = scrypto_decode::<BTreeMap<NonFungibleLocalId, Decimal>>(b);
            let _ = scrypto_decode::<(Reference, Own, PreciseDecimal)>(b);
            let _ = scrypto_decode::<Vec<GlobalAddress>>(b);
            let _ = scrypto_decode::<IndexMap<String, Vec<u8>>>(b);
            let _ = scrypto_decode::<radix_engine::transaction::TransactionResult>(b);
            let _ = scrypto_decode::<StateUpdates>(b);
        }
        _ => {
            let _ = manifest_decode::<ManifestAddress>(b);
            let _ = manifest_decode::<ManifestBucketBatch>(b);
            let _ = manifest_decode::<ManifestProofBatch>(b);
            let _ = manifest_decode::<Vec<ManifestNonFungibleLocalId>>(b);
            let _ = manifest_decode::<(ManifestExpression, ManifestBlobRef, ManifestDecimal)>(b);
            let _ = manifest_decode::<radix_transactions::model::InstructionV1>(b);
            let _ = manifest_decode::<radix_transactions::model::InstructionV2>(b);
        }
    });
    if r.is_ok() { "ok".into() } else { "panic".into() }
}

/// one value event: the encoder on a harness-built tree, and what the decoder makes of its output
fn value_event<F: Flav>(r: &mut Rec, cls: &str, tree: &J, d: usize) -> Option<Vec<u8>> {
    let v = from_json::<F>(tree)?;
    let (enc, bytes) = encode::<F>(&v, d);
    if bytes.len() > 300 {
        return None; // beyond the size TraceSbor re-parses; the caller draws another tree
    }
    let (dec, back) = if enc == "ok" { decode::<F>(&bytes, 64) } else { ("na".to_string(), None) };
    let back_j: Vec<J> = back.iter().map(to_json::<F>).collect();
    r.out.emit(&json!({"k": "val", "cls": cls, "f": F::NAME, "v": tree, "d": d, "enc": enc == "ok", "b": bytes,
        "dec": dec == "ok", "back": back_j, "panic": enc == "panic" || dec == "panic", "why": [enc, dec]}));
    r.n += 1;
    let (e64, b64) = encode::<F>(&v, 64);
    if e64 == "ok" { Some(b64) } else { None }
}

fn mutate(rng: &mut StdRng, p: &[u8], f: &str) -> (String, Vec<u8>) {
    let mut b = p.to_vec();
    let kinds: &[u8] = match f {
        "scrypto" => &[1, 2, 7, 9, 12, 32, 33, 34, 35, 0x80, 0x90, 0xa0, 0xb0, 0xc0, 0x0d, 0x24, 0x81],
        "manifest" => &[1, 2, 7, 9, 12, 32, 33, 34, 35, 0x80, 0x83, 0x87, 0x88, 0x89, 0x0d, 0x24],
        _ => &[1, 2, 7, 9, 12, 32, 33, 34, 35, 0x0d, 0x24, 0x80],
    };
    let pos = if b.len() > 1 { rng.gen_range(1..b.len()) } else { 0 };
    match rng.gen_range(0..10) {
        0 => {
            b[pos] ^= 1 << rng.gen_range(0..8);
            ("flip-bit".into(), b)
        }
        1 => {
            b[pos] = rng.gen();
            ("set-byte".into(), b)
        }
        2 => {
            b.truncate(pos);
            ("truncate".into(), b)
        }
        3 => {
            b.push([0u8, 1, 0x21, 0xff][rng.gen_range(0..4)]);
            ("append".into(), b)
        }
        4 => {
            // length-prefix rewrites: non-canonical continuation forms
            let x = b[pos];
            b[pos] = x | 0x80;
            b.insert(pos + 1, [0u8, 1][rng.gen_range(0..2)]);
            ("size-two-bytes".into(), b)
        }
        5 => {
            b.splice(pos..pos + 1, [0xff, 0xff, 0xff, 0x7f]);
            ("size-huge".into(), b)
        }
        6 => {
            b.splice(pos..pos + 1, [0x80, 0x80, 0x80, 0x80, 0x01]);
            ("size-five-bytes".into(), b)
        }
        7 => {
            // kind swap: replace some byte that is a value kind by another kind
            let cand: Vec<usize> = (1..b.len()).filter(|i| kinds.contains(&b[*i])).collect();
            if let Some(i) = cand.choose(rng) {
                b[*i] = kinds[rng.gen_range(0..kinds.len())];
            }
            ("kind-swap".into(), b)
        }
        8 => {
            b[pos] = b[pos].wrapping_add(1);
            ("increment".into(), b)
        }
        _ => {
            b[0] = [0x5b, 0x5c, 0x4d, 0x00][rng.gen_range(0..4)];
            ("prefix".into(), b)
        }
    }
}

fn record(args: &Args) {
    let seed = args.u64("seed", 1);
    let n = args.u64("n", 1000) as usize;
    let maxlen = args.u64("maxlen", 300) as usize;
    let mut rng = StdRng::seed_from_u64(seed);
    let mut out = Out::new();
    let mut r = Rec { out: &mut out, n: 0 };
    let flavours = ["basic", "scrypto", "manifest"];
    // --- adversarial classes: nesting exactly at d-1, d, d+1 for d in {1, 2, 64} (and the degenerate limit 0), every container kind
    for f in flavours {
        for d in [0usize, 1, 2, 64] {
            for shape in ["arr", "tup", "enum", "mapk", "mapv", "mixed"] {
                for with_leaf in [true, false] {
                    for total in [d.saturating_sub(1), d, d + 1] {
                        let levels = if with_leaf { total.saturating_sub(1) } else { total };
                        if total == 0 || (levels == 0 && !with_leaf) {
                            continue;
                        }
                        let tree = if levels == 0 { json!({"t": "int", "k": 7, "b": [7]}) } else { nest(shape, levels, with_leaf) };
                        let cls = format!("nest:{}:d{}", shape, d);
                        let bytes = by_flavour!(f, value_event, &mut r, &cls, &tree, d);
                        if let Some(b) = bytes {
                            by_flavour!(f, bytes_event, &mut r, &cls, &b, d);
                        } else {
                            // deeper than 64: build the payload with a generous encoder limit
                            let b = by_flavour!(f, encode_deep, &tree);
                            by_flavour!(f, bytes_event, &mut r, &cls, &b, d);
                        }
                    }
                }
            }
        }
        // --- declared lengths far larger than the remaining input, on every container / string / custom
        let p = [0x5bu8, 0x5c, 0x4d][flavours.iter().position(|x| *x == f).unwrap()];
        let huge: [&[u8]; 4] = [&[0xff, 0xff, 0xff, 0x7f], &[0x80, 0x80, 0x80, 0x40], &[0xff, 0xff, 0x7f], &[0xff, 0x7f]];
        for h in huge {
            let mut heads: Vec<Vec<u8>> = vec![vec![p, 12], vec![p, 33], vec![p, 34, 0], vec![p, 35, 7, 7], vec![p, 35, 33, 12]];
            for ek in [1u8, 2, 6, 7, 11, 12, 32, 33, 34, 35] {
                heads.push(vec![p, 32, ek]);
            }
            if f == "scrypto" {
                heads.extend([vec![p, 0xc0, 0], vec![p, 0xc0, 2], vec![p, 32, 0xc0], vec![p, 32, 0x80]]);
            }
            if f == "manifest" {
                heads.extend([vec![p, 0x87, 0], vec![p, 0x87, 2], vec![p, 32, 0x87], vec![p, 32, 0x83]]);
            }
            for head in heads {
                for tail in [0usize, 1, 40] {
                    let mut b = head.clone();
                    b.extend_from_slice(h);
                    b.extend(std::iter::repeat(if tail == 40 { 0x21 } else { 1 }).take(tail));
                    by_flavour!(f, bytes_event, &mut r, "huge-length", &b, 64);
                    // the same header nested 1..8 levels deep in one-element tuples: every level pre-allocates
                    let mut nested = vec![p];
                    for _ in 0..8 {
                        nested.extend([33u8, 1]);
                    }
                    nested.extend_from_slice(&b[1..]);
                    by_flavour!(f, bytes_event, &mut r, "huge-length-nested", &nested, 64);
                }
            }
        }
    }
    // --- deterministic boundary payloads: the full product, never subsampled
    for f in flavours {
        let p = [0x5bu8, 0x5c, 0x4d][flavours.iter().position(|x| *x == f).unwrap()];
        // every byte value as root value kind and as array element kind
        for k in 0..=255u8 {
            by_flavour!(f, bytes_event, &mut r, "boundary:root-kind", &[p, k, 1], 64);
            by_flavour!(f, bytes_event, &mut r, "boundary:element-kind", &[p, 32, k, 0], 64);
        }
        // every size encoding class on every size-bearing header, with exactly n / n-1 / n+1 elements behind it
        let sizes: [(&[u8], usize); 14] = [
            (&[0], 0), (&[0x80, 0], 0), (&[1], 1), (&[0x81, 0], 1), (&[0x7f], 127), (&[0x80, 1], 128), (&[0x80, 0x81, 0], 128),
            (&[0xff, 0x7f], 16383), (&[0x80, 0x80, 1], 16384), (&[0xff, 0xff, 0x7f], 2097151), (&[0x80, 0x80, 0x80, 1], 2097152),
            (&[0xff, 0xff, 0xff, 0x7f], 268435455), (&[0x80, 0x80, 0x80, 0x80, 1], 0), (&[0x80], 0),
        ];
        let mut headers: Vec<(Vec<u8>, Vec<u8>)> = vec![
            (vec![p, 12], vec![b'a']), (vec![p, 32, 7], vec![7]), (vec![p, 32, 1], vec![1]), (vec![p, 32, 33], vec![0]),
            (vec![p, 33], vec![1, 1]), (vec![p, 34, 0], vec![7, 9]), (vec![p, 35, 7, 1], vec![7, 1]), (vec![p, 35, 12, 33], vec![1, b'k', 0]),
        ];
        if f == "scrypto" { headers.extend([(vec![p, 0xc0, 0], vec![b'a']), (vec![p, 0xc0, 2], vec![9])]); }
        if f == "manifest" { headers.extend([(vec![p, 0x87, 0], vec![b'_']), (vec![p, 0x87, 2], vec![0])]); }
        for (head, unit) in headers.iter() {
            for (enc, n) in sizes.iter() {
                let counts: Vec<usize> = if *n <= 128 { vec![*n, n.saturating_sub(1), n + 1] } else { vec![0, 3] };
                for c in counts {
                    if c * unit.len() + head.len() + enc.len() > 300 { continue; }
                    let mut b = head.clone();
                    b.extend_from_slice(enc);
                    for _ in 0..c { b.extend_from_slice(unit); }
                    by_flavour!(f, bytes_event, &mut r, "boundary:size", &b, 64);
                }
            }
        }
        // bool bodies, UTF-8 boundaries
        for v in [0u8, 1, 2, 0x7f, 0x80, 0xff] { by_flavour!(f, bytes_event, &mut r, "boundary:bool", &[p, 1, v], 64); }
        let utf8: [&[u8]; 14] = [&[0x7f], &[0x80], &[0xc2, 0x80], &[0xc1, 0xbf], &[0xc0, 0x80], &[0xdf, 0xbf], &[0xe0, 0xa0, 0x80], &[0xe0, 0x9f, 0xbf],
            &[0xed, 0x9f, 0xbf], &[0xed, 0xa0, 0x80], &[0xef, 0xbf, 0xbf], &[0xf0, 0x90, 0x80, 0x80], &[0xf4, 0x8f, 0xbf, 0xbf], &[0xf4, 0x90, 0x80, 0x80]];
        for u in utf8 {
            let mut b = vec![p, 12, u.len() as u8];
            b.extend_from_slice(u);
            by_flavour!(f, bytes_event, &mut r, "boundary:utf8", &b, 64);
            let mut t = b.clone();
            t.pop();
            t[2] -= 1;
            by_flavour!(f, bytes_event, &mut r, "boundary:utf8-truncated", &t, 64);
        }
        // custom value bodies: fixed sizes -1 / exact / +1, discriminators, content limits
        let fixed: Vec<(u8, usize)> = match f {
            "scrypto" => vec![(0x80, 30), (0x90, 30), (0xa0, 24), (0xb0, 32)],
            "manifest" => vec![(0x81, 4), (0x82, 4), (0x83, 1), (0x84, 32), (0x85, 24), (0x86, 32), (0x88, 4)],
            _ => vec![],
        };
        for (k, n) in fixed {
            for len in [n - 1, n, n + 1] {
                for fillb in [0u8, 1, 0xff] {
                    let mut b = vec![p, k];
                    b.extend(std::iter::repeat(fillb).take(len));
                    by_flavour!(f, bytes_event, &mut r, "boundary:custom-fixed", &b, 64);
                }
            }
        }
        let nf: Option<u8> = match f { "scrypto" => Some(0xc0), "manifest" => Some(0x87), _ => None };
        if let Some(k) = nf {
            for disc in 0..=5u8 {
                for body in [0usize, 1, 7, 8, 9, 31, 32, 33, 64, 65, 66] {
                    // as length-prefixed content (discriminators 0 and 2) and as raw content (1 and 3)
                    let mut b = vec![p, k, disc];
                    if disc == 0 || disc == 2 { b.push(body as u8); }
                    b.extend(std::iter::repeat(b'a').take(body));
                    by_flavour!(f, bytes_event, &mut r, "boundary:nf-id", &b, 64);
                }
            }
            for ch in [b'_', b'0', b'9', b'A', b'Z', b'a', b'z', b'/', b':', b'@', b'[', b'`', b'{', b'-', b' ', 0u8, 0x7f, 0x80, 0xc3] {
                by_flavour!(f, bytes_event, &mut r, "boundary:nf-char", &[p, k, 0, 1, ch], 64);
            }
        }
        if f == "manifest" {
            for first in 0..=255u8 {
                let mut b = vec![p, 0x80, 0, first];
                b.extend(std::iter::repeat(3u8).take(29));
                by_flavour!(f, bytes_event, &mut r, "boundary:address-entity-byte", &b, 64);
            }
            for (disc, len) in [(0u8, 29usize), (0, 31), (1, 3), (1, 4), (1, 5), (2, 4), (255, 4)] {
                let mut b = vec![p, 0x80, disc];
                b.extend(std::iter::repeat(13u8).take(len));
                by_flavour!(f, bytes_event, &mut r, "boundary:address-shape", &b, 64);
            }
        }
    }
    // --- values whose custom content only the decoders validate (constructible in the manifest flavour only)
    let invalid: Vec<(&str, J)> = vec![
        ("static-address", json!({"t": "cust", "k": 128, "c": {"f": "static", "b": vec![0u8; 30]}})),
        ("static-address", json!({"t": "cust", "k": 128, "c": {"f": "static", "b": vec![255u8; 30]}})),
        ("nf-string", json!({"t": "cust", "k": 135, "c": {"f": "str", "b": []}})),
        ("nf-string", json!({"t": "cust", "k": 135, "c": {"f": "str", "b": [97, 45]}})),
        ("nf-string", json!({"t": "cust", "k": 135, "c": {"f": "str", "b": vec![97u8; 65]}})),
        ("nf-string", json!({"t": "cust", "k": 135, "c": {"f": "str", "b": [195, 169]}})),
        ("nf-bytes", json!({"t": "cust", "k": 135, "c": {"f": "bytes", "b": []}})),
        ("nf-bytes", json!({"t": "cust", "k": 135, "c": {"f": "bytes", "b": vec![1u8; 65]}})),
    ];
    for (name, leaf) in invalid.iter() {
        let k = kind_of(leaf);
        for tree in [leaf.clone(), json!({"t": "tup", "e": [leaf]}), json!({"t": "arr", "ek": k, "e": [leaf, leaf]}),
                     json!({"t": "map", "kk": 12, "vk": k, "e": [{"t": "str", "b": [97]}, leaf]})] {
            let cls = format!("invalid-custom:{}", name);
            value_event::<Manifest>(&mut r, &cls, &tree, 64);
            // the scrypto flavour refuses to construct such ids: nothing to record there
            let _ = from_json::<Scrypto>(&json!({"t": "cust", "k": 192, "c": leaf["c"].clone()}));
        }
    }
    // --- random values, their payloads and mutants
    while r.n < n {
        let f = flavours[rng.gen_range(0..3)];
        let mut budget = [1, 3, 8, 20, 40][rng.gen_range(0..5)];
        let mut bad = None;
        let mut tree = gen_tree(&mut rng, f, &mut budget, None, &mut bad);
        let mut cls = bad.clone().unwrap_or_else(|| "random".to_string());
        if bad.is_none() && rng.gen_bool(0.05) {
            // ill-kinded: wrap into an array / map announcing another kind
            let k = kind_of(&tree);
            let other = if k == 1 { 7 } else { 1 };
            tree = if rng.gen_bool(0.5) {
                json!({"t": "arr", "ek": other, "e": [tree]})
            } else {
                json!({"t": "map", "kk": 1, "vk": other, "e": [{"t": "bool", "v": true}, tree]})
            };
            cls = "ill-kinded".into();
        }
        let d = [1usize, 2, 3, 4, 5, 64][rng.gen_range(0..6)];
        let payload = match by_flavour!(f, value_event, &mut r, &cls, &tree, d) {
            Some(b) if b.len() <= maxlen => b,
            _ => continue,
        };
        by_flavour!(f, bytes_event, &mut r, &cls, &payload, d);
        for _ in 0..rng.gen_range(1..5) {
            let (m, mut b) = mutate(&mut rng, &payload, f);
            if rng.gen_bool(0.15) {
                b = mutate(&mut rng, &b, f).1;
            }
            if b.len() <= maxlen + 8 {
                let d = [1usize, 2, 3, 4, 64, 64][rng.gen_range(0..6)];
                by_flavour!(f, bytes_event, &mut r, &format!("mut:{}", m), &b, d);
            }
        }
    }
    out.flush();
}

fn encode_deep<F: Flav>(tree: &J) -> Vec<u8> {
    let v = from_json::<F>(tree).expect("nest tree");
    let (verdict, b) = encode::<F>(&v, 1000);
    assert_eq!(verdict, "ok");
    b
}

// ---------------------------------------------------------------------------------------------
/// side probe (not part of a check): typed RawValue decoding vs the Value codec at the depth limit
fn probe() {
    for total in [62usize, 63, 64, 65] {
        // Tuple(1) { X } where X is a chain of tuples; total depth = total
        let tree = nest("tup", total, false);
        let b = encode_deep::<Basic>(&tree);
        let as_value = basic_decode::<BasicValue>(&b).is_ok();
        let as_raw = basic_decode::<(BasicOwnedRawValue,)>(&b).map(|_| ()).map_err(|e| variant(&e));
        let (t, _) = traverse::<Basic>(&b, 64);
        println!("{}", json!({"total_depth": total, "len": b.len(), "value_decode_ok": as_value, "traverser": t, "raw_value_tuple_decode": format!("{:?}", as_raw)}));
    }
    for (name, b) in [("leaf at limit 0", vec![0x5bu8, 1, 1]), ("empty tuple at limit 0", vec![0x5b, 0x21, 0]), ("tuple(bool) at limit 0", vec![0x5b, 0x21, 1, 1, 1])] {
        let (d, _) = decode::<Basic>(&b, 0);
        let (t, _) = traverse::<Basic>(&b, 0);
        println!("{}", json!({"case": name, "decoder": d, "traverser": t}));
    }
}

//! C28 — binding of spec/Bech32m and spec/Ids to the real address / transaction-hash Bech32m codecs
//! and the NonFungibleLocalId / NonFungibleGlobalId text forms.  Text travels as Unicode code
//! points.  The harness crafts inputs (it contains a tiny Bech32 writer to build hostile texts with
//! a *valid* checksum) and projects results; verdicts are decided by TLA+.
use radix_common::prelude::*;
use radix_transactions::prelude::*;
use rand::prelude::*;
use serde_json::{json, Value as J};
use std::str::FromStr;
use vh::util::*;
use vh::Args;

fn cps(s: &str) -> Vec<u32> {
    s.chars().map(|c| c as u32).collect()
}
fn from_cps(j: &J) -> String {
    j.as_array().unwrap().iter().map(|x| char::from_u32(x.as_u64().unwrap() as u32).unwrap()).collect()
}
fn bytes_of(j: &J) -> Vec<u8> {
    j.as_array().unwrap().iter().map(|x| x.as_u64().unwrap() as u8).collect()
}
fn network(suffix: &str) -> NetworkDefinition {
    NetworkDefinition { id: 99, logical_name: "verif".to_string().into(), hrp_suffix: suffix.to_string().into() }
}

// ---------------------------------------------------------------------------------------------
// input crafting only: Bech32 writer with a chosen checksum constant

const CHARSET: &[u8] = b"qpzry9x8gf2tvdw0s3jn54khce6mua7l";
fn polymod(v: &[u8]) -> u32 {
    const G: [u32; 5] = [0x3b6a57b2, 0x26508e6d, 0x1ea119fa, 0x3d4233dd, 0x2a1462b3];
    let mut chk: u32 = 1;
    for x in v {
        let b = chk >> 25;
        chk = ((chk & 0x1ffffff) << 5) ^ (*x as u32);
        for (i, g) in G.iter().enumerate() {
            if (b >> i) & 1 == 1 {
                chk ^= g;
            }
        }
    }
    chk
}
fn to5(bytes: &[u8], pad_bits: Option<u8>) -> Vec<u8> {
    let mut out = vec![];
    let (mut acc, mut bits) = (0u32, 0u32);
    for b in bytes {
        acc = (acc << 8) | *b as u32;
        bits += 8;
        while bits >= 5 {
            bits -= 5;
            out.push(((acc >> bits) & 31) as u8);
        }
    }
    if bits > 0 {
        let mut last = ((acc << (5 - bits)) & 31) as u8;
        if let Some(p) = pad_bits {
            last |= p & ((1 << (5 - bits)) - 1); // non-zero padding bits
        }
        out.push(last);
    }
    out
}
fn craft(hrp: &str, data5: &[u8], constant: u32) -> String {
    let mut v: Vec<u8> = hrp.bytes().map(|b| b >> 5).collect();
    v.push(0);
    v.extend(hrp.bytes().map(|b| b & 31));
    v.extend_from_slice(data5);
    v.extend([0u8; 6]);
    let pm = polymod(&v) ^ constant;
    let mut s = String::from(hrp);
    s.push('1');
    for d in data5 {
        s.push(CHARSET[*d as usize] as char);
    }
    for i in 0..6 {
        s.push(CHARSET[((pm >> (5 * (5 - i))) & 31) as usize] as char);
    }
    s
}
const M: u32 = 0x2bc830a3;

// ---------------------------------------------------------------------------------------------

fn typed(dec: &AddressBech32Decoder, s: &str) -> J {
    json!({
        "global": GlobalAddress::try_from_bech32(dec, s).is_some(),
        "internal": InternalAddress::try_from_bech32(dec, s).is_some(),
        "package": PackageAddress::try_from_bech32(dec, s).is_some(),
        "resource": ResourceAddress::try_from_bech32(dec, s).is_some(),
        "component": ComponentAddress::try_from_bech32(dec, s).is_some(),
    })
}

/// the real decoder on one text: {ok, bytes, typed..., panic}
fn decode_text(suffix: &str, s: &str) -> J {
    let dec = AddressBech32Decoder::new(&network(suffix));
    match catch(|| (dec.validate_and_decode(s), typed(&dec, s))) {
        Ok((Ok((_, bytes)), t)) => json!({"ok": true, "bytes": bytes, "typed": t, "panic": false}),
        Ok((Err(_), t)) => json!({"ok": false, "bytes": [], "typed": t, "panic": false}),
        Err(_) => json!({"ok": false, "bytes": [], "typed": {}, "panic": true}),
    }
}

fn lid_json(id: &NonFungibleLocalId) -> J {
    match id {
        NonFungibleLocalId::String(s) => json!({"f": "str", "b": s.value().as_bytes()}),
        NonFungibleLocalId::Integer(i) => json!({"f": "int", "b": i.value().to_be_bytes()}),
        NonFungibleLocalId::Bytes(b) => json!({"f": "bytes", "b": b.value()}),
        NonFungibleLocalId::RUID(r) => json!({"f": "ruid", "b": r.value()}),
    }
}

/// the real local-id parser on one text
fn parse_lid(s: &str) -> J {
    match catch(|| {
        NonFungibleLocalId::from_str(s).ok().map(|id| {
            let disp = id.to_string();
            let bin = scrypto_encode(&id).unwrap();
            let back = scrypto_decode::<NonFungibleLocalId>(&bin).ok() == Some(id.clone());
            (lid_json(&id), disp, bin, back)
        })
    }) {
        Ok(Some((id, disp, bin, back))) => json!({"ok": true, "id": [id], "disp": cps(&disp), "bin": bin, "binback": back, "panic": false}),
        Ok(None) => json!({"ok": false, "id": [], "disp": [], "bin": [], "binback": false, "panic": false}),
        Err(_) => json!({"ok": false, "id": [], "disp": [], "bin": [], "binback": false, "panic": true}),
    }
}

pub fn run(mode: &str, args: &Args) {
    match mode {
        "replayaddr" => replay_addr(),
        "replayids" => replay_ids(),
        "record" => record(args),
        _ => panic!("mode"),
    }
}

/// G case: {net: suffix cps, data, text, mut, ok, bytes}
fn replay_addr() {
    let cases = read_lines();
    let mut out = Out::new();
    let mut steps = 0;
    for (i, c) in cases.iter().enumerate() {
        let suffix = from_cps(&c["net"]);
        let text = from_cps(&c["text"]);
        let data = bytes_of(&c["data"]);
        if c["mut"] == "none" {
            let enc = AddressBech32Encoder::new(&network(&suffix));
            let got = catch(|| enc.encode(&data));
            steps += 1;
            match got {
                Ok(Ok(s)) if s == text => {}
                other => out.mismatch(i, 0, "encoded text", json!(text), json!(format!("{:?}", other))),
            }
        }
        let r = decode_text(&suffix, &text);
        steps += 1;
        if r["panic"] == true {
            out.mismatch(i, 1, "panic", json!(false), json!(true));
        }
        if r["ok"] != c["ok"] {
            out.mismatch(i, 1, "decode verdict", c["ok"].clone(), r["ok"].clone());
        } else if r["ok"] == true && r["bytes"] != c["bytes"] {
            out.mismatch(i, 1, "decoded bytes", c["bytes"].clone(), r["bytes"].clone());
        }
    }
    out.done(cases.len(), steps);
}

/// G case: {s, ok, id: [id] | [], text: canonical text | []}
fn replay_ids() {
    let cases = read_lines();
    let mut out = Out::new();
    for (i, c) in cases.iter().enumerate() {
        let s = from_cps(&c["s"]);
        let r = parse_lid(&s);
        if r["panic"] == true {
            out.mismatch(i, 0, "panic", json!(false), json!(true));
        }
        if r["ok"] != c["ok"] {
            out.mismatch(i, 0, "parse verdict", c["ok"].clone(), r["ok"].clone());
        } else if r["ok"] == true {
            if r["id"] != c["id"] {
                out.mismatch(i, 0, "parsed id", c["id"].clone(), r["id"].clone());
            }
            if r["disp"] != c["text"] {
                out.mismatch(i, 0, "printed id", c["text"].clone(), r["disp"].clone());
            }
        }
    }
    out.done(cases.len(), cases.len());
}

const ENTITY: [u8; 22] = [13, 134, 131, 130, 192, 193, 194, 195, 196, 197, 198, 104, 209, 210, 81, 82, 93, 88, 154, 152, 248, 176];
const HRPS: [&str; 14] = ["package_", "resource_", "component_", "account_", "identity_", "consensusmanager_", "validator_", "accesscontroller_",
    "pool_", "locker_", "transactiontracker_", "internal_vault_", "internal_component_", "internal_keyvaluestore_"];

fn mutate_text(rng: &mut StdRng, s: &str) -> (String, String) {
    let mut c: Vec<char> = s.chars().collect();
    if c.is_empty() {
        return ("empty".into(), "q".into());
    }
    let pos = rng.gen_range(0..c.len());
    match rng.gen_range(0..7) {
        0 => {
            let pool: Vec<char> = "qpzry9x8gf2tvdw0s3jn54khce6mua7l1bio_AQ!~ é".chars().collect();
            let mut n = pool[rng.gen_range(0..pool.len())];
            if n == c[pos] {
                n = 'x';
                if c[pos] == 'x' {
                    n = 'q';
                }
            }
            c[pos] = n;
            ("substitute".into(), c.into_iter().collect())
        }
        1 => ("upper".into(), s.to_uppercase()),
        2 => {
            // upper-case exactly one letter (mixed case)
            let letters: Vec<usize> = (0..c.len()).filter(|i| c[*i].is_ascii_lowercase()).collect();
            if !letters.is_empty() {
                let p = letters[rng.gen_range(0..letters.len())];
                c[p] = c[p].to_ascii_uppercase();
            }
            ("mixed".into(), c.into_iter().collect())
        }
        3 => {
            c.remove(pos);
            ("drop".into(), c.into_iter().collect())
        }
        4 => {
            c.insert(pos, ['q', '1', 'l', 'é'][rng.gen_range(0..4)]);
            ("insert".into(), c.into_iter().collect())
        }
        5 => {
            if pos + 1 < c.len() {
                c.swap(pos, pos + 1);
            }
            ("swap".into(), c.into_iter().collect())
        }
        _ => {
            c.truncate(pos);
            ("truncate".into(), c.into_iter().collect())
        }
    }
}

fn record(args: &Args) {
    let seed = args.u64("seed", 1);
    let n = args.u64("n", 1000) as usize;
    let mut rng = StdRng::seed_from_u64(seed);
    let mut out = Out::new();
    let nets: Vec<String> = vec![
        NetworkDefinition::mainnet().hrp_suffix.to_string(),
        NetworkDefinition::stokenet().hrp_suffix.to_string(),
        NetworkDefinition::simulator().hrp_suffix.to_string(),
        "tdx_21_".to_string(), // contains the separator character '1'
        "loc".to_string(),
    ];
    let mut count = 0usize;
    let mut round = 0usize;
    while count < n {
        // ---------------- addresses: every entity type x every network per round
        for e in ENTITY {
            for (ni, sfx) in nets.iter().enumerate() {
                let mut data: Vec<u8> = match rng.gen_range(0..8) {
                    0 => vec![0; 30],
                    1 => vec![0xff; 30],
                    _ => (0..30).map(|_| rng.gen()).collect(),
                };
                data[0] = e;
                if round % 4 == 3 {
                    // other lengths / non-entity first bytes (the low-level codec takes any length)
                    match rng.gen_range(0..4) {
                        0 => data.truncate(rng.gen_range(0..30)),
                        1 => data.push(rng.gen()),
                        2 => data[0] = [0u8, 12, 14, 255][rng.gen_range(0..4)],
                        _ => data.truncate(1),
                    }
                }
                let enc = AddressBech32Encoder::new(&network(sfx));
                let text = match catch(|| enc.encode(&data)) {
                    Ok(Ok(s)) => Some(s),
                    Ok(Err(_)) => None,
                    Err(_) => {
                        out.emit(&json!({"k": "addr", "sfx": cps(sfx), "data": data, "panic": true}));
                        continue;
                    }
                };
                let Some(text) = text else {
                    out.emit(&json!({"k": "addr", "sfx": cps(sfx), "data": data, "encok": false, "text": [], "dec": {"ok": false, "bytes": [], "typed": {}}, "others": [], "panic": false}));
                    count += 1;
                    continue;
                };
                let same = decode_text(sfx, &text);
                let others: Vec<J> = nets.iter().enumerate().filter(|(j, _)| *j != ni).map(|(_, o)| {
                    let r = decode_text(o, &text);
                    json!({"sfx": cps(o), "ok": r["ok"], "panic": r["panic"]})
                }).collect();
                let panic = same["panic"] == true || others.iter().any(|o| o["panic"] == true);
                out.emit(&json!({"k": "addr", "sfx": cps(sfx), "data": data, "encok": true, "text": cps(&text), "dec": same, "others": others, "panic": panic}));
                count += 1;
                // mutated and crafted texts
                let mut texts: Vec<(String, String)> = vec![];
                texts.push(mutate_text(&mut rng, &text)); // random bulk: one mutation per address
                if !data.is_empty() {
                    let d5 = to5(&data, None);
                    let own = HRPS.iter().position(|h| text.starts_with(&format!("{}{}1", h, sfx))).unwrap_or(0);
                    let other = HRPS[(own + 1 + rng.gen_range(0..13)) % 14];
                    // hostile texts with a valid checksum: every kind on the network whose suffix contains the separator character, one elsewhere
                    let kinds: Vec<usize> = if ni == 3 { (0..6).collect() } else { vec![rng.gen_range(0..6)] };
                    for kind in kinds {
                        match kind {
                            0 => texts.push(("hrp-swap".into(), craft(&format!("{}{}", other, sfx), &d5, M))),
                            1 => texts.push(("bech32-not-m".into(), craft(&text[..text.rfind('1').unwrap()], &d5, 1))),
                            2 => texts.push(("nonzero-padding".into(), craft(&text[..text.rfind('1').unwrap()], &to5(&data, Some(0x1f)), M))),
                            3 => {
                                let mut d = d5.clone();
                                d.push(0); // one more 5-bit group: 5 or more left-over bits
                                texts.push(("extra-group".into(), craft(&text[..text.rfind('1').unwrap()], &d, M)));
                            }
                            4 => texts.push(("upper-hrp-only".into(), {
                                let i = text.rfind('1').unwrap();
                                format!("{}{}", text[..i].to_uppercase(), &text[i..])
                            })),
                            _ => texts.push(("no-suffix-network".into(), craft(&HRPS[own].to_string(), &d5, M))),
                        }
                    }
                    texts.push(("upper".into(), text.to_uppercase()));
                }
                for (cls, t) in texts {
                    let r = decode_text(sfx, &t);
                    out.emit(&json!({"k": "text", "cls": cls, "sfx": cps(sfx), "text": cps(&t), "r": r, "panic": r["panic"]}));
                    count += 1;
                }
            }
        }
        // ---------------- data-length and first-byte boundaries (every round, never left to the random choice)
        for e in [13u8, 93, 193, 88] {
            for (cls, data) in [("len0", vec![]), ("len1", vec![e]), ("len29", { let mut d = vec![7u8; 29]; d[0] = e; d }),
                                ("len31", { let mut d = vec![7u8; 31]; d[0] = e; d }), ("len30-zero", { let mut d = vec![0u8; 30]; d[0] = e; d }),
                                ("len30-ones", { let mut d = vec![0xffu8; 30]; d[0] = e; d }),
                                ("first0", vec![0u8; 30]), ("first12", { let mut d = vec![1u8; 30]; d[0] = 12; d }),
                                ("first14", { let mut d = vec![1u8; 30]; d[0] = 14; d }), ("first255", vec![255u8; 30])] {
                let sfx = &nets[0];
                let enc = AddressBech32Encoder::new(&network(sfx));
                match catch(|| enc.encode(&data)) {
                    Ok(Ok(text)) => {
                        let same = decode_text(sfx, &text);
                        let others: Vec<J> = nets.iter().skip(1).map(|o| { let r = decode_text(o, &text); json!({"sfx": cps(o), "ok": r["ok"], "panic": r["panic"]}) }).collect();
                        let panic = same["panic"] == true || others.iter().any(|o| o["panic"] == true);
                        out.emit(&json!({"k": "addr", "cls": cls, "sfx": cps(sfx), "data": data, "encok": true, "text": cps(&text), "dec": same, "others": others, "panic": panic}));
                    }
                    Ok(Err(_)) => out.emit(&json!({"k": "addr", "cls": cls, "sfx": cps(sfx), "data": data, "encok": false, "text": [], "dec": {"ok": false, "bytes": [], "typed": {}}, "others": [], "panic": false})),
                    Err(_) => out.emit(&json!({"k": "addr", "cls": cls, "sfx": cps(sfx), "data": data, "panic": true})),
                }
                count += 1;
            }
        }
        // ---------------- transaction hashes
        for sfx in nets.iter() {
            let h: [u8; 32] = rng.gen();
            let net = network(sfx);
            let enc = TransactionHashBech32Encoder::new(&net);
            let dec = TransactionHashBech32Decoder::new(&net);
            let other = TransactionHashBech32Decoder::new(&network(&nets[(round + 1) % nets.len()]));
            let r = catch(|| {
                let texts = [
                    ("txid", enc.encode(&TransactionIntentHash(Hash(h))).unwrap()),
                    ("signedintent", enc.encode(&SignedTransactionIntentHash(Hash(h))).unwrap()),
                    ("subtxid", enc.encode(&SubintentHash(Hash(h))).unwrap()),
                    ("notarizedtransaction", enc.encode(&NotarizedTransactionHash(Hash(h))).unwrap()),
                ];
                texts.iter().map(|(kind, t)| {
                    let as_kind = |d: &TransactionHashBech32Decoder, k: &str, t: &str| -> Option<Vec<u8>> {
                        match k {
                            "txid" => d.validate_and_decode::<TransactionIntentHash>(t).ok().map(|x| x.0 .0.to_vec()),
                            "signedintent" => d.validate_and_decode::<SignedTransactionIntentHash>(t).ok().map(|x| x.0 .0.to_vec()),
                            "subtxid" => d.validate_and_decode::<SubintentHash>(t).ok().map(|x| x.0 .0.to_vec()),
                            _ => d.validate_and_decode::<NotarizedTransactionHash>(t).ok().map(|x| x.0 .0.to_vec()),
                        }
                    };
                    let (m, mt) = mutate_text(&mut StdRng::seed_from_u64(h[0] as u64 + t.len() as u64), t);
                    let askind: Vec<bool> = ["txid", "signedintent", "subtxid", "notarizedtransaction"].iter().map(|k| as_kind(&dec, k, t).is_some()).collect();
                    json!({"kind": kind, "text": cps(t), "same": as_kind(&dec, kind, t).unwrap_or_default(),
                        "askind": askind,
                        "othernet": as_kind(&other, kind, t).is_some(),
                        "mut": m, "muttext": cps(&mt), "mutok": as_kind(&dec, kind, &mt).is_some()})
                }).collect::<Vec<_>>()
            });
            match r {
                Ok(list) => out.emit(&json!({"k": "tx", "sfx": cps(sfx), "othersfx": cps(&nets[(round + 1) % nets.len()]), "hash": h.to_vec(), "forms": list, "panic": false})),
                Err(_) => out.emit(&json!({"k": "tx", "sfx": cps(sfx), "panic": true})),
            }
            count += 1;
        }
        // ---------------- local ids: from ids, then hostile texts
        let mut texts: Vec<(String, String)> = vec![];
        for _ in 0..40 {
            let id = match rng.gen_range(0..4) {
                0 => {
                    let len = [1usize, 2, 7, 63, 64][rng.gen_range(0..5)];
                    let pool = b"abcXYZ0189_";
                    NonFungibleLocalId::string((0..len).map(|_| pool[rng.gen_range(0..pool.len())] as char).collect::<String>()).unwrap()
                }
                1 => NonFungibleLocalId::integer(match rng.gen_range(0..6) {
                    0 => 0,
                    1 => u64::MAX,
                    2 => 10u64.pow(rng.gen_range(0..20)),
                    3 => 10u64.pow(rng.gen_range(1..20)) - 1,
                    4 => rng.gen_range(0..1000),
                    _ => rng.gen(),
                }),
                2 => {
                    let len = [1usize, 2, 31, 64][rng.gen_range(0..4)];
                    NonFungibleLocalId::bytes((0..len).map(|_| rng.gen()).collect::<Vec<u8>>()).unwrap()
                }
                _ => NonFungibleLocalId::ruid(rng.gen()),
            };
            let t = id.to_string();
            texts.push(("from-id".into(), t.clone()));
            let (m, mt) = mutate_text(&mut rng, &t);
            texts.push((format!("mut:{}", m), mt));
        }
        let crafted = ["#0#", "#00#", "#01#", "#+1#", "#-1#", "#1 #", "##", "#", "#18446744073709551615#", "#18446744073709551616#",
            "#99999999999999999999#", "#１#", "#1#1#", "<>", "<a>", "<é>", "<a b>", "< >", "<", ">", "<<>>", "[]", "[0]", "[0g]", "[AB]", "[aB]", "[ab",
            "{}", "{é}", "", "a", "é", "#é#", "[é]", "[éé]", ":", "<:>", "\u{0}", "<\u{0}>", "[00\u{301}]"];
        for c in crafted {
            texts.push(("crafted".into(), c.to_string()));
        }
        // ruid shapes: hyphens moved, non-hex, multi-byte characters compensating the byte length
        let ruid = NonFungibleLocalId::ruid(rng.gen()).to_string();
        let r: Vec<char> = ruid.chars().collect();
        let mut v = r.clone();
        v[17] = 'g';
        texts.push(("ruid:non-hex".into(), v.iter().collect()));
        let mut v = r.clone();
        v.swap(17, 18);
        texts.push(("ruid:hyphen-moved".into(), v.iter().collect()));
        let mut v = r.clone();
        v[1] = '-';
        v[2] = 'é'; // 67 chars, 4 hyphens, one 2-byte char: stripped byte length is 64 again
        texts.push(("ruid:extra-hyphen-multibyte".into(), v.iter().collect()));
        texts.push(("ruid:upper".into(), ruid.to_uppercase()));
        texts.push(("ruid:no-hyphens".into(), ruid.replace('-', "")));
        // every group-length split of the same 64 hex digits with each hyphen displaced by -1 / 0 / +1 (26 malformed + the canonical one),
        // one hyphen missing, an extra hyphen, a hyphen replaced: never sampled
        let hex64: String = ruid.chars().filter(|c| c.is_ascii_hexdigit()).collect();
        let split = |lens: &[usize]| -> String {
            let mut out = String::from("{");
            let mut at = 0;
            for (k, l) in lens.iter().enumerate() {
                if k > 0 { out.push('-'); }
                out.push_str(&hex64[at..at + l]);
                at += l;
            }
            out.push('}');
            out
        };
        for d1 in [-1i32, 0, 1] {
            for d2 in [-1i32, 0, 1] {
                for d3 in [-1i32, 0, 1] {
                    // hyphen positions 16+d1, 33+d2, 50+d3 inside the braces
                    let (h1, h2, h3) = (16 + d1, 33 + d2, 50 + d3);
                    let lens = [h1 as usize, (h2 - h1 - 1) as usize, (h3 - h2 - 1) as usize, (66 - h3) as usize];
                    let cls = if (d1, d2, d3) == (0, 0, 0) { "ruid:split-canonical".to_string() } else { format!("ruid:split:{}:{}:{}", d1, d2, d3) };
                    texts.push((cls, split(&lens)));
                }
            }
        }
        texts.push(("ruid:missing-hyphen-1".into(), split(&[32, 16, 16])));
        texts.push(("ruid:missing-hyphen-2".into(), split(&[16, 32, 16])));
        texts.push(("ruid:missing-hyphen-3".into(), split(&[16, 16, 32])));
        texts.push(("ruid:extra-hyphen".into(), split(&[16, 16, 16, 8, 8])));
        texts.push(("ruid:extra-hyphen-front".into(), split(&[8, 8, 16, 16, 16])));
        for (k, pos) in [17usize, 34, 51].iter().enumerate() {
            for repl in ['_', ':', '0', 'a', ' '] {
                let mut v: Vec<char> = ruid.chars().collect();
                v[*pos] = repl;
                texts.push((format!("ruid:hyphen-{}-replaced", k + 1), v.iter().collect()));
            }
            // the hyphen slot holds a hex digit and a hyphen sits right before / after it (67 characters kept)
            let mut v: Vec<char> = ruid.chars().collect();
            v.swap(*pos, *pos + 1);
            texts.push((format!("ruid:hyphen-{}-late", k + 1), v.iter().collect()));
            let mut v: Vec<char> = ruid.chars().collect();
            v.swap(*pos, *pos - 1);
            texts.push((format!("ruid:hyphen-{}-early", k + 1), v.iter().collect()));
        }
        texts.push(("ruid:65-hex".into(), format!("{{{}f}}", &ruid[1..ruid.len() - 1])));
        texts.push(("ruid:63-hex".into(), format!("{{{}}}", &ruid[1..ruid.len() - 2])));
        let too_long = format!("<{}>", "a".repeat(65));
        texts.push(("string:65".into(), too_long));
        texts.push(("bytes:65".into(), format!("[{}]", "ab".repeat(65))));
        texts.push(("bytes:64-upper".into(), format!("[{}]", "AB".repeat(64))));
        texts.push(("string:64".into(), format!("<{}>", "Z".repeat(64))));
        texts.push(("string:1".into(), "<_>".to_string()));
        texts.push(("bytes:64".into(), format!("[{}]", "0f".repeat(64))));
        texts.push(("bytes:1".into(), "[00]".to_string()));
        texts.push(("bytes:odd".into(), format!("[{}]", "0".repeat(127))));
        for v in [0u64, 1, 9, 10, u64::MAX - 1, u64::MAX] { texts.push(("int:boundary".into(), format!("#{}#", v))); }
        texts.push(("int:2^64".into(), "#18446744073709551616#".to_string()));
        texts.push(("int:leading-zero-max".into(), "#018446744073709551615#".to_string()));
        for (cls, t) in texts {
            let r = parse_lid(&t);
            out.emit(&json!({"k": "lid", "cls": cls, "s": cps(&t), "r": r, "panic": r["panic"]}));
            count += 1;
        }
        // ---------------- global ids
        for (sfx, first) in nets.iter().take(3).flat_map(|n| [93u8, 154, 13, 193].into_iter().map(move |e| (n, e))) {
            let net = network(sfx);
            let enc = AddressBech32Encoder::new(&net);
            let dec = AddressBech32Decoder::new(&net);
            let mut res: Vec<u8> = (0..30).map(|_| rng.gen()).collect();
            res[0] = first; // both resource-manager entities, and two non-resource entities
            let lid = NonFungibleLocalId::integer(rng.gen_range(0..100000));
            let addr = enc.encode(&res).unwrap();
            let forms = vec![
                format!("{}:{}", addr, lid),
                format!("{}:{}:", addr, lid),
                format!("{}{}", addr, lid),
                format!("{}:#01#", addr),
                format!(":{}", lid),
                format!("{}:", addr),
                format!("{}:{}", addr.to_uppercase(), lid),
                format!("{}:<é>", addr),
            ];
            for f in forms {
                let r = catch(|| NonFungibleGlobalId::try_from_canonical_string(&dec, &f).ok().map(|g| {
                    (g.resource_address().as_node_id().0.to_vec(), lid_json(g.local_id()), g.to_canonical_string(&enc))
                }));
                let ev = match r {
                    Ok(Some((res, id, disp))) => json!({"k": "gid", "sfx": cps(sfx), "s": cps(&f), "ok": true, "res": res, "id": [id], "disp": cps(&disp), "panic": false}),
                    Ok(None) => json!({"k": "gid", "sfx": cps(sfx), "s": cps(&f), "ok": false, "res": [], "id": [], "disp": [], "panic": false}),
                    Err(_) => json!({"k": "gid", "sfx": cps(sfx), "s": cps(&f), "ok": false, "res": [], "id": [], "disp": [], "panic": true}),
                };
                out.emit(&ev);
                count += 1;
            }
        }
        round += 1;
    }
    out.flush();
}

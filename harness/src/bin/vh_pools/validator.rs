//! C42 — binding of spec/Validator to the real Validator / ConsensusManager blueprints on a
//! LedgerSimulator with a custom genesis (several validators, small max_validators, short epochs).
//!
//! The harness drives (stake / unstake / claim_xrd / register / unregister / update_fee as user
//! transactions, next-round system transactions with proposal histories, epoch changes) and
//! projects what the ledger holds after every transaction: per validator the stake vault, the
//! stake-unit total supply, the pending-withdraw vault, the locked owner stake-unit vault and the
//! registered flag; per user XRD, stake units and the claim NFTs (id, amount, claim epoch) in the
//! account; epoch, rewards vault, XRD total supply, the CurrentValidatorSet substate; for an
//! epoch change additionally the emission / reward events and EpochChangeEvent.validator_set.
//! TraceValidator.tla decides.
use crate::pools::limbs;
use radix_engine::system::system_db_reader::SystemDatabaseReader;
use rand::prelude::*;
use scrypto_test::prelude::*;
use serde_json::{json, Value};
use vh::util::*;
use vh::Args;

fn dec(s: &str) -> Decimal {
    Decimal::try_from(s).expect("decimal literal")
}

struct VInfo {
    addr: ComponentAddress,
    key: Secp256k1PublicKey,
    owner_acct: ComponentAddress,
    stake_vault: NodeId,
    pend_vault: NodeId,
    owner_vault: NodeId,
    owner_unlock_vault: NodeId,
    su: ResourceAddress,
    claim_nft: ResourceAddress,
}

pub struct VEnv {
    ledger: DefaultLedgerSimulator,
    vals: Vec<VInfo>,
    ukeys: Vec<Secp256k1PublicKey>,
    users: Vec<ComponentAddress>,
    rewards_vault: NodeId,
    last_mint: Vec<Vec<Decimal>>, // [u][v]
    emission: Decimal,
    maxv: u32,
    unstake_epochs: u64,
    ts: i64,
}

pub struct Setup {
    pub stakes: Vec<Decimal>,      // genesis stake per validator (held by user 1)
    pub registered: Vec<bool>,
    pub fees: Vec<Decimal>,
    pub emission: Decimal,
    pub min_reliability: Decimal,
    pub maxv: u32,
    pub unstake_epochs: u64,
}

fn outcome_of(r: &Result<TransactionReceipt, String>) -> (String, String, bool) {
    crate::pools::outcome(r)
}

impl VEnv {
    pub fn new(s: &Setup) -> Self {
        let nv = s.stakes.len();
        let vkeys: Vec<Secp256k1PublicKey> = (0..nv).map(|i| Secp256k1PrivateKey::from_u64(10 + i as u64).unwrap().public_key()).collect();
        let ukeys: Vec<Secp256k1PublicKey> = (0..2).map(|i| Secp256k1PrivateKey::from_u64(100 + i as u64).unwrap().public_key()).collect();
        let users: Vec<ComponentAddress> = ukeys.iter().map(|k| ComponentAddress::preallocated_account_from_public_key(k)).collect();
        let validators: Vec<GenesisValidator> = vkeys
            .iter()
            .enumerate()
            .map(|(i, k)| {
                let mut g = GenesisValidator::from(*k);
                g.is_registered = s.registered[i];
                g.fee_factor = s.fees[i];
                g
            })
            .collect();
        let allocations: Vec<(Secp256k1PublicKey, Vec<GenesisStakeAllocation>)> = vkeys
            .iter()
            .enumerate()
            .filter(|(i, _)| !s.stakes[*i].is_zero())
            .map(|(i, k)| (*k, vec![GenesisStakeAllocation { account_index: 0, xrd_amount: s.stakes[i] }]))
            .collect();
        let genesis = BabylonSettings {
            genesis_data_chunks: vec![
                GenesisDataChunk::Validators(validators),
                GenesisDataChunk::Stakes { accounts: users.clone(), allocations },
                GenesisDataChunk::XrdBalances(users.iter().map(|u| (*u, dec("5000000"))).collect()),
            ],
            genesis_epoch: Epoch::of(2),
            consensus_manager_config: ConsensusManagerConfig::test_default()
                .with_max_validators(s.maxv)
                .with_epoch_change_condition(EpochChangeCondition { min_round_count: 2, max_round_count: 6, target_duration_millis: 1000 })
                .with_num_unstake_epochs(s.unstake_epochs)
                .with_total_emission_xrd_per_epoch(s.emission)
                .with_min_validator_reliability(s.min_reliability),
            initial_time_ms: 1,
            initial_current_leader: Some(0),
            faucet_supply: *DEFAULT_TESTING_FAUCET_SUPPLY,
        };
        let mut ledger = LedgerSimulatorBuilder::new()
            .with_custom_protocol(|builder| builder.configure_babylon(|_| genesis).from_bootstrap_to_latest())
            .build();
        // all validator components, matched to the genesis keys
        let comps = ledger.find_all_components();
        let mut vals = vec![];
        for k in vkeys.iter() {
            let mut found = None;
            for c in comps.iter() {
                if c.as_node_id().entity_type() == Some(EntityType::GlobalValidator) {
                    let sub = ledger.get_validator_info(*c);
                    if &sub.key == k {
                        found = Some((*c, sub));
                    }
                }
            }
            let (addr, sub) = found.expect("genesis validator not found");
            vals.push(VInfo {
                addr,
                key: *k,
                owner_acct: ComponentAddress::preallocated_account_from_public_key(k),
                stake_vault: sub.stake_xrd_vault_id.0,
                pend_vault: sub.pending_xrd_withdraw_vault_id.0,
                owner_vault: sub.locked_owner_stake_unit_vault_id.0,
                owner_unlock_vault: sub.pending_owner_stake_unit_unlock_vault_id.0,
                su: sub.stake_unit_resource,
                claim_nft: sub.claim_nft,
            });
        }
        let rewards_vault = {
            let reader = SystemDatabaseReader::new(ledger.substate_db());
            let sub = reader
                .read_typed_object_field::<ConsensusManagerValidatorRewardsFieldPayload>(
                    CONSENSUS_MANAGER.as_node_id(),
                    ModuleId::Main,
                    ConsensusManagerField::ValidatorRewards.field_index(),
                )
                .unwrap()
                .fully_update_and_into_latest_version();
            sub.rewards_vault.0 .0
        };
        let ts = ledger.get_current_proposer_timestamp_ms();
        VEnv {
            ledger,
            vals,
            ukeys,
            users,
            rewards_vault,
            last_mint: vec![vec![Decimal::ZERO; nv]; 2],
            emission: s.emission,
            maxv: s.maxv,
            unstake_epochs: s.unstake_epochs,
            ts,
        }
    }

    fn vault(&mut self, id: NodeId) -> Decimal {
        self.ledger.inspect_vault_balance(id).unwrap_or(Decimal::ZERO)
    }

    fn total_supply(&mut self, res: ResourceAddress) -> Decimal {
        let reader = SystemDatabaseReader::new(self.ledger.substate_db());
        reader
            .read_typed_object_field::<FungibleResourceManagerTotalSupplyFieldPayload>(
                res.as_node_id(),
                ModuleId::Main,
                FungibleResourceManagerField::TotalSupply.field_index(),
            )
            .expect("total supply field")
            .fully_update_and_into_latest_version()
    }

    fn vindex(&self, addr: &ComponentAddress) -> usize {
        self.vals.iter().position(|v| &v.addr == addr).map(|i| i + 1).unwrap_or(0)
    }

    fn claims_of(&mut self, u: usize, v: usize) -> Vec<(NonFungibleLocalId, UnstakeData)> {
        let nft = self.vals[v].claim_nft;
        let acct = self.users[u];
        let vaults = self.ledger.get_component_vaults(acct, nft);
        let mut ids = vec![];
        for vid in vaults {
            if let Some((_, it)) = self.ledger.inspect_non_fungible_vault(vid) {
                ids.extend(it);
            }
        }
        ids.sort();
        ids.into_iter().map(|id| (id.clone(), self.ledger.get_non_fungible_data::<UnstakeData>(nft, id))).collect()
    }

    fn obs(&mut self) -> Value {
        let nv = self.vals.len();
        let mut val = vec![];
        for i in 0..nv {
            let (sv, pv, ov, uv, su, addr) = {
                let v = &self.vals[i];
                (v.stake_vault, v.pend_vault, v.owner_vault, v.owner_unlock_vault, v.su, v.addr)
            };
            let sub = self.ledger.get_validator_info(addr);
            let owner = self.vault(ov).checked_add(self.vault(uv)).unwrap();
            val.push(json!({
                "stake": limbs(self.vault(sv)),
                "su": limbs(self.total_supply(su)),
                "pend": limbs(self.vault(pv)),
                "reg": sub.is_registered,
            }));
            val.last_mut().unwrap().as_object_mut().unwrap().insert("owner".into(), limbs(owner));
        }
        let mut held = vec![];
        let mut xrd = vec![];
        let mut claims = vec![];
        for u in 0..self.users.len() {
            let acct = self.users[u];
            xrd.push(limbs(self.ledger.get_component_balance(acct, XRD)));
            let mut row = vec![];
            for v in 0..nv {
                let su = self.vals[v].su;
                row.push(limbs(self.ledger.get_component_balance(acct, su)));
                for (id, d) in self.claims_of(u, v) {
                    claims.push(json!({"id": id.to_string(), "v": v + 1, "u": u + 1, "amt": limbs(d.claim_amount), "ep": d.claim_epoch.number()}));
                }
            }
            held.push(row);
        }
        let st = self.ledger.get_consensus_manager_state();
        let rewards = limbs(self.vault(self.rewards_vault));
        let aset = {
            let reader = SystemDatabaseReader::new(self.ledger.substate_db());
            let sub = reader
                .read_typed_object_field::<ConsensusManagerCurrentValidatorSetFieldPayload>(
                    CONSENSUS_MANAGER.as_node_id(),
                    ModuleId::Main,
                    ConsensusManagerField::CurrentValidatorSet.field_index(),
                )
                .unwrap()
                .fully_update_and_into_latest_version();
            sub.validator_set
        };
        let aset: Vec<Value> = aset.validators_by_stake_desc.iter().map(|(a, v)| json!({"v": self.vindex(a), "stake": limbs(v.stake)})).collect();
        json!({"val": val, "held": held, "xrd": xrd, "claims": claims, "epoch": st.epoch.number(), "round": st.round.number(),
               "rewards": rewards, "aset": aset})
    }

    fn finish(&mut self, name: &str, args: Value, r: &Result<TransactionReceipt, String>) -> Value {
        let (out, cls, trap) = outcome_of(r);
        // XRD does not track its total supply: the change of the supply in this transaction is the
        // sum of the balance changes of ALL XRD vaults reported by the receipt (mint - burn)
        let mut dsupply = Decimal::ZERO;
        if let Ok(receipt) = r {
            if let TransactionResult::Commit(c) = &receipt.result {
                for (_, (res, ch)) in c.vault_balance_changes().iter() {
                    if *res == XRD {
                        if let BalanceChange::Fungible(d) = ch {
                            dsupply = dsupply.checked_add(*d).unwrap();
                        }
                    }
                }
            }
        }
        let mut ev = self.obs();
        let o = ev.as_object_mut().unwrap();
        o.insert("a".into(), json!(name));
        o.insert("dsupply".into(), limbs(dsupply));
        for (k, v) in args.as_object().unwrap() {
            o.insert(k.clone(), v.clone());
        }
        o.insert("out".into(), json!(out));
        o.insert("cls".into(), json!(cls));
        o.insert("trap".into(), json!(trap));
        ev
    }

    fn user_proof(&self, u: usize) -> Vec<NonFungibleGlobalId> {
        vec![NonFungibleGlobalId::from_public_key(&self.ukeys[u])]
    }

    fn stake(&mut self, v: usize, u: usize, x: Decimal) -> Value {
        let (acct, vaddr, su) = (self.users[u], self.vals[v].addr, self.vals[v].su);
        let held0 = self.ledger.get_component_balance(acct, su);
        let m = ManifestBuilder::new()
            .lock_fee_from_faucet()
            .withdraw_from_account(acct, XRD, x)
            .take_all_from_worktop(XRD, "b")
            .with_name_lookup(|b, l| b.stake_validator(vaddr, l.bucket("b")))
            .try_deposit_entire_worktop_or_abort(acct, None)
            .build();
        let proofs = self.user_proof(u);
        let r = catch(|| self.ledger.execute_manifest(m, proofs));
        if outcome_of(&r).0 == "commit" {
            let held1 = self.ledger.get_component_balance(acct, su);
            self.last_mint[u][v] = held1.checked_sub(held0).unwrap_or(Decimal::ZERO);
        }
        self.finish("stake", json!({"v": v + 1, "u": u + 1, "x": limbs(x)}), &r)
    }

    fn unstake(&mut self, v: usize, u: usize, units: Decimal) -> Value {
        let (acct, vaddr, su) = (self.users[u], self.vals[v].addr, self.vals[v].su);
        let before: Vec<String> = self.claims_of(u, v).into_iter().map(|(id, _)| id.to_string()).collect();
        let m = ManifestBuilder::new()
            .lock_fee_from_faucet()
            .withdraw_from_account(acct, su, units)
            .take_all_from_worktop(su, "b")
            .with_name_lookup(|b, l| b.unstake_validator(vaddr, l.bucket("b")))
            .try_deposit_entire_worktop_or_abort(acct, None)
            .build();
        let proofs = self.user_proof(u);
        let r = catch(|| self.ledger.execute_manifest(m, proofs));
        let after: Vec<String> = self.claims_of(u, v).into_iter().map(|(id, _)| id.to_string()).collect();
        let new: Vec<String> = after.into_iter().filter(|i| !before.contains(i)).collect();
        self.finish("unstake", json!({"v": v + 1, "u": u + 1, "x": limbs(units), "new": new}), &r)
    }

    fn claim(&mut self, v: usize, u: usize, ids: Vec<NonFungibleLocalId>) -> Value {
        let (acct, vaddr, nft) = (self.users[u], self.vals[v].addr, self.vals[v].claim_nft);
        let id_strs: Vec<String> = ids.iter().map(|i| i.to_string()).collect();
        let m = ManifestBuilder::new()
            .lock_fee_from_faucet()
            .withdraw_non_fungibles_from_account(acct, nft, ids)
            .take_all_from_worktop(nft, "b")
            .with_name_lookup(|b, l| b.claim_xrd(vaddr, l.bucket("b")))
            .try_deposit_entire_worktop_or_abort(acct, None)
            .build();
        let proofs = self.user_proof(u);
        let r = catch(|| self.ledger.execute_manifest(m, proofs));
        self.finish("claim", json!({"v": v + 1, "u": u + 1, "ids": id_strs}), &r)
    }

    fn owner_call(&mut self, v: usize, what: &str, fee: Decimal) -> Value {
        let (vaddr, owner, key) = (self.vals[v].addr, self.vals[v].owner_acct, self.vals[v].key);
        let b = ManifestBuilder::new().lock_fee_from_faucet().create_proof_from_account_of_non_fungibles(
            owner,
            VALIDATOR_OWNER_BADGE,
            [NonFungibleLocalId::bytes(vaddr.as_node_id().0).unwrap()],
        );
        let b = match what {
            "register" => b.register_validator(vaddr),
            "unregister" => b.unregister_validator(vaddr),
            "update_fee" => b.call_method(vaddr, VALIDATOR_UPDATE_FEE_IDENT, ValidatorUpdateFeeInput { new_fee_factor: fee }),
            _ => panic!("owner call"),
        };
        let r = catch(|| self.ledger.execute_manifest(b.build(), vec![NonFungibleGlobalId::from_public_key(&key)]));
        self.finish(what, json!({"v": v + 1, "fee": limbs(fee)}), &r)
    }

    /// next-round system transaction: `skip` gap rounds (all attributed to `gap_leader`), the current
    /// leader, fallback flag, time advanced by dt ms
    fn round(&mut self, leader: u8, gap_leader: u8, skip: u64, fallback: bool, dt: i64) -> Value {
        let st = self.ledger.get_consensus_manager_state();
        let next = st.round.number() + 1 + skip;
        self.ts += dt;
        let ts = self.ts;
        let r = catch(|| {
            self.ledger.execute_system_transaction(
                ManifestBuilder::new_system_v1()
                    .call_method(
                        CONSENSUS_MANAGER,
                        CONSENSUS_MANAGER_NEXT_ROUND_IDENT,
                        ConsensusManagerNextRoundInput {
                            round: Round::of(next),
                            proposer_timestamp_ms: ts,
                            leader_proposal_history: LeaderProposalHistory {
                                gap_round_leaders: (0..skip).map(|_| gap_leader).collect(),
                                current_leader: leader,
                                is_fallback: fallback,
                            },
                        },
                    )
                    .build(),
                btreeset![system_execution(SystemExecution::Validator)],
            )
        });
        // events of an epoch change
        let mut em = vec![];
        let mut rw = vec![];
        let mut set = json!([]);
        let mut changed = false;
        if let Ok(receipt) = &r {
            if let TransactionResult::Commit(c) = &receipt.result {
                for (id, data) in c.application_events.iter() {
                    let emitter = match &id.0 {
                        Emitter::Method(n, _) => ComponentAddress::try_from(n.0.as_slice()).ok().map(|a| self.vindex(&a)).unwrap_or(0),
                        _ => 0,
                    };
                    match id.1.as_str() {
                        "ValidatorEmissionAppliedEvent" => {
                            let e: ValidatorEmissionAppliedEvent = scrypto_decode(data).unwrap();
                            em.push(json!({"v": emitter, "net": limbs(e.stake_pool_added_xrd), "fee": limbs(e.validator_fee_xrd),
                                           "made": e.proposals_made, "missed": e.proposals_missed}));
                        }
                        "ValidatorRewardAppliedEvent" => {
                            let e: ValidatorRewardAppliedEvent = scrypto_decode(data).unwrap();
                            rw.push(json!({"v": emitter, "amt": limbs(e.amount)}));
                        }
                        "EpochChangeEvent" => {
                            let e: EpochChangeEvent = scrypto_decode(data).unwrap();
                            changed = true;
                            set = json!(e.validator_set.validators_by_stake_desc.iter().map(|(a, v)| json!({"v": self.vindex(a), "stake": limbs(v.stake)})).collect::<Vec<_>>());
                        }
                        _ => {}
                    }
                }
            }
        }
        let name = if changed { "epoch" } else { "round" };
        self.finish(name, json!({"leader": leader, "gap": gap_leader, "skip": skip, "fallback": fallback, "em": em, "rw": rw, "set": set}), &r)
    }

    fn reset_event(&mut self, case: usize) -> Value {
        let mut ev = self.obs();
        let o = ev.as_object_mut().unwrap();
        o.insert("a".into(), json!("reset"));
        o.insert("case".into(), json!(case));
        o.insert("nv".into(), json!(self.vals.len()));
        o.insert("nu".into(), json!(self.users.len()));
        o.insert("emission".into(), limbs(self.emission));
        o.insert("maxv".into(), json!(self.maxv));
        o.insert("unstake".into(), json!(self.unstake_epochs));
        ev
    }
}

// ---------------------------------------------------------------------------------------------
fn xrd_amount(class: &str, stake: Decimal, balance: Decimal, salt: u64) -> Decimal {
    match class {
        "sub" => Decimal::from_attos(I192::from(1u8)),
        "tiny" => Decimal::from_attos(I192::from(3u8)),
        "one" => Decimal::ONE,
        "mid" => dec("1234.567890123456789").checked_add(Decimal::from(salt)).unwrap(),
        "odd" => dec("77777.777777777777777777"),
        "bucket" => dec("100000"),
        "eq" => {
            if stake.is_zero() {
                dec("1000")
            } else {
                stake
            }
        }
        "third" => Decimal::from_attos(stake.attos() / I192::from(3u8)).max(Decimal::from_attos(I192::from(1u8))),
        "all" => balance,
        c if c.starts_with('=') => Decimal::try_from(&c[1..]).expect("explicit amount"),
        _ => panic!("xrd class {}", class),
    }
}
fn unit_amount(class: &str, held: Decimal, last: Decimal) -> Decimal {
    let atto = Decimal::from_attos(I192::from(1u8));
    match class {
        "sub" => atto,
        "tiny" => Decimal::from_attos(I192::from(3u8)),
        "half" => Decimal::from_attos(held.attos() / I192::from(2u8)),
        "third" => Decimal::from_attos(held.attos() / I192::from(3u8)),
        "all" => held,
        "over" => held.checked_add(atto).unwrap(),
        "last" => last,
        c if c.starts_with('=') => Decimal::try_from(&c[1..]).expect("explicit amount"),
        _ => panic!("unit class {}", class),
    }
}

fn setup_of(c: &Value) -> Setup {
    let arr = |k: &str| -> Vec<Decimal> { c[k].as_array().unwrap().iter().map(|x| dec(x.as_str().unwrap())).collect() };
    let stakes = arr("stakes");
    let nv = stakes.len();
    Setup {
        registered: c["registered"].as_array().map(|a| a.iter().map(|x| x.as_bool().unwrap()).collect()).unwrap_or(vec![true; nv]),
        fees: if c["fees"].is_array() { arr("fees") } else { vec![dec("0.1"); nv] },
        stakes,
        emission: dec(c["emission"].as_str().unwrap_or("100")),
        min_reliability: dec(c["minrel"].as_str().unwrap_or("0.8")),
        maxv: c["maxv"].as_u64().unwrap_or(2) as u32,
        unstake_epochs: c["unstake"].as_u64().unwrap_or(2),
    }
}

fn do_op(env: &mut VEnv, op: &Value, salt: u64) -> Value {
    let name = op["op"].as_str().unwrap();
    let nv = env.vals.len();
    let v = (op["v"].as_u64().unwrap_or(1) as usize - 1).min(nv - 1);
    let u = op["u"].as_u64().unwrap_or(1) as usize - 1;
    match name {
        "stake" => {
            let stake = { let id = env.vals[v].stake_vault; env.vault(id) };
            let bal = env.ledger.get_component_balance(env.users[u], XRD);
            let x = xrd_amount(op["amt"].as_str().unwrap(), stake, bal, salt);
            env.stake(v, u, x)
        }
        "unstake" => {
            let held = env.ledger.get_component_balance(env.users[u], env.vals[v].su);
            let x = unit_amount(op["amt"].as_str().unwrap(), held, env.last_mint[u][v]);
            env.unstake(v, u, x)
        }
        "claim" => {
            let cl = env.claims_of(u, v);
            let epoch = env.ledger.get_consensus_manager_state().epoch.number();
            let ids: Vec<NonFungibleLocalId> = match op["amt"].as_str().unwrap() {
                "ripe" => cl.iter().filter(|(_, d)| d.claim_epoch.number() <= epoch).map(|(i, _)| i.clone()).collect(),
                "first" => cl.iter().take(1).map(|(i, _)| i.clone()).collect(),
                _ => cl.iter().map(|(i, _)| i.clone()).collect(), // "any": incl. not yet claimable ones
            };
            if ids.is_empty() {
                // nothing to claim: an empty round keeps the sequence aligned
                return env.round(0, 0, 0, false, 1);
            }
            env.claim(v, u, ids)
        }
        "register" | "unregister" => env.owner_call(v, name, Decimal::ZERO),
        "update_fee" => env.owner_call(v, name, dec(op["fee"].as_str().unwrap_or("0.05"))),
        "round" => env.round(
            op["leader"].as_u64().unwrap_or(0) as u8,
            op["gap"].as_u64().unwrap_or(0) as u8,
            op["skip"].as_u64().unwrap_or(0),
            op["fallback"].as_bool().unwrap_or(false),
            op["dt"].as_i64().unwrap_or(100),
        ),
        "epoch" => env.round(op["leader"].as_u64().unwrap_or(0) as u8, op["gap"].as_u64().unwrap_or(0) as u8, op["skip"].as_u64().unwrap_or(1), op["fallback"].as_bool().unwrap_or(false), 1000),
        _ => panic!("unknown op {}", name),
    }
}

pub fn run(mode: &str, args: &Args) {
    match mode {
        "run" => run_cases(),
        "record" => record(args),
        _ => panic!("mode"),
    }
}

/// G: {"stakes": ["250000", ...], "registered": [..], "emission": "100", "maxv": 2, "ops": [...]}
fn run_cases() {
    let mut out = Out::new();
    let cases = read_lines();
    let mut steps = 0usize;
    for (ci, c) in cases.iter().enumerate() {
        let mut env = VEnv::new(&setup_of(c));
        let ev = env.reset_event(ci);
        out.emit(&ev);
        for (si, op) in c["ops"].as_array().unwrap().iter().enumerate() {
            let ev = do_op(&mut env, op, (ci * 31 + si) as u64 % 977);
            out.emit(&ev);
            steps += 1;
        }
    }
    out.emit(&json!({"a": "end", "cases": cases.len(), "steps": steps}));
    out.flush();
}

/// T: seeded histories
fn record(args: &Args) {
    let seed = args.u64("seed", 1);
    let runs = args.u64("runs", 2);
    let len = args.u64("len", 60);
    let mut rng = StdRng::seed_from_u64(seed);
    let mut out = Out::new();
    let mut steps = 0usize;
    let stake_sets: [[&str; 4]; 4] = [
        ["250000", "130000.5", "120000", "90000"],
        ["1000", "999.999999999999999999", "1000", "0"],
        ["100000", "199999.999999999999999999", "200000", "100000.000000000000000001"],
        ["7", "3", "0.000000000000000003", "1000000"],
    ];
    let emissions = ["100", "0.333333333333333333", "1000000", "0.000000000000000001", "2500"];
    let minrels = ["0.8", "1", "0", "0.5"];
    let xrd_cls = ["sub", "tiny", "one", "mid", "odd", "bucket", "eq", "third"];
    let unit_cls = ["sub", "tiny", "half", "third", "all", "over", "last"];
    for run in 0..runs {
        let ss = stake_sets[rng.gen_range(0..stake_sets.len())];
        let nv = rng.gen_range(3..=4);
        let s = Setup {
            stakes: ss[..nv].iter().map(|x| dec(x)).collect(),
            registered: (0..nv).map(|i| i != 2 || rng.gen_bool(0.6)).collect(),
            fees: (0..nv).map(|_| dec(["0", "0.1", "1", "0.015"][rng.gen_range(0..4)])).collect(),
            emission: dec(emissions[rng.gen_range(0..emissions.len())]),
            min_reliability: dec(minrels[rng.gen_range(0..minrels.len())]),
            maxv: rng.gen_range(1..=3),
            unstake_epochs: rng.gen_range(1..=2),
        };
        let mut env = VEnv::new(&s);
        let ev = env.reset_event(run as usize);
        out.emit(&ev);
        for _ in 0..len {
            let v = rng.gen_range(0..nv);
            let u = rng.gen_range(0..2);
            let roll = rng.gen_range(0..100);
            let nset = env.maxv.min(nv as u32) as u8;
            let ev = if roll < 28 {
                let stake = { let id = env.vals[v].stake_vault; env.vault(id) };
                let bal = env.ledger.get_component_balance(env.users[u], XRD);
                let x = if rng.gen_bool(0.6) {
                    xrd_amount(xrd_cls[rng.gen_range(0..xrd_cls.len())], stake, bal, rng.gen_range(0..900))
                } else {
                    // random magnitude
                    let e = rng.gen_range(0..24u32);
                    let mut a = I192::from(rng.gen_range(1..1000u64));
                    for _ in 0..e {
                        a = a * I192::from(10u8);
                    }
                    Decimal::from_attos(a)
                };
                env.stake(v, u, x)
            } else if roll < 50 {
                let held = env.ledger.get_component_balance(env.users[u], env.vals[v].su);
                let x = if rng.gen_bool(0.6) {
                    unit_amount(unit_cls[rng.gen_range(0..unit_cls.len())], held, env.last_mint[u][v])
                } else {
                    Decimal::from_attos(held.attos() / I192::from(1000u64) * I192::from(rng.gen_range(1..1000u64)))
                };
                env.unstake(v, u, x)
            } else if roll < 62 {
                let cl = env.claims_of(u, v);
                if cl.is_empty() {
                    env.round(rng.gen_range(0..nset.max(1)), 0, 0, false, 50)
                } else {
                    let epoch = env.ledger.get_consensus_manager_state().epoch.number();
                    let ids: Vec<NonFungibleLocalId> = if rng.gen_bool(0.7) {
                        cl.iter().filter(|(_, d)| d.claim_epoch.number() <= epoch).map(|(i, _)| i.clone()).collect()
                    } else {
                        cl.iter().map(|(i, _)| i.clone()).collect()
                    };
                    if ids.is_empty() {
                        env.round(rng.gen_range(0..nset.max(1)), 0, 0, false, 50)
                    } else {
                        env.claim(v, u, ids)
                    }
                }
            } else if roll < 70 {
                let what = ["register", "unregister", "update_fee"][rng.gen_range(0..3)];
                env.owner_call(v, what, dec(["0", "0.05", "0.5", "1", "1.5"][rng.gen_range(0..5)]))
            } else if roll < 86 {
                let skip = if rng.gen_bool(0.3) { rng.gen_range(1..3) } else { 0 };
                env.round(rng.gen_range(0..nset.max(1)), rng.gen_range(0..nset.max(1)), skip, rng.gen_bool(0.15), 100)
            } else {
                env.round(rng.gen_range(0..nset.max(1)), rng.gen_range(0..nset.max(1)), 1, false, 1000)
            };
            out.emit(&ev);
            steps += 1;
        }
    }
    out.emit(&json!({"a": "end", "cases": runs, "steps": steps}));
    out.flush();
}

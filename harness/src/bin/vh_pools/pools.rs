//! C41 — binding of spec/Pools to the real pool blueprints (one-, two-, multi-resource) of the pool
//! package, driven through transactions on a LedgerSimulator.
//!
//! The harness never decides anything about amounts.  For every operation it records
//!   * what went in (amounts per resource / pool units, as limbs),
//!   * the outcome class (commit | err + error class | reject | panic; `trap` = a native blueprint
//!     panicked and the native VM turned it into an error),
//!   * what the ledger holds afterwards, read from the database: every reserve vault of the pool,
//!     the pool-unit total supply, and for every user account the balance of every pool resource and
//!     of the pool unit (returned buckets are measured by depositing them into these accounts).
//! TracePools.tla (big integers) accepts or rejects each step against the nondeterministic
//! actions of Pools.tla.
use radix_engine::blueprints::pool::v1::constants::*;
use rand::prelude::*;
use scrypto_test::prelude::*;
use serde_json::{json, Value};
use vh::util::*;
use vh::Args;

#[derive(Clone, Copy, PartialEq, Debug)]
enum Kind {
    One,
    Two,
    Multi,
}

pub fn limbs(d: Decimal) -> Value {
    limbs_from_le_bytes_signed(&d.attos().to_le_bytes())
}

fn pow10(n: u32) -> I192 {
    let mut x = I192::from(1u8);
    for _ in 0..n {
        x = x * I192::from(10u8);
    }
    x
}
fn ulp(div: u8) -> Decimal {
    Decimal::from_attos(pow10(18 - div as u32))
}
fn max_mint() -> Decimal {
    let mut x = I192::from(1u8);
    for _ in 0..152 {
        x = x * I192::from(2u8);
    }
    Decimal::from_attos(x)
}
fn floor_to(x: Decimal, div: u8) -> Decimal {
    x.checked_round(div, RoundingMode::ToZero).unwrap()
}

pub struct Env {
    pub ledger: DefaultLedgerSimulator,
    pub users: Vec<ComponentAddress>,
    /// resources already created, per divisibility (a pool takes the first, second.. of its divisibility);
    /// balances the users hold from earlier cases are part of the next case's recorded initial state
    res_cache: std::collections::BTreeMap<u8, Vec<ResourceAddress>>,
}

pub struct Pool {
    kind: Kind,
    addr: ComponentAddress,
    unit: ResourceAddress,
    res: Vec<ResourceAddress>,
    divs: Vec<u8>,
    last_mint: Vec<Decimal>,
}

pub fn err_class(e: &RuntimeError) -> String {
    // the chain of enum variant names at the head of the Debug form, e.g.
    // ApplicationError.TwoResourcePoolError.DecimalOverflowError
    let s = format!("{:?}", e);
    let mut out: Vec<String> = vec![];
    let mut cur = String::new();
    for c in s.chars() {
        if c.is_alphanumeric() || c == '_' {
            cur.push(c);
        } else if c == '(' {
            if cur.is_empty() {
                break;
            }
            out.push(std::mem::take(&mut cur));
        } else {
            break;
        }
        if out.len() >= 4 {
            break;
        }
    }
    if !cur.is_empty() && out.len() < 4 && !cur.chars().next().unwrap().is_ascii_digit() {
        out.push(cur);
    }
    out.join(".")
}

/// (outcome, error class, trap?)
pub fn outcome(r: &Result<TransactionReceipt, String>) -> (String, String, bool) {
    match r {
        Err(_) => ("panic".into(), "panic".into(), false),
        Ok(receipt) => match &receipt.result {
            TransactionResult::Commit(c) => match &c.outcome {
                TransactionOutcome::Success(_) => ("commit".into(), "".into(), false),
                TransactionOutcome::Failure(e) => {
                    let dbg = format!("{:?}", e);
                    let trap = dbg.contains("Trap") || dbg.contains("NativeRuntimeError");
                    ("err".into(), err_class(e), trap)
                }
            },
            TransactionResult::Reject(r) => ("reject".into(), format!("{:?}", r.reason).chars().take(60).collect(), false),
            TransactionResult::Abort(_) => ("abort".into(), "abort".into(), false),
        },
    }
}

impl Env {
    pub fn new() -> Self {
        let mut ledger = LedgerSimulatorBuilder::new().build();
        let users = (0..2).map(|_| ledger.new_account_advanced(OwnerRole::Fixed(rule!(allow_all)))).collect();
        Env { ledger, users, res_cache: Default::default() }
    }

    fn new_pool(&mut self, kind: Kind, divs: &[u8]) -> Pool {
        let owner = self.users[0];
        let mut used: std::collections::BTreeMap<u8, usize> = Default::default();
        let mut res: Vec<ResourceAddress> = vec![];
        for d in divs.iter() {
            let j = *used.get(d).unwrap_or(&0);
            used.insert(*d, j + 1);
            if self.res_cache.get(d).map(|v| v.len()).unwrap_or(0) <= j {
                let r = self.ledger.create_freely_mintable_and_burnable_fungible_resource(OwnerRole::None, None, *d, owner);
                self.res_cache.entry(*d).or_default().push(r);
            }
            res.push(self.res_cache[d][j]);
        }
        let b = ManifestBuilder::new().lock_fee_from_faucet();
        let b = match kind {
            Kind::One => b.call_function(
                POOL_PACKAGE,
                ONE_RESOURCE_POOL_BLUEPRINT_IDENT,
                ONE_RESOURCE_POOL_INSTANTIATE_IDENT,
                OneResourcePoolInstantiateManifestInput {
                    resource_address: res[0].into(),
                    pool_manager_rule: rule!(allow_all).into(),
                    owner_role: OwnerRole::None.into(),
                    address_reservation: None,
                },
            ),
            Kind::Two => b.call_function(
                POOL_PACKAGE,
                TWO_RESOURCE_POOL_BLUEPRINT_IDENT,
                TWO_RESOURCE_POOL_INSTANTIATE_IDENT,
                TwoResourcePoolInstantiateManifestInput {
                    resource_addresses: (res[0].into(), res[1].into()),
                    pool_manager_rule: rule!(allow_all).into(),
                    owner_role: OwnerRole::None.into(),
                    address_reservation: None,
                },
            ),
            Kind::Multi => b.call_function(
                POOL_PACKAGE,
                MULTI_RESOURCE_POOL_BLUEPRINT_IDENT,
                MULTI_RESOURCE_POOL_INSTANTIATE_IDENT,
                MultiResourcePoolInstantiateManifestInput {
                    resource_addresses: res.iter().map(|r| (*r).into()).collect(),
                    pool_manager_rule: rule!(allow_all).into(),
                    owner_role: OwnerRole::None.into(),
                    address_reservation: None,
                },
            ),
        };
        let receipt = self.ledger.execute_manifest(b.build(), vec![]);
        let c = receipt.expect_commit_success();
        let n = self.users.len();
        Pool {
            kind,
            addr: c.new_component_addresses()[0],
            unit: c.new_resource_addresses()[0],
            res,
            divs: divs.to_vec(),
            last_mint: vec![Decimal::ZERO; n],
        }
    }

    fn reserves(&mut self, p: &Pool) -> Vec<Decimal> {
        p.res.iter().map(|r| self.ledger.get_component_balance(p.addr, *r)).collect()
    }
    fn units(&mut self, p: &Pool) -> Decimal {
        self.ledger.get_fungible_resource_total_supply(p.unit)
    }
    fn held(&mut self, p: &Pool) -> Vec<Decimal> {
        let us = self.users.clone();
        us.iter().map(|u| self.ledger.get_component_balance(*u, p.unit)).collect()
    }
    fn bal(&mut self, p: &Pool) -> Vec<Vec<Decimal>> {
        let us = self.users.clone();
        us.iter().map(|u| p.res.iter().map(|r| self.ledger.get_component_balance(*u, *r)).collect()).collect()
    }

    /// the projected abstract state, as limbs
    fn obs(&mut self, p: &Pool) -> Value {
        let res: Vec<Value> = self.reserves(p).into_iter().map(limbs).collect();
        let units = limbs(self.units(p));
        let held: Vec<Value> = self.held(p).into_iter().map(limbs).collect();
        let bal: Vec<Vec<Value>> = self.bal(p).into_iter().map(|v| v.into_iter().map(limbs).collect()).collect();
        json!({"res": res, "units": units, "held": held, "bal": bal})
    }

    fn exec(&mut self, m: TransactionManifestV1) -> Result<TransactionReceipt, String> {
        catch(|| self.ledger.execute_manifest(m, vec![]))
    }
}

// ---------------------------------------------------------------------------------------------
// amount classes (DESIGN 5/C41): resolved against the CURRENT real state

fn mid(div: u8, salt: u64) -> Decimal {
    // 1234.567890123456789 + salt, cut to the divisibility
    let a = I192::from(1234_567_890_123_456_789u64) * I192::from(1000u32) + I192::from(salt) * pow10(18);
    floor_to(Decimal::from_attos(a), div)
}

fn resource_amount(class: &str, div: u8, reserve: Decimal, balance: Decimal, salt: u64) -> Decimal {
    let u = ulp(div);
    let mm = floor_to(max_mint(), div);
    let capped = |x: Option<Decimal>| -> Decimal {
        match x {
            Some(v) if v <= mm => floor_to(v, div),
            _ => mm,
        }
    };
    match class {
        "zero" => Decimal::ZERO,
        "sub" => u,
        "tiny" => u.checked_mul(Decimal::from(3u8)).unwrap(),
        "mid" => mid(div, salt),
        "eq" => {
            if reserve.is_zero() {
                mid(div, salt)
            } else {
                capped(Some(reserve))
            }
        }
        "third" => {
            let t = floor_to(reserve.checked_div(Decimal::from(3u8)).unwrap(), div);
            if t.is_zero() {
                u
            } else {
                t
            }
        }
        "x1e6" => {
            if reserve.is_zero() {
                capped(Decimal::from(1_000_000u64).checked_mul(mid(div, salt)))
            } else {
                capped(reserve.checked_mul(Decimal::from(1_000_000u64)))
            }
        }
        "part" => {
            // reserve * j/8 with the same j for every resource of one operation: in the current ratio
            let j = Decimal::from(1 + (salt / 16) % 7);
            let t = reserve.checked_mul(j).and_then(|v| v.checked_div(Decimal::from(8u8))).map(|v| floor_to(v, div));
            match t {
                Some(v) if !v.is_zero() => capped(Some(v)),
                _ => mid(div, salt),
            }
        }
        "max" => mm,
        "bal" => balance,
        c if c.starts_with('=') => Decimal::try_from(&c[1..]).expect("explicit amount"),
        _ => panic!("unknown amount class {}", class),
    }
}

fn unit_amount(class: &str, held: Decimal, last_mint: Decimal) -> Decimal {
    let atto = Decimal::from_attos(I192::from(1u8));
    match class {
        "sub" => atto,
        "tiny" => Decimal::from_attos(I192::from(3u8)),
        "half" => Decimal::from_attos(held.attos() / I192::from(2u8)),
        "third" => Decimal::from_attos(held.attos() / I192::from(3u8)),
        "all" => held,
        "over" => held.checked_add(atto).unwrap(),
        "last" => last_mint,
        c if c.starts_with('=') => Decimal::try_from(&c[1..]).expect("explicit amount"),
        _ => panic!("unknown unit class {}", class),
    }
}

// ---------------------------------------------------------------------------------------------
// operations

impl Env {
    /// contribute amounts[r] of every pool resource; `from_acct[r]`: taken from the user's account
    /// instead of being minted in the transaction.  Everything returned goes to the user's account.
    fn contribute(&mut self, p: &mut Pool, u: usize, amounts: &[Decimal], from_acct: &[bool]) -> Value {
        let acct = self.users[u];
        let held0 = self.ledger.get_component_balance(acct, p.unit);
        let mut b = ManifestBuilder::new().lock_fee_from_faucet();
        for (i, r) in p.res.iter().enumerate() {
            if from_acct[i] {
                b = b.withdraw_from_account(acct, *r, amounts[i]);
            } else if !amounts[i].is_zero() {
                b = b.mint_fungible(*r, amounts[i]);
            }
            b = b.take_from_worktop(*r, amounts[i], format!("b{}", i));
        }
        let (addr, kind, n) = (p.addr, p.kind, p.res.len());
        b = b.with_name_lookup(|b, l| match kind {
            Kind::One => b.call_method(addr, ONE_RESOURCE_POOL_CONTRIBUTE_IDENT, OneResourcePoolContributeManifestInput { bucket: l.bucket("b0") }),
            Kind::Two => b.call_method(
                addr,
                TWO_RESOURCE_POOL_CONTRIBUTE_IDENT,
                TwoResourcePoolContributeManifestInput { buckets: (l.bucket("b0"), l.bucket("b1")) },
            ),
            Kind::Multi => b.call_method(
                addr,
                MULTI_RESOURCE_POOL_CONTRIBUTE_IDENT,
                MultiResourcePoolContributeManifestInput {
                    buckets: ManifestBucketBatch::ManifestBuckets((0..n).map(|i| l.bucket(format!("b{}", i))).collect()),
                },
            ),
        });
        let m = b.try_deposit_entire_worktop_or_abort(acct, None).build();
        let r = self.exec(m);
        let (out, cls, trap) = outcome(&r);
        if out == "commit" {
            let held1 = self.ledger.get_component_balance(acct, p.unit);
            p.last_mint[u] = held1.checked_sub(held0).unwrap_or(Decimal::ZERO);
        }
        let mut ev = self.obs(p);
        let o = ev.as_object_mut().unwrap();
        o.insert("a".into(), json!("contribute"));
        o.insert("u".into(), json!(u + 1));
        o.insert("in".into(), json!(amounts.iter().map(|a| limbs(*a)).collect::<Vec<_>>()));
        o.insert("acct".into(), json!(from_acct));
        o.insert("out".into(), json!(out));
        o.insert("cls".into(), json!(cls));
        o.insert("trap".into(), json!(trap));
        ev
    }

    fn redeem(&mut self, p: &mut Pool, u: usize, x: Decimal) -> Value {
        let acct = self.users[u];
        let (addr, kind, unit) = (p.addr, p.kind, p.unit);
        let b = ManifestBuilder::new().lock_fee_from_faucet().withdraw_from_account(acct, unit, x).take_all_from_worktop(unit, "pu");
        let b = b.with_name_lookup(|b, l| match kind {
            Kind::One => b.call_method(addr, ONE_RESOURCE_POOL_REDEEM_IDENT, OneResourcePoolRedeemManifestInput { bucket: l.bucket("pu") }),
            Kind::Two => b.call_method(addr, TWO_RESOURCE_POOL_REDEEM_IDENT, TwoResourcePoolRedeemManifestInput { bucket: l.bucket("pu") }),
            Kind::Multi => b.call_method(addr, MULTI_RESOURCE_POOL_REDEEM_IDENT, MultiResourcePoolRedeemManifestInput { bucket: l.bucket("pu") }),
        });
        let m = b.try_deposit_entire_worktop_or_abort(acct, None).build();
        let r = self.exec(m);
        let (out, cls, trap) = outcome(&r);
        let mut ev = self.obs(p);
        let o = ev.as_object_mut().unwrap();
        o.insert("a".into(), json!("redeem"));
        o.insert("u".into(), json!(u + 1));
        o.insert("x".into(), limbs(x));
        o.insert("out".into(), json!(out));
        o.insert("cls".into(), json!(cls));
        o.insert("trap".into(), json!(trap));
        ev
    }

    fn pdeposit(&mut self, p: &mut Pool, ri: usize, x: Decimal) -> Value {
        let (addr, kind, r) = (p.addr, p.kind, p.res[ri]);
        let mut b = ManifestBuilder::new().lock_fee_from_faucet();
        if !x.is_zero() {
            b = b.mint_fungible(r, x);
        }
        b = b.take_from_worktop(r, x, "d");
        let b = b.with_name_lookup(|b, l| match kind {
            Kind::One => b.call_method(addr, ONE_RESOURCE_POOL_PROTECTED_DEPOSIT_IDENT, OneResourcePoolProtectedDepositManifestInput { bucket: l.bucket("d") }),
            Kind::Two => b.call_method(addr, TWO_RESOURCE_POOL_PROTECTED_DEPOSIT_IDENT, TwoResourcePoolProtectedDepositManifestInput { bucket: l.bucket("d") }),
            Kind::Multi => b.call_method(addr, MULTI_RESOURCE_POOL_PROTECTED_DEPOSIT_IDENT, MultiResourcePoolProtectedDepositManifestInput { bucket: l.bucket("d") }),
        });
        let r = self.exec(b.build());
        let (out, cls, trap) = outcome(&r);
        let mut ev = self.obs(p);
        let o = ev.as_object_mut().unwrap();
        o.insert("a".into(), json!("pdeposit"));
        o.insert("r".into(), json!(ri + 1));
        o.insert("x".into(), limbs(x));
        o.insert("out".into(), json!(out));
        o.insert("cls".into(), json!(cls));
        o.insert("trap".into(), json!(trap));
        ev
    }

    /// the withdrawn bucket goes to user `u`'s account
    fn pwithdraw(&mut self, p: &mut Pool, u: usize, ri: usize, x: Decimal, exact: bool) -> Value {
        let acct = self.users[u];
        let (addr, kind, r) = (p.addr, p.kind, p.res[ri]);
        let strat = if exact { WithdrawStrategy::Exact } else { WithdrawStrategy::Rounded(RoundingMode::ToZero) };
        let b = ManifestBuilder::new().lock_fee_from_faucet();
        let b = match kind {
            Kind::One => b.call_method(
                addr,
                ONE_RESOURCE_POOL_PROTECTED_WITHDRAW_IDENT,
                OneResourcePoolProtectedWithdrawManifestInput { amount: x, withdraw_strategy: strat },
            ),
            Kind::Two => b.call_method(
                addr,
                TWO_RESOURCE_POOL_PROTECTED_WITHDRAW_IDENT,
                TwoResourcePoolProtectedWithdrawManifestInput { resource_address: r.into(), amount: x, withdraw_strategy: strat },
            ),
            Kind::Multi => b.call_method(
                addr,
                MULTI_RESOURCE_POOL_PROTECTED_WITHDRAW_IDENT,
                MultiResourcePoolProtectedWithdrawManifestInput { resource_address: r.into(), amount: x, withdraw_strategy: strat },
            ),
        };
        let m = b.try_deposit_entire_worktop_or_abort(acct, None).build();
        let r = self.exec(m);
        let (out, cls, trap) = outcome(&r);
        let mut ev = self.obs(p);
        let o = ev.as_object_mut().unwrap();
        o.insert("a".into(), json!("pwithdraw"));
        o.insert("u".into(), json!(u + 1));
        o.insert("r".into(), json!(ri + 1));
        o.insert("x".into(), limbs(x));
        o.insert("out".into(), json!(out));
        o.insert("cls".into(), json!(cls));
        o.insert("trap".into(), json!(trap));
        ev
    }

    fn reset_event(&mut self, p: &Pool, case: usize) -> Value {
        let mut ev = self.obs(p);
        let o = ev.as_object_mut().unwrap();
        o.insert("a".into(), json!("reset"));
        o.insert("case".into(), json!(case));
        o.insert("kind".into(), json!(format!("{:?}", p.kind)));
        o.insert("n".into(), json!(p.res.len()));
        o.insert("nu".into(), json!(self.users.len()));
        o.insert("div".into(), json!(p.divs));
        o.insert("dz".into(), json!(p.divs.iter().map(|d| 18 - *d as i64).collect::<Vec<_>>()));
        o.insert("ulp".into(), json!(p.divs.iter().map(|d| limbs(ulp(*d))).collect::<Vec<_>>()));
        o.insert("prec".into(), json!(36));
        ev
    }
}

fn kind_of(s: &str) -> Kind {
    match s {
        "one" | "One" => Kind::One,
        "two" | "Two" => Kind::Two,
        "multi" | "Multi" => Kind::Multi,
        _ => panic!("pool kind"),
    }
}

pub fn run(mode: &str, args: &Args) {
    match mode {
        "run" => run_cases(args),
        "record" => record(args),
        "selftest" => selftest(),
        _ => panic!("mode"),
    }
}

/// Executes one model-generated op (classes) on the pool; returns the event.
fn do_op(env: &mut Env, p: &mut Pool, op: &Value, salt: u64) -> Value {
    let name = op["op"].as_str().unwrap();
    let u = op["u"].as_u64().unwrap_or(1) as usize - 1;
    match name {
        "contribute" => {
            let res = env.reserves(p);
            let bal = env.bal(p);
            let cls: Vec<String> = op["amt"].as_array().unwrap().iter().map(|c| c.as_str().unwrap().to_string()).collect();
            let mut amounts = vec![];
            let mut from_acct = vec![];
            for i in 0..p.res.len() {
                let c = &cls[i.min(cls.len() - 1)];
                // "bal" with an empty account: mint a middle amount instead
                let use_acct = c == "bal" && !bal[u][i].is_zero();
                let c2 = if c == "bal" && !use_acct { "mid" } else { c.as_str() };
                amounts.push(resource_amount(c2, p.divs[i], res[i], bal[u][i], salt * 16 + i as u64));
                from_acct.push(use_acct);
            }
            env.contribute(p, u, &amounts, &from_acct)
        }
        "redeem" => {
            let held = env.held(p);
            let x = unit_amount(op["amt"].as_str().unwrap(), held[u], p.last_mint[u]);
            env.redeem(p, u, x)
        }
        "pdeposit" => {
            let ri = (op["r"].as_u64().unwrap() as usize - 1).min(p.res.len() - 1);
            let res = env.reserves(p);
            let x = resource_amount(op["amt"].as_str().unwrap(), p.divs[ri], res[ri], Decimal::ZERO, salt);
            env.pdeposit(p, ri, x)
        }
        "pwithdraw" => {
            let ri = (op["r"].as_u64().unwrap() as usize - 1).min(p.res.len() - 1);
            let res = env.reserves(p);
            let x = match op["amt"].as_str().unwrap() {
                "all" => res[ri],
                "half" => Decimal::from_attos(res[ri].attos() / I192::from(2u8)),
                "third" => Decimal::from_attos(res[ri].attos() / I192::from(3u8)),
                "sub" => ulp(p.divs[ri]),
                "over" => res[ri].checked_add(ulp(p.divs[ri])).unwrap(),
                c => panic!("pwithdraw class {}", c),
            };
            let exact = op["exact"].as_bool().unwrap_or(false);
            env.pwithdraw(p, u, ri, x, exact)
        }
        _ => panic!("unknown op {}", name),
    }
}

/// G: cases from stdin: {"kind": "one|two|multi", "divs": [..], "ops": [{op, u, amt, ...}]}
fn run_cases(_args: &Args) {
    let mut out = Out::new();
    let cases = read_lines();
    let mut env = Env::new();
    let mut steps = 0usize;
    for (ci, c) in cases.iter().enumerate() {
        let kind = kind_of(c["kind"].as_str().unwrap());
        let divs: Vec<u8> = c["divs"].as_array().unwrap().iter().map(|d| d.as_u64().unwrap() as u8).collect();
        let mut p = env.new_pool(kind, &divs);
        let ev = env.reset_event(&p, ci);
        out.emit(&ev);
        for (si, op) in c["ops"].as_array().unwrap().iter().enumerate() {
            let ev = do_op(&mut env, &mut p, op, (ci * 31 + si) as u64 % 977);
            out.emit(&ev);
            steps += 1;
        }
    }
    out.emit(&json!({"a": "end", "cases": cases.len(), "steps": steps}));
    out.flush();
}

fn random_decimal(rng: &mut StdRng, div: u8) -> Decimal {
    // random magnitude 10^-18 .. 10^27 with random leading digits
    let e = rng.gen_range(0..46u32);
    let m: u64 = rng.gen_range(1..1_000_000u64);
    let a = I192::from(m) * pow10(e);
    let mm = max_mint();
    let d = Decimal::from_attos(a);
    let d = if d > mm { mm } else { d };
    let r = floor_to(d, div);
    if r.is_zero() {
        ulp(div)
    } else {
        r
    }
}

/// T: seeded long histories incl. protected deposits/withdrawals that skew the ratio
fn record(args: &Args) {
    let seed = args.u64("seed", 1);
    let runs = args.u64("runs", 4);
    let len = args.u64("len", 100);
    let mut rng = StdRng::seed_from_u64(seed);
    let mut out = Out::new();
    let mut env = Env::new();
    let mut steps = 0usize;
    let res_cls = ["sub", "tiny", "mid", "eq", "third", "part", "x1e6", "max", "bal"];
    let unit_cls = ["sub", "tiny", "half", "third", "all", "over", "last"];
    let wd_cls = ["all", "half", "third", "sub", "over"];
    let div_choices: [u8; 5] = [0, 2, 18, 18, 6];
    for run in 0..runs {
        let kind = [Kind::One, Kind::Two, Kind::Multi][(run % 3) as usize];
        let n = match kind {
            Kind::One => 1,
            Kind::Two => 2,
            Kind::Multi => rng.gen_range(2..=3),
        };
        let divs: Vec<u8> = (0..n).map(|_| div_choices[rng.gen_range(0..div_choices.len())]).collect();
        let mut p = env.new_pool(kind, &divs);
        let ev = env.reset_event(&p, run as usize);
        out.emit(&ev);
        // profile of the run: how wild amounts are
        let wild = rng.gen_bool(0.35);
        for _ in 0..len {
            let u = rng.gen_range(0..env.users.len());
            let roll = rng.gen_range(0..100);
            let ev = if roll < 42 {
                // contribute
                let res = env.reserves(&p);
                let bal = env.bal(&p);
                let mut amounts = vec![];
                let mut from_acct = vec![];
                // base ratio for in-ratio contributions
                let k = rng.gen_range(1..2000u64);
                for i in 0..n {
                    let style = rng.gen_range(0..10);
                    let (a, acct) = if style < 4 && !res[i].is_zero() {
                        // roughly in ratio: reserve * k / 1000
                        let x = res[i].checked_mul(Decimal::from(k)).and_then(|v| v.checked_div(Decimal::from(1000u64)));
                        let x = x.map(|v| floor_to(v, divs[i])).unwrap_or(max_mint());
                        (if x.is_zero() { ulp(divs[i]) } else if x > max_mint() { floor_to(max_mint(), divs[i]) } else { x }, false)
                    } else if style < 7 || !wild {
                        if style == 9 && !bal[u][i].is_zero() {
                            (bal[u][i], true)
                        } else {
                            (floor_to(random_decimal(&mut rng, divs[i]).checked_div(Decimal::from(if wild { 1u64 } else { 1_000_000_000u64 })).unwrap(), divs[i]).max(ulp(divs[i])), false)
                        }
                    } else {
                        let c = res_cls[rng.gen_range(0..res_cls.len())];
                        let c = if c == "bal" && bal[u][i].is_zero() { "mid" } else { c };
                        (resource_amount(c, divs[i], res[i], bal[u][i], rng.gen_range(0..500)), c == "bal")
                    };
                    amounts.push(a);
                    from_acct.push(acct);
                }
                env.contribute(&mut p, u, &amounts, &from_acct)
            } else if roll < 80 {
                let held = env.held(&p);
                let x = if rng.gen_bool(0.5) {
                    unit_amount(unit_cls[rng.gen_range(0..unit_cls.len())], held[u], p.last_mint[u])
                } else {
                    // random fraction of the holding
                    let f = rng.gen_range(1..1000u64);
                    Decimal::from_attos(held[u].attos() / I192::from(1000u64) * I192::from(f))
                };
                env.redeem(&mut p, u, x)
            } else if roll < 90 {
                let ri = rng.gen_range(0..n);
                let res = env.reserves(&p);
                let x = if rng.gen_bool(0.5) {
                    resource_amount(["sub", "tiny", "mid", "eq", "third", "x1e6"][rng.gen_range(0..6)], divs[ri], res[ri], Decimal::ZERO, rng.gen_range(0..500))
                } else {
                    random_decimal(&mut rng, divs[ri])
                };
                env.pdeposit(&mut p, ri, x)
            } else {
                let ri = rng.gen_range(0..n);
                let res = env.reserves(&p);
                let c = wd_cls[rng.gen_range(0..wd_cls.len())];
                let x = match c {
                    "all" => res[ri],
                    "half" => Decimal::from_attos(res[ri].attos() / I192::from(2u8)),
                    "third" => Decimal::from_attos(res[ri].attos() / I192::from(3u8)),
                    "sub" => ulp(divs[ri]),
                    _ => res[ri].checked_add(ulp(divs[ri])).unwrap(),
                };
                env.pwithdraw(&mut p, u, ri, x, rng.gen_bool(0.3))
            };
            out.emit(&ev);
            steps += 1;
        }
    }
    out.emit(&json!({"a": "end", "cases": runs, "steps": steps}));
    out.flush();
}

/// trusted-base self-test: the byte-level limb conversion agrees with Display on sample values
fn selftest() {
    let mut out = Out::new();
    let samples = [Decimal::ZERO, Decimal::ONE, max_mint(), ulp(0), ulp(18), mid(2, 5), Decimal::MAX];
    let mut bad = 0;
    for s in samples.iter() {
        let l = limbs(*s);
        // rebuild the decimal digits from limbs
        let ls: Vec<u64> = l["l"].as_array().unwrap().iter().map(|x| x.as_u64().unwrap()).collect();
        let mut digits = String::new();
        for (i, x) in ls.iter().rev().enumerate() {
            if i == 0 {
                digits.push_str(&format!("{}", x));
            } else {
                digits.push_str(&format!("{:04}", x));
            }
        }
        if digits.is_empty() {
            digits.push('0');
        }
        let expect = format!("{}", s.attos());
        if digits != expect {
            bad += 1;
        }
    }
    out.emit(&json!({"selftest": "limbs", "bad": bad}));
    out.flush();
}

//! vh_auth — authorization column: Auth (C08) and Locking (C51) at ledger level
//! (scrypto_test::LedgerSimulator + native test blueprints, see tb.rs).
#![allow(clippy::all)]
mod auth;
mod locking;
mod tb;

fn main() {
    let (module, mode, args) = vh::start();
    match module.as_str() {
        "auth" => auth::run(&mode, &args),
        "locking" => locking::run(&mode, &args),
        m => vh::unknown(m),
    }
}

//! Shared native test blueprints of vh_auth (no WASM build: OverridePackageCode +
//! publish_native_package + VmInvoke, the mechanism of radix-engine-tests/tests/system/*.rs).
//!
//! Package layout (published any number of times with the same native code id):
//!   blueprint "Relay" — functions `new`, `run_fn`; methods `run` (executes one step of a call plan:
//!     pushes the proofs the model placed in this frame's auth zone, then performs the next call),
//!     `make_proofs` / `deposit` (bank of resources), role-protected targets `m_*`, and the
//!     field / key-value operations used by the Locking module.
//!   blueprint "Prot"  — functions `f0 .. fN`, each with its own function access rule.
//! The blueprints contain NO decision logic: they do what the plan / the caller says.
#![allow(dead_code)]
use radix_blueprint_schema_init::*;
use radix_common::prelude::basic_well_known_types::ANY_TYPE;
use radix_engine::vm::{OverridePackageCode, VmApi, VmInvoke};
use radix_engine_interface::blueprints::package::*;
use radix_native_sdk::modules::metadata::Metadata;
use radix_native_sdk::modules::role_assignment::RoleAssignment;
use radix_native_sdk::modules::royalty::ComponentRoyalty;
use scrypto_test::prelude::*;

pub const CODE_ID: u64 = 1024;
pub const RELAY: &str = "Relay";
pub const PROT: &str = "Prot";

#[derive(Debug, Clone, ScryptoSbor, ManifestSbor)]
pub struct ProofSpec {
    pub res: ResourceAddress,
    /// used when `ids` is empty (fungible proof by amount)
    pub amount: Decimal,
    pub ids: Vec<NonFungibleLocalId>,
}

#[derive(Debug, Clone, ScryptoSbor, ManifestSbor)]
pub enum Act {
    /// call `run` of a global Relay component (global context change)
    CallGlobal(ComponentAddress),
    /// call `run` of the owned child object kept in field 0 of the current component
    CallChild,
    /// create a fresh Relay object in this frame, call its `run`, drop it afterwards
    CallFrameOwned,
    /// call the function `run_fn` of blueprint Relay of the given package
    CallFunction(PackageAddress),
    TargetMethod(ComponentAddress, String),
    TargetFunction(PackageAddress, String, String),
    /// Runtime::assert_access_rule inside the current frame
    Assert(AccessRule),
    /// module method (metadata / royalty / role assignment) called from a component frame
    TargetModuleMethod(ComponentAddress, u8, String, Vec<u8>),
}

#[derive(Debug, Clone, ScryptoSbor, ManifestSbor)]
pub struct Step {
    pub proofs: Vec<ProofSpec>,
    pub act: Act,
}

#[derive(Debug, Clone, ScryptoSbor, ManifestSbor)]
pub struct Plan {
    pub bank: ComponentAddress,
    pub steps: Vec<Step>,
}

#[derive(Debug, Clone, ScryptoSbor, ManifestSbor)]
pub struct NewArgs {
    pub owner: OwnerRoleEntry,
    pub roles: IndexMap<ModuleId, RoleAssignmentInit>,
    pub with_child: bool,
    /// attach a royalty module with this configuration
    pub royalty: Option<ComponentRoyaltyConfig>,
    pub metadata: MetadataInit,
    /// initial value / lock flag of field 1
    pub field_val: u32,
    pub field_locked: bool,
    /// initial entries of the key-value collection: key, value, locked
    pub kv: Vec<(u32, Option<u32>, bool)>,
    /// rules handed over as Scrypto-SBOR bytes (0 = fixed owner rule, 1 = r1, 2 = r2): rules near the
    /// depth limit cannot travel through manifest SBOR (depth 24) and are decoded natively
    pub blobs: Vec<(u8, Vec<u8>)>,
    /// addresses mentioned inside the blobs (as typed values they become visible references of the frame)
    pub refs: Vec<ResourceAddress>,
    /// initial entries of the standalone KeyValueStore owned by the component: key, value, locked
    pub store: Vec<(u32, Option<u32>, bool)>,
}

impl NewArgs {
    pub fn simple(owner: OwnerRole, main_roles: RoleAssignmentInit) -> Self {
        NewArgs {
            owner: owner.into(),
            roles: indexmap!(ModuleId::Main => main_roles),
            with_child: true,
            royalty: None,
            metadata: MetadataInit::default(),
            field_val: 0,
            field_locked: false,
            kv: vec![],
            blobs: vec![],
            refs: vec![],
            store: vec![],
        }
    }
}

/// field 0 of a Relay object
#[derive(Debug, ScryptoSbor)]
pub struct RelayState {
    pub child: Option<Own>,
    pub vaults: Vec<(ResourceAddress, Own)>,
    /// a standalone KeyValueStore<u32, u32> node (its entries go through key_value_store_open_entry)
    pub store: Option<Own>,
}

/// the role-protected target methods and their static role lists
pub const TARGET_METHODS: &[(&str, &[&str])] = &[
    ("m_r1", &["r1"]),
    ("m_r2", &["r2"]),
    ("m_r1r2", &["r1", "r2"]),
    ("m_r2r1", &["r2", "r1"]),
    ("m_owner", &[OWNER_ROLE]),
    ("m_self", &[SELF_ROLE]),
    ("m_r1self", &["r1", SELF_ROLE]),
    ("m_none", &[]),
];
pub const PUBLIC_METHODS: &[&str] = &[
    "run", "make_proofs", "deposit", "m_pub", "field_write", "field_lock", "field_lock_write", "field_read",
    "kv_read", "set_role_blob", "set_owner_blob",
];
/// key-value operations are protected by the owner role, the field operations are public
pub const OWNER_METHODS: &[&str] =
    &["kv_set", "kv_lock", "kv_remove", "kv_lock_set", "kvs_set", "kvs_lock", "kvs_remove", "kvs_lock_set"];

fn fn_schema(export: &str, receiver: bool) -> FunctionSchemaInit {
    FunctionSchemaInit {
        receiver: if receiver { Some(ReceiverInfo::normal_ref_mut()) } else { None },
        input: TypeRef::Static(LocalTypeId::WellKnown(ANY_TYPE)),
        output: TypeRef::Static(LocalTypeId::WellKnown(ANY_TYPE)),
        export: export.to_string(),
    }
}

/// the Relay package with package royalties: every function / method of blueprint Relay gets an entry (Free unless
/// listed in `royalties`)
pub fn package_definition_with_royalties(royalties: &[(&str, RoyaltyAmount)]) -> PackageDefinition {
    let mut def = package_definition(None);
    let relay = def.blueprints.get_mut(RELAY).unwrap();
    let mut cfg = index_map_new();
    for name in relay.schema.functions.functions.keys() {
        let amount = royalties.iter().find(|(n, _)| n == name).map(|(_, a)| *a).unwrap_or(RoyaltyAmount::Free);
        cfg.insert(name.clone(), amount);
    }
    relay.royalty_config = PackageRoyaltyConfig::Enabled(cfg);
    def
}

/// `prot_rules`: access rules of the functions f0.. of blueprint Prot (None: blueprint Prot is left out)
pub fn package_definition(prot_rules: Option<&[AccessRule]>) -> PackageDefinition {
    let mut functions = index_map_new();
    functions.insert("new".to_string(), fn_schema("new", false));
    functions.insert("run_fn".to_string(), fn_schema("run_fn", false));
    functions.insert("publish_blob".to_string(), fn_schema("publish_blob", false));
    let mut methods = index_map_new();
    for m in PUBLIC_METHODS {
        functions.insert(m.to_string(), fn_schema(m, true));
        methods.insert(MethodKey::new(*m), MethodAccessibility::Public);
    }
    for m in OWNER_METHODS {
        functions.insert(m.to_string(), fn_schema(m, true));
        methods.insert(MethodKey::new(*m), MethodAccessibility::RoleProtected(RoleList::from([OWNER_ROLE])));
    }
    for (m, roles) in TARGET_METHODS {
        functions.insert(m.to_string(), fn_schema("m_target", true));
        let list = RoleList { list: roles.iter().map(|r| RoleKey::new(*r)).collect() };
        methods.insert(MethodKey::new(*m), MethodAccessibility::RoleProtected(list));
    }
    functions.insert("m_pkg".to_string(), fn_schema("m_target", true));
    methods.insert(MethodKey::new("m_pkg"), MethodAccessibility::OwnPackageOnly);
    let roles = indexmap!(
        RoleKey::new("r1") => RoleList::from([OWNER_ROLE]),
        RoleKey::new("r2") => RoleList::from([OWNER_ROLE]),
    );
    let relay = BlueprintDefinitionInit {
        schema: BlueprintSchemaInit {
            state: BlueprintStateSchemaInit {
                fields: vec![
                    FieldSchema::static_field(LocalTypeId::WellKnown(ANY_TYPE)),
                    FieldSchema::static_field(LocalTypeId::WellKnown(ANY_TYPE)),
                ],
                collections: vec![BlueprintCollectionSchema::KeyValueStore(BlueprintKeyValueSchema {
                    key: TypeRef::Static(LocalTypeId::WellKnown(ANY_TYPE)),
                    value: TypeRef::Static(LocalTypeId::WellKnown(ANY_TYPE)),
                    allow_ownership: false,
                })],
            },
            functions: BlueprintFunctionsSchemaInit { functions },
            ..Default::default()
        },
        auth_config: AuthConfig {
            function_auth: FunctionAuth::AllowAll,
            method_auth: MethodAuthTemplate::StaticRoleDefinition(StaticRoleDefinition {
                roles: RoleSpecification::Normal(roles),
                methods,
            }),
        },
        ..Default::default()
    };
    let mut blueprints = index_map_new();
    blueprints.insert(RELAY.to_string(), relay);
    if let Some(rules) = prot_rules {
        let mut functions = index_map_new();
        let mut auth = index_map_new();
        for (i, r) in rules.iter().enumerate() {
            functions.insert(format!("f{}", i), fn_schema("prot_fn", false));
            auth.insert(format!("f{}", i), r.clone());
        }
        blueprints.insert(
            PROT.to_string(),
            BlueprintDefinitionInit {
                schema: BlueprintSchemaInit {
                    functions: BlueprintFunctionsSchemaInit { functions },
                    ..Default::default()
                },
                auth_config: AuthConfig {
                    function_auth: FunctionAuth::AccessRules(auth),
                    method_auth: MethodAuthTemplate::AllowAll,
                },
                ..Default::default()
            },
        );
    }
    PackageDefinition { blueprints }
}

fn unit() -> IndexedScryptoValue {
    IndexedScryptoValue::from_typed(&())
}

fn arg<T: ScryptoDecode>(input: &IndexedScryptoValue) -> Result<T, RuntimeError> {
    input
        .as_typed::<T>()
        .map_err(|e| RuntimeError::ApplicationError(ApplicationError::InputDecodeError(e)))
}

#[derive(Clone)]
pub struct TestInvoke;

impl TestInvoke {
    fn relay_fields(child: Option<Own>, field_val: u32, locked: bool) -> IndexMap<FieldIndex, FieldValue> {
        Self::relay_fields_with_store(child, None, field_val, locked)
    }

    fn relay_fields_with_store(child: Option<Own>, store: Option<Own>, field_val: u32, locked: bool) -> IndexMap<FieldIndex, FieldValue> {
        indexmap!(
            0u8 => FieldValue::new(RelayState { child, vaults: vec![], store }),
            1u8 => if locked { FieldValue::immutable(field_val) } else { FieldValue::new(field_val) },
        )
    }

    fn new_relay<Y: SystemApi<RuntimeError>>(mut a: NewArgs, api: &mut Y) -> Result<IndexedScryptoValue, RuntimeError> {
        for (which, blob) in std::mem::take(&mut a.blobs) {
            let rule: AccessRule = scrypto_decode(&blob).expect("rule blob");
            match which {
                0 => a.owner = OwnerRoleEntry { rule, updater: OwnerRoleUpdater::None },
                1 | 2 => {
                    a.roles
                        .entry(ModuleId::Main)
                        .or_default()
                        .data
                        .insert(RoleKey::new(if which == 1 { "r1" } else { "r2" }), Some(rule));
                }
                _ => panic!("blob slot"),
            }
        }
        let child = if a.with_child {
            Some(Own(api.new_simple_object(RELAY, Self::relay_fields(None, 0, false))?))
        } else {
            None
        };
        let mut kv = index_map_new();
        for (k, v, locked) in a.kv {
            kv.insert(scrypto_encode(&k).unwrap(), KVEntry { value: v.map(|v| scrypto_encode(&v).unwrap()), locked });
        }
        // the standalone store with its initial entries (present / absent, locked or not)
        let store = api.key_value_store_new(KeyValueStoreDataSchema::new_local_without_self_package_replacement::<u32, u32>(false))?;
        for (k, v, locked) in &a.store {
            let h = api.key_value_store_open_entry(&store, &scrypto_encode(k).unwrap(), LockFlags::MUTABLE)?;
            if let Some(v) = v {
                api.key_value_entry_set_typed(h, *v)?;
            }
            if *locked {
                api.key_value_entry_lock(h)?;
            }
            api.key_value_entry_close(h)?;
        }
        let node = api.new_object(
            RELAY,
            vec![],
            GenericArgs::default(),
            Self::relay_fields_with_store(child, Some(Own(store)), a.field_val, a.field_locked),
            indexmap!(0u8 => kv),
        )?;
        let role_assignment = RoleAssignment::create(a.owner, a.roles, api)?.0 .0;
        let metadata = Metadata::create_with_data(a.metadata, api)?.0;
        let mut modules = indexmap!(
            AttachedModuleId::RoleAssignment => role_assignment,
            AttachedModuleId::Metadata => metadata,
        );
        if let Some(cfg) = a.royalty {
            modules.insert(AttachedModuleId::Royalty, ComponentRoyalty::create(cfg, api)?.0);
        }
        let address = api.globalize(node, modules, None)?;
        Ok(IndexedScryptoValue::from_typed(&ComponentAddress::new_or_panic(address.into())))
    }

    fn run<Y: SystemApi<RuntimeError>>(plan: Plan, api: &mut Y) -> Result<IndexedScryptoValue, RuntimeError> {
        let step = plan.steps[0].clone();
        let rest = Plan { bank: plan.bank, steps: plan.steps[1..].to_vec() };
        if !step.proofs.is_empty() {
            let rtn = api.call_method(plan.bank.as_node_id(), "make_proofs", scrypto_encode(&(step.proofs,)).unwrap())?;
            let proofs: Vec<Proof> = scrypto_decode(&rtn).unwrap();
            for p in proofs {
                LocalAuthZone::push(p, api)?;
            }
        }
        let rest_args = scrypto_encode(&(rest,)).unwrap();
        let no_args = scrypto_encode(&()).unwrap();
        match step.act {
            Act::CallGlobal(c) => {
                api.call_method(c.as_node_id(), "run", rest_args)?;
            }
            Act::CallChild => {
                let h = api.actor_open_field(ACTOR_STATE_SELF, 0u8, LockFlags::read_only())?;
                let st: RelayState = api.field_read_typed(h)?;
                let child = st.child.expect("plan calls the child of a childless object");
                api.call_method(child.as_node_id(), "run", rest_args)?;
                api.field_close(h)?;
            }
            Act::CallFrameOwned => {
                let node = api.new_simple_object(RELAY, Self::relay_fields(None, 0, false))?;
                api.call_method(&node, "run", rest_args)?;
                api.drop_object(&node)?;
            }
            Act::CallFunction(pkg) => {
                api.call_function(pkg, RELAY, "run_fn", rest_args)?;
            }
            Act::TargetMethod(c, m) => {
                api.call_method(c.as_node_id(), &m, no_args)?;
            }
            Act::TargetFunction(pkg, bp, f) => {
                api.call_function(pkg, &bp, &f, no_args)?;
            }
            Act::Assert(rule) => {
                Runtime::assert_access_rule(rule, api)?;
            }
            Act::TargetModuleMethod(c, module, m, args) => {
                let module = match module {
                    1 => AttachedModuleId::Metadata,
                    2 => AttachedModuleId::Royalty,
                    _ => AttachedModuleId::RoleAssignment,
                };
                api.call_module_method(c.as_node_id(), module, &m, args)?;
            }
        }
        Ok(unit())
    }

    fn with_vault<Y: SystemApi<RuntimeError>, R>(
        res: ResourceAddress,
        api: &mut Y,
        f: impl FnOnce(&mut Vault, &mut Y) -> Result<R, RuntimeError>,
    ) -> Result<R, RuntimeError> {
        let h = api.actor_open_field(ACTOR_STATE_SELF, 0u8, LockFlags::read_only())?;
        let st: RelayState = api.field_read_typed(h)?;
        let own = st.vaults.iter().find(|(r, _)| *r == res).expect("bank has no vault of the resource").1;
        let r = f(&mut Vault(own), api)?;
        api.field_close(h)?;
        Ok(r)
    }
}

impl VmInvoke for TestInvoke {
    fn invoke<Y: SystemApi<RuntimeError> + KernelNodeApi + KernelSubstateApi<SystemLockData>, V: VmApi>(
        &mut self,
        export_name: &str,
        input: &IndexedScryptoValue,
        api: &mut Y,
        _vm_api: &V,
    ) -> Result<IndexedScryptoValue, RuntimeError> {
        match export_name {
            "new" => {
                let (a,): (NewArgs,) = arg(input)?;
                Self::new_relay(a, api)
            }
            "run" | "run_fn" => {
                let (plan,): (Plan,) = arg(input)?;
                Self::run(plan, api)
            }
            "m_target" | "m_pub" | "prot_fn" => Ok(unit()),
            // the component stores a rule handed over as bytes through its own role-assignment module
            "set_role_blob" | "set_owner_blob" => {
                let me = api.actor_get_node_id(ACTOR_REF_GLOBAL)?;
                let (ident, args) = if export_name == "set_role_blob" {
                    let (role, blob, _refs): (String, Vec<u8>, Vec<ResourceAddress>) = arg(input)?;
                    let rule: AccessRule = scrypto_decode(&blob).expect("rule blob");
                    (
                        ROLE_ASSIGNMENT_SET_IDENT,
                        scrypto_encode(&RoleAssignmentSetInput { module: ModuleId::Main, role_key: RoleKey::new(role), rule }).unwrap(),
                    )
                } else {
                    let (blob, _refs): (Vec<u8>, Vec<ResourceAddress>) = arg(input)?;
                    let rule: AccessRule = scrypto_decode(&blob).expect("rule blob");
                    (ROLE_ASSIGNMENT_SET_OWNER_IDENT, scrypto_encode(&RoleAssignmentSetOwnerInput { rule }).unwrap())
                };
                api.call_module_method(&me, AttachedModuleId::RoleAssignment, ident, args)?;
                Ok(unit())
            }
            // publish a native package whose definition arrives as bytes (system transactions only)
            "publish_blob" => {
                let (blob,): (Vec<u8>,) = arg(input)?;
                let definition: PackageDefinition = scrypto_decode(&blob).expect("definition blob");
                let rtn = api.call_function(
                    PACKAGE_PACKAGE,
                    PACKAGE_BLUEPRINT,
                    PACKAGE_PUBLISH_NATIVE_IDENT,
                    scrypto_encode(&PackagePublishNativeInput {
                        definition,
                        native_package_code_id: CODE_ID,
                        metadata: MetadataInit::default(),
                        package_address: None,
                    })
                    .unwrap(),
                )?;
                Ok(IndexedScryptoValue::from_vec(rtn).unwrap())
            }
            "deposit" => {
                let (bucket,): (Bucket,) = arg(input)?;
                let res = bucket.resource_address(api)?;
                let h = api.actor_open_field(ACTOR_STATE_SELF, 0u8, LockFlags::MUTABLE)?;
                let mut st: RelayState = api.field_read_typed(h)?;
                if let Some((_, own)) = st.vaults.iter().find(|(r, _)| *r == res) {
                    Vault(*own).put(bucket, api)?;
                } else {
                    let mut v = Vault::create(res, api)?;
                    v.put(bucket, api)?;
                    st.vaults.push((res, v.0));
                    api.field_write_typed(h, &st)?;
                }
                api.field_close(h)?;
                Ok(unit())
            }
            "make_proofs" => {
                let (specs,): (Vec<ProofSpec>,) = arg(input)?;
                let mut proofs = Vec::new();
                for s in specs {
                    let p = Self::with_vault(s.res, api, |v, api| {
                        if s.ids.is_empty() {
                            v.create_proof_of_amount(s.amount, api)
                        } else {
                            v.create_proof_of_non_fungibles(s.ids.iter().cloned().collect(), api)
                        }
                    })?;
                    proofs.push(p);
                }
                Ok(IndexedScryptoValue::from_typed(&proofs))
            }
            // ---- Locking: object field (field 1) ----
            "field_write" => {
                let (v,): (u32,) = arg(input)?;
                let h = api.actor_open_field(ACTOR_STATE_SELF, 1u8, LockFlags::MUTABLE)?;
                api.field_write_typed(h, &v)?;
                api.field_close(h)?;
                Ok(unit())
            }
            "field_lock" => {
                let h = api.actor_open_field(ACTOR_STATE_SELF, 1u8, LockFlags::MUTABLE)?;
                api.field_lock(h)?;
                api.field_close(h)?;
                Ok(unit())
            }
            // lock and then write through the SAME handle
            "field_lock_write" => {
                let (v,): (u32,) = arg(input)?;
                let h = api.actor_open_field(ACTOR_STATE_SELF, 1u8, LockFlags::MUTABLE)?;
                api.field_lock(h)?;
                api.field_write_typed(h, &v)?;
                api.field_close(h)?;
                Ok(unit())
            }
            "field_read" => {
                let h = api.actor_open_field(ACTOR_STATE_SELF, 1u8, LockFlags::read_only())?;
                let v: u32 = api.field_read_typed(h)?;
                api.field_close(h)?;
                Ok(IndexedScryptoValue::from_typed(&v))
            }
            // ---- Locking: key-value collection 0 ----
            "kv_set" => {
                let (k, v): (u32, u32) = arg(input)?;
                let h = api.actor_open_key_value_entry(ACTOR_STATE_SELF, 0u8, &scrypto_encode(&k).unwrap(), LockFlags::MUTABLE)?;
                api.key_value_entry_set_typed(h, v)?;
                api.key_value_entry_close(h)?;
                Ok(unit())
            }
            "kv_lock" => {
                let (k,): (u32,) = arg(input)?;
                let h = api.actor_open_key_value_entry(ACTOR_STATE_SELF, 0u8, &scrypto_encode(&k).unwrap(), LockFlags::MUTABLE)?;
                api.key_value_entry_lock(h)?;
                api.key_value_entry_close(h)?;
                Ok(unit())
            }
            "kv_lock_set" => {
                let (k, v): (u32, u32) = arg(input)?;
                let h = api.actor_open_key_value_entry(ACTOR_STATE_SELF, 0u8, &scrypto_encode(&k).unwrap(), LockFlags::MUTABLE)?;
                api.key_value_entry_lock(h)?;
                api.key_value_entry_set_typed(h, v)?;
                api.key_value_entry_close(h)?;
                Ok(unit())
            }
            "kv_remove" => {
                let (k,): (u32,) = arg(input)?;
                let _ = api.actor_remove_key_value_entry(ACTOR_STATE_SELF, 0u8, &scrypto_encode(&k).unwrap())?;
                Ok(unit())
            }
            // ---- Locking: entries of the standalone KeyValueStore node ----
            "kvs_set" | "kvs_lock" | "kvs_lock_set" | "kvs_remove" => {
                let (k, v): (u32, u32) = arg(input)?;
                let fh = api.actor_open_field(ACTOR_STATE_SELF, 0u8, LockFlags::read_only())?;
                let st: RelayState = api.field_read_typed(fh)?;
                let store = st.store.expect("component without a store");
                let key = scrypto_encode(&k).unwrap();
                if export_name == "kvs_remove" {
                    let _ = api.key_value_store_remove_entry(store.as_node_id(), &key)?;
                } else {
                    let h = api.key_value_store_open_entry(store.as_node_id(), &key, LockFlags::MUTABLE)?;
                    if export_name != "kvs_set" {
                        api.key_value_entry_lock(h)?;
                    }
                    if export_name != "kvs_lock" {
                        api.key_value_entry_set_typed(h, v)?;
                    }
                    api.key_value_entry_close(h)?;
                }
                api.field_close(fh)?;
                Ok(unit())
            }
            "kv_read" => {
                let (k,): (u32,) = arg(input)?;
                let h = api.actor_open_key_value_entry(ACTOR_STATE_SELF, 0u8, &scrypto_encode(&k).unwrap(), LockFlags::read_only())?;
                let v: Option<u32> = api.key_value_entry_get_typed(h)?;
                api.key_value_entry_close(h)?;
                Ok(IndexedScryptoValue::from_typed(&v))
            }
            other => panic!("vh_auth test blueprint: unknown export {}", other),
        }
    }
}

pub type Ledger = LedgerSimulator<OverridePackageCode<TestInvoke>, InMemorySubstateDatabase>;

pub fn new_ledger() -> Ledger {
    LedgerSimulatorBuilder::new()
        .with_custom_extension(OverridePackageCode::new(CODE_ID, TestInvoke))
        .without_kernel_trace()
        .without_receipt_substate_check()
        .build()
}

/// publishes a package through the test blueprint's `publish_blob` (definition as bytes: no manifest depth limit)
pub fn publish_blob(ledger: &mut Ledger, via: PackageAddress, definition: PackageDefinition) -> Result<PackageAddress, RuntimeError> {
    let receipt = ledger.execute_system_transaction(
        ManifestBuilder::new_system_v1()
            .call_function(via, RELAY, "publish_blob", (scrypto_encode(&definition).unwrap(),))
            .build(),
        btreeset!(system_execution(SystemExecution::Protocol)),
    );
    match &receipt.result {
        TransactionResult::Commit(c) => match &c.outcome {
            TransactionOutcome::Success(_) => Ok(receipt.expect_commit(true).output(0)),
            TransactionOutcome::Failure(e) => Err(e.clone()),
        },
        _ => panic!("harness: package publication was not committed: {:?}", receipt.result),
    }
}

/// publish_native_package that reports failure instead of panicking
pub fn publish(ledger: &mut Ledger, definition: PackageDefinition) -> Result<PackageAddress, RuntimeError> {
    let receipt = ledger.execute_system_transaction(
        ManifestBuilder::new_system_v1()
            .call_function(
                PACKAGE_PACKAGE,
                PACKAGE_BLUEPRINT,
                PACKAGE_PUBLISH_NATIVE_IDENT,
                PackagePublishNativeManifestInput {
                    definition: definition.into(),
                    native_package_code_id: CODE_ID,
                    metadata: MetadataInit::default().into(),
                    package_address: None,
                },
            )
            .build(),
        btreeset!(system_execution(SystemExecution::Protocol)),
    );
    match &receipt.result {
        TransactionResult::Commit(c) => match &c.outcome {
            TransactionOutcome::Success(_) => Ok(receipt.expect_commit(true).output(0)),
            TransactionOutcome::Failure(e) => Err(e.clone()),
        },
        _ => panic!("harness: package publication was not committed: {:?}", receipt.result),
    }
}

/// The fixed on-ledger world every case runs in.
pub struct World {
    pub ledger: Ledger,
    pub pkg: PackageAddress,
    pub bank: ComponentAddress,
    pub fres: ResourceAddress,
    pub nres: ResourceAddress,
    pub account: ComponentAddress,
    pub account_key: Secp256k1PublicKey,
}

impl World {
    pub fn new() -> World {
        Self::with_definition(package_definition(None))
    }

    pub fn with_definition(definition: PackageDefinition) -> World {
        let mut ledger = new_ledger();
        let pkg = publish(&mut ledger, definition).expect("publish relay package");
        let (key, _, account) = ledger.new_account(false);
        let fres = ledger.create_fungible_resource(dec!(1000), 18, account);
        let nres = ledger.create_non_fungible_resource(account); // ids #1#, #2#, #3#
        let mut w = World { ledger, pkg, bank: account, fres, nres, account, account_key: key };
        let bank = w.new_component(pkg, NewArgs::simple(OwnerRole::None, RoleAssignmentInit::default())).expect("bank");
        w.bank = bank;
        let sig = NonFungibleGlobalId::from_public_key(&key);
        let manifest = ManifestBuilder::new()
            .lock_fee_from_faucet()
            .withdraw_from_account(account, fres, dec!(100))
            .take_all_from_worktop(fres, "f")
            .call_method_with_name_lookup(bank, "deposit", |l| (l.bucket("f"),))
            .withdraw_non_fungibles_from_account(
                account,
                nres,
                [NonFungibleLocalId::integer(1), NonFungibleLocalId::integer(2), NonFungibleLocalId::integer(3)],
            )
            .take_all_from_worktop(nres, "n")
            .call_method_with_name_lookup(bank, "deposit", |l| (l.bucket("n"),))
            .build();
        w.ledger.execute_manifest(manifest, vec![sig]).expect_commit_success();
        w
    }

    pub fn new_component(&mut self, pkg: PackageAddress, args: NewArgs) -> Result<ComponentAddress, RuntimeError> {
        let manifest = ManifestBuilder::new().lock_fee_from_faucet().call_function(pkg, RELAY, "new", (args,)).build();
        let receipt = self.ledger.execute_manifest(manifest, vec![]);
        match &receipt.result {
            TransactionResult::Commit(c) => match &c.outcome {
                TransactionOutcome::Success(_) => Ok(c.new_component_addresses()[0]),
                TransactionOutcome::Failure(e) => Err(e.clone()),
            },
            r => panic!("harness: instantiation not committed: {:?}", r),
        }
    }
}

//! C51 — binding of spec/Locking to the real engine at ledger level.
//!   replay:  behaviours of GenLocking (initial state + operations with the caller's badges, the expected outcome
//!            class and the expected state of every item) are executed as one transaction per operation on a
//!            component of the native test blueprint with metadata, royalty and role-assignment modules; after
//!            every step the lock flag and value of every item are read back from the database and compared.
//!   monitor: records, for every committed transaction of the repository's transaction scenarios (all protocol
//!            versions) or of a replay, the lockable substates (fields, key-value entries) it wrote; the recording
//!            is judged by spec/Locking/TraceLocking.tla.
//! The harness drives and projects; which operations must fail and what must stay unchanged is decided in TLA+.
use crate::tb::*;
use radix_engine::object_modules::metadata::MetadataEntryEntryPayload;
use radix_engine::object_modules::role_assignment::{RoleAssignmentAccessRuleEntryPayload, RoleAssignmentOwnerFieldPayload};
use radix_engine::object_modules::royalty::ComponentRoyaltyMethodAmountEntryPayload;
use radix_engine::system::system_db_reader::*;
use radix_engine::updates::*;
use radix_substate_store_interface::interface::*;
use radix_transaction_scenarios::executor::*;
use scrypto_test::prelude::*;
use serde_json::{json, Value};
use std::collections::{BTreeMap, BTreeSet, HashMap};
use std::io::Write;
use vh::util::*;
use vh::Args;

pub fn run(mode: &str, args: &Args) {
    match mode {
        "replay" => replay(args),
        "scenarios" => scenarios(args),
        _ => panic!("mode"),
    }
}

// ---------------------------------------------------------------------------------------------
// monitor: projection of state updates

#[derive(Default)]
pub struct Monitor {
    ids: HashMap<(NodeId, PartitionNumber, SubstateKey), u64>,
    vals: HashMap<Hash, u64>,
    pub events: Vec<Value>,
    pub legend: BTreeMap<u64, String>,
    pub txs: u64,
    pub writes: u64,
    pub locked_writes: u64,
}

/// a sized view of any substate database (SystemDatabaseReader's partition queries need a sized type)
struct DynDb<'a>(&'a dyn SubstateDatabase);
impl<'a> SubstateDatabase for DynDb<'a> {
    fn get_raw_substate_by_db_key(&self, partition_key: &DbPartitionKey, sort_key: &DbSortKey) -> Option<DbSubstateValue> {
        self.0.get_raw_substate_by_db_key(partition_key, sort_key)
    }
    fn list_raw_values_from_db_key(
        &self,
        partition_key: &DbPartitionKey,
        from_sort_key: Option<&DbSortKey>,
    ) -> Box<dyn Iterator<Item = PartitionEntry> + '_> {
        self.0.list_raw_values_from_db_key(partition_key, from_sort_key)
    }
}

enum Kind {
    Field,
    KeyValue,
    Other,
}

impl Monitor {
    fn kind(reader: &SystemDatabaseReader<DynDb>, node: &NodeId, part: &PartitionNumber, key: &SubstateKey) -> Kind {
        let descs = match reader.get_partition_descriptors(node, part) {
            Ok(d) => d,
            Err(_) => return Kind::Other,
        };
        for d in descs {
            match d {
                SystemPartitionDescriptor::Object(_, ObjectPartitionDescriptor::Fields) => {
                    if matches!(key, SubstateKey::Field(_)) {
                        return Kind::Field;
                    }
                }
                SystemPartitionDescriptor::Object(_, ObjectPartitionDescriptor::KeyValueCollection(_))
                | SystemPartitionDescriptor::KeyValueStore
                | SystemPartitionDescriptor::Schema => {
                    if matches!(key, SubstateKey::Map(_)) {
                        return Kind::KeyValue;
                    }
                }
                _ => {}
            }
        }
        Kind::Other
    }

    /// lock flag of a raw substate of the given kind (None: not decodable as such a substate)
    fn lock_flag(kind: &Kind, raw: &[u8]) -> Option<bool> {
        match kind {
            Kind::Field => scrypto_decode::<FieldSubstate<ScryptoValue>>(raw).ok().map(|s| s.lock_status() == LockStatus::Locked),
            Kind::KeyValue => scrypto_decode::<KeyValueEntrySubstate<ScryptoValue>>(raw).ok().map(|s| s.lock_status() == LockStatus::Locked),
            Kind::Other => None,
        }
    }

    pub fn record(&mut self, action: &str, src: &str, updates: &StateUpdates, db_after: &dyn SubstateDatabase) {
        let dyn_db = DynDb(db_after);
        let reader = SystemDatabaseReader::new(&dyn_db);
        let mut w: Vec<Value> = Vec::new();
        for (node, nu) in &updates.by_node {
            let tracker = if node.entity_type() == Some(EntityType::GlobalTransactionTracker) { 1 } else { 0 };
            let NodeStateUpdates::Delta { by_partition } = nu;
            for (part, pu) in by_partition {
                let entries: Vec<(SubstateKey, Option<&Vec<u8>>)> = match pu {
                    PartitionStateUpdates::Delta { by_substate } => by_substate
                        .iter()
                        .map(|(k, u)| (k.clone(), match u { DatabaseUpdate::Set(v) => Some(v), DatabaseUpdate::Delete => None }))
                        .collect(),
                    // a partition reset: everything recorded earlier under this partition is deleted, then the new values
                    PartitionStateUpdates::Batch(BatchPartitionStateUpdate::Reset { new_substate_values }) => {
                        let mut e: Vec<(SubstateKey, Option<&Vec<u8>>)> = self
                            .ids
                            .keys()
                            .filter(|(n, p, k)| n == node && p == part && !new_substate_values.contains_key(k))
                            .map(|(_, _, k)| (k.clone(), None))
                            .collect();
                        e.extend(new_substate_values.iter().map(|(k, v)| (k.clone(), Some(v))));
                        e
                    }
                };
                for (key, val) in entries {
                    let kind = Self::kind(&reader, node, part, &key);
                    if matches!(kind, Kind::Other) {
                        continue;
                    }
                    let n = self.ids.len() as u64 + 1;
                    let id = *self.ids.entry((*node, *part, key.clone())).or_insert(n);
                    self.legend.entry(id).or_insert_with(|| format!("{}/{}/{:?}", hex::encode(node.0), part.0, key));
                    let (lk, v) = match val {
                        None => (0, -1i64),
                        Some(raw) => {
                            let lk = Self::lock_flag(&kind, raw).unwrap_or(false);
                            let nv = self.vals.len() as u64 + 1;
                            (if lk { 1 } else { 0 }, *self.vals.entry(hash(raw)).or_insert(nv) as i64)
                        }
                    };
                    self.writes += 1;
                    self.locked_writes += lk as u64;
                    w.push(json!([id, lk, v, tracker]));
                }
            }
        }
        self.txs += 1;
        self.events.push(json!({"a": action, "src": src, "n": self.txs, "w": w}));
    }

    pub fn write(&self, path: &str) {
        let mut f = std::io::BufWriter::new(std::fs::File::create(path).expect("monitor file"));
        for e in &self.events {
            serde_json::to_writer(&mut f, e).unwrap();
            f.write_all(b"\n").unwrap();
        }
        let mut g = std::io::BufWriter::new(std::fs::File::create(format!("{}.legend", path)).expect("legend file"));
        serde_json::to_writer(&mut g, &self.legend).unwrap();
    }
}

struct Hooks<'m> {
    m: &'m mut Monitor,
    only: Option<String>,
    t0: std::time::Instant,
}
impl<'m, S: SubstateDatabase> ScenarioExecutionHooks<S> for Hooks<'m> {
    fn on_scenario_started(&mut self, event: OnScenarioStarted<S>) {
        if std::env::var("VH_TIMING").is_ok() {
            eprintln!("{:?} scenario {} at {}", self.t0.elapsed(), event.metadata.logical_name, event.current_protocol_version.logical_name());
        }
    }
    fn on_transaction_executed(&mut self, event: OnScenarioTransactionExecuted<S>) {
        if let TransactionResult::Commit(c) = &event.receipt.result {
            let src = format!("{}:{}", event.metadata.logical_name, event.transaction.logical_name);
            self.m.record("tx", &src, &c.state_updates, &*event.database);
        }
    }
}
impl<'m> ProtocolUpdateExecutionHooks for Hooks<'m> {
    fn on_transaction_executed(&mut self, event: OnProtocolTransactionExecuted) {
        if let TransactionResult::Commit(c) = &event.receipt.result {
            let src = format!("protocol:{}:{}", event.protocol_version.logical_name(), event.batch_name);
            self.m.record("flash", &src, &c.state_updates, &*event.resultant_store);
        }
    }
}

/// the repository's transaction scenarios, every protocol version from genesis to the latest
fn scenarios(args: &Args) {
    let path = args.str("out", "/dev/null");
    let mut mon = Monitor::default();
    let db = InMemorySubstateDatabase::standard();
    let mut executor = TransactionScenarioExecutor::new(db, NetworkDefinition::simulator());
    // every scenario once, at the first protocol version it is valid for;  skip=<names>: left out
    let skip: Vec<String> = args.str("skip", "").split(',').filter(|x| !x.is_empty()).map(|x| x.to_string()).collect();
    {
        let mon_ptr: *mut Monitor = &mut mon;
        // the scenario hooks and the protocol-update hooks feed the same recording
        let mut h1 = Hooks { m: unsafe { &mut *mon_ptr }, only: None, t0: std::time::Instant::now() };
        let mut h2 = Hooks { m: unsafe { &mut *mon_ptr }, only: None, t0: std::time::Instant::now() };
        for (i, version) in ProtocolVersion::all_from(ProtocolVersion::GENESIS).enumerate() {
            let names: BTreeSet<String> = radix_transaction_scenarios::scenarios::all_scenarios_iter()
                .map(|c| c.metadata())
                .filter(|m| m.protocol_min_requirement == version && !skip.iter().any(|x| x == m.logical_name))
                .map(|m| m.logical_name.to_string())
                .collect();
            executor
                .execute_protocol_updates_and_scenarios(
                    |b| if i == 0 { b.from_bootstrap_to(version) } else { b.from_current_to(version) },
                    ScenarioTrigger::AtStartOfProtocolVersions(btreeset!(version)),
                    ScenarioFilter::SpecificScenariosByName(names),
                    &mut h1,
                    &mut h2,
                    &VmModules::default(),
                )
                .expect("scenarios must run");
        }
        let _ = (&h1.only, &h2.only);
    }
    mon.write(&path);
    let mut out = Out::new();
    out.emit(&json!({"events": mon.events.len(), "writes": mon.writes, "locked_writes": mon.locked_writes,
                     "substates": mon.ids.len(),
                     "scenario_txs": mon.events.iter().filter(|e| e["a"] == "tx").count()}));
    out.flush();
}

// ---------------------------------------------------------------------------------------------
// replay of GenLocking behaviours

const KV_KEY: u32 = 1;
const MD_KEY: &str = "k";
const ROY_METHOD: &str = "m_pub";

/// where the items of a behaviour live.  The component of the native test blueprint hosts all six items; a
/// fungible resource manager hosts md / owner / role (role = "minter", its updater unassigned -> owner); an
/// account hosts md / owner.  A behaviour is replayed on a host restricted to the items the host has (the
/// model's verdict for an item depends only on that item and on the owner role).
#[derive(Clone, Copy, PartialEq, Debug)]
enum Host {
    Component,
    Resource,
    Account,
}
impl Host {
    fn items(&self) -> &'static [&'static str] {
        match self {
            Host::Component => &["field", "kv", "kvs", "md", "roy", "owner", "role"],
            Host::Resource => &["md", "owner", "role"],
            Host::Account => &["md", "owner"],
        }
    }
    fn role_key(&self) -> &'static str {
        match self {
            Host::Resource => MINTER_ROLE,
            _ => "r1",
        }
    }
}

struct Lk {
    w: World,
}

impl Lk {
    fn badge(&self, v: u64) -> NonFungibleGlobalId {
        NonFungibleGlobalId::new(self.w.nres, NonFungibleLocalId::integer(v))
    }
    fn owner_rule(&self, v: u64) -> AccessRule {
        rule!(require(self.badge(v)))
    }
    fn royalty(v: u64) -> RoyaltyAmount {
        if v == 0 { RoyaltyAmount::Free } else { RoyaltyAmount::Xrd(Decimal::from(v)) }
    }
    fn all_badges(&self) -> Vec<ProofSpec> {
        [1u64, 2].iter().map(|x| ProofSpec { res: self.w.nres, amount: dec!(0), ids: vec![NonFungibleLocalId::integer(*x)] }).collect()
    }
    fn must(&mut self, m: TransactionManifestV1, what: &str) -> TransactionReceipt {
        let r = self.w.ledger.execute_manifest(m, vec![]);
        if !r.is_commit_success() {
            panic!("harness: setup transaction failed ({}): {:?}", what, r.result);
        }
        r
    }

    fn create(&mut self, host: Host, st: &Value) -> GlobalAddress {
        let lk = |i: &str| st["locked"][i].as_bool().unwrap();
        let vl = |i: &str| st["val"][i].as_u64().unwrap();
        let owner_rule = self.owner_rule(vl("owner"));
        let owner = if lk("owner") { OwnerRole::Fixed(owner_rule) } else { OwnerRole::Updatable(owner_rule) };
        let md_entry = KeyValueStoreInitEntry {
            value: if vl("md") == 0 { None } else { Some(MetadataValue::U32(vl("md") as u32)) },
            lock: lk("md"),
        };
        let has_md = vl("md") != 0 || lk("md");
        match host {
            Host::Component => {
                let mut roles = RoleAssignmentInit::default();
                roles.data.insert(RoleKey::new("r1"), Some(self.owner_rule(vl("role"))));
                roles.data.insert(RoleKey::new("r2"), None);
                let mut a = NewArgs::simple(owner, roles);
                a.field_val = vl("field") as u32;
                a.field_locked = lk("field");
                if vl("kv") != 0 || lk("kv") {
                    a.kv.push((KV_KEY, if vl("kv") == 0 { None } else { Some(vl("kv") as u32) }, lk("kv")));
                }
                if vl("kvs") != 0 || lk("kvs") {
                    a.store.push((KV_KEY, if vl("kvs") == 0 { None } else { Some(vl("kvs") as u32) }, lk("kvs")));
                }
                if has_md {
                    a.metadata.data.insert(MD_KEY.to_string(), md_entry);
                }
                let mut cfg = ComponentRoyaltyConfig::default();
                if vl("roy") != 0 || lk("roy") {
                    cfg.royalty_amounts.insert(ROY_METHOD.to_string(), (Self::royalty(vl("roy")), lk("roy")));
                }
                a.royalty = Some(cfg);
                let pkg = self.w.pkg;
                self.w.new_component(pkg, a).expect("component of the initial state").into()
            }
            Host::Resource => {
                let mut md = MetadataInit::default();
                if has_md {
                    md.data.insert(MD_KEY.to_string(), md_entry);
                }
                let roles = FungibleResourceRoles {
                    mint_roles: Some(MintRoles { minter: Some(self.owner_rule(vl("role"))), minter_updater: None }),
                    ..Default::default()
                };
                let m = ManifestBuilder::new()
                    .lock_fee_from_faucet()
                    .create_fungible_resource(owner, true, 18, roles, ModuleConfig { init: md, roles: RoleAssignmentInit::default() }, None)
                    .build();
                let r = self.must(m, "create resource");
                r.expect_commit_success().new_resource_addresses()[0].into()
            }
            Host::Account => {
                let m = ManifestBuilder::new().lock_fee_from_faucet().new_account_advanced(owner, None).build();
                let r = self.must(m, "create account");
                let acc: GlobalAddress = r.expect_commit_success().new_component_addresses()[0].into();
                // the metadata entry of the initial state is established by the owner before the walk starts
                if has_md {
                    let bank = self.w.bank;
                    let mut b = ManifestBuilder::new().lock_fee_from_faucet().call_method(bank, "make_proofs", (self.all_badges(),));
                    if vl("md") != 0 {
                        b = b.set_metadata(acc, MD_KEY, MetadataValue::U32(vl("md") as u32));
                    }
                    if lk("md") {
                        b = b.lock_metadata(acc, MD_KEY);
                    }
                    self.must(b.build(), "account metadata");
                }
                acc
            }
        }
    }

    /// (locked, value) of every item the host has, read from the database
    fn observe(&self, host: Host, t: GlobalAddress) -> Value {
        let db = self.w.ledger.substate_db();
        let node = t.as_node_id();
        let rule_val = |r: &AccessRule| -> i64 {
            if *r == self.owner_rule(1) { 1 } else if *r == self.owner_rule(2) { 2 } else { -1 }
        };
        let kvp = |e: Option<(bool, i64)>| e.unwrap_or((false, 0));
        let mut locked = serde_json::Map::new();
        let mut val = serde_json::Map::new();
        let mut put = |i: &str, l: bool, v: i64| {
            locked.insert(i.to_string(), json!(l));
            val.insert(i.to_string(), json!(v));
        };
        if host == Host::Component {
            let field: FieldSubstate<u32> = db.get_substate(node, MAIN_BASE_PARTITION, SubstateKey::Field(1)).expect("field 1");
            put("field", field.lock_status() == LockStatus::Locked, *field.payload() as i64);
            let kv: Option<KeyValueEntrySubstate<u32>> = db.get_substate(
                node,
                MAIN_BASE_PARTITION.at_offset(PartitionOffset(1)).unwrap(),
                SubstateKey::Map(scrypto_encode(&KV_KEY).unwrap()),
            );
            let (l, v) = kvp(kv.map(|e| (e.is_locked(), e.into_value().map(|v| v as i64).unwrap_or(0))));
            put("kv", l, v);
            // the standalone store: its node id is kept in field 0 of the component
            let st: FieldSubstate<RelayState> = db.get_substate(node, MAIN_BASE_PARTITION, SubstateKey::Field(0)).expect("field 0");
            let store = st.into_payload().store.expect("component without a store");
            let kvs: Option<KeyValueEntrySubstate<u32>> =
                db.get_substate(store.as_node_id(), MAIN_BASE_PARTITION, SubstateKey::Map(scrypto_encode(&KV_KEY).unwrap()));
            let (l, v) = kvp(kvs.map(|e| (e.is_locked(), e.into_value().map(|v| v as i64).unwrap_or(0))));
            put("kvs", l, v);
            let roy: Option<KeyValueEntrySubstate<ComponentRoyaltyMethodAmountEntryPayload>> = db.get_substate(
                node,
                ROYALTY_BASE_PARTITION.at_offset(ROYALTY_CONFIG_PARTITION_OFFSET).unwrap(),
                SubstateKey::Map(scrypto_encode(&ROY_METHOD.to_string()).unwrap()),
            );
            let (l, v) = kvp(roy.map(|e: KeyValueEntrySubstate<ComponentRoyaltyMethodAmountEntryPayload>| {
                (e.is_locked(), e.into_value().map(|p: ComponentRoyaltyMethodAmountEntryPayload| match p.fully_update_and_into_latest_version() {
                    RoyaltyAmount::Free => 0,
                    RoyaltyAmount::Xrd(d) if d == dec!(1) => 1,
                    RoyaltyAmount::Xrd(d) if d == dec!(2) => 2,
                    _ => -1,
                }).unwrap_or(0))
            }));
            put("roy", l, v);
        }
        let md: Option<KeyValueEntrySubstate<MetadataEntryEntryPayload>> =
            db.get_substate(node, METADATA_BASE_PARTITION, SubstateKey::Map(scrypto_encode(&MD_KEY.to_string()).unwrap()));
        let (l, v) = kvp(md.map(|e: KeyValueEntrySubstate<MetadataEntryEntryPayload>| {
            (e.is_locked(), e.into_value().map(|p: MetadataEntryEntryPayload| match p.fully_update_and_into_latest_version() {
                MetadataValue::U32(v) => v as i64,
                _ => -1,
            }).unwrap_or(0))
        }));
        put("md", l, v);
        let owner: FieldSubstate<RoleAssignmentOwnerFieldPayload> =
            db.get_substate(node, ROLE_ASSIGNMENT_BASE_PARTITION, SubstateKey::Field(0)).expect("owner field");
        let owner_locked = owner.lock_status() == LockStatus::Locked;
        let owner_entry = owner.into_payload().fully_update_and_into_latest_version().owner_role_entry;
        put("owner", owner_locked, rule_val(&owner_entry.rule));
        if host != Host::Account {
            let role: Option<KeyValueEntrySubstate<RoleAssignmentAccessRuleEntryPayload>> = db.get_substate(
                node,
                ROLE_ASSIGNMENT_BASE_PARTITION.at_offset(ROLE_ASSIGNMENT_ROLE_DEF_PARTITION_OFFSET).unwrap(),
                SubstateKey::Map(scrypto_encode(&ModuleRoleKey::new(ModuleId::Main, host.role_key())).unwrap()),
            );
            let (l, v) = kvp(role.map(|e: KeyValueEntrySubstate<RoleAssignmentAccessRuleEntryPayload>| {
                (e.is_locked(), e.into_value().map(|p: RoleAssignmentAccessRuleEntryPayload| rule_val(&p.fully_update_and_into_latest_version())).unwrap_or(0))
            }));
            put("role", l, v);
        }
        json!({
            "locked": locked, "val": val,
            // the updater must be None exactly when the owner field is locked
            "owner_updater_none": owner_entry.updater == OwnerRoleUpdater::None,
        })
    }
}

/// the expected state restricted to the items of the host
fn restrict(host: Host, st: &Value) -> Value {
    let pick = |m: &Value| -> Value {
        Value::Object(host.items().iter().map(|i| (i.to_string(), m[*i].clone())).collect())
    };
    json!({"locked": pick(&st["locked"]), "val": pick(&st["val"])})
}

fn class(r: &TransactionReceipt) -> String {
    match &r.result {
        TransactionResult::Commit(c) => match &c.outcome {
            TransactionOutcome::Success(_) => "ok".into(),
            TransactionOutcome::Failure(e) => match e {
                RuntimeError::SystemModuleError(SystemModuleError::AuthError(AuthError::Unauthorized(_))) => "auth".into(),
                RuntimeError::SystemError(SystemError::FieldLocked(..)) | RuntimeError::SystemError(SystemError::KeyValueEntryLocked) => "locked".into(),
                e => format!("other:{:?}", e).chars().take(160).collect(),
            },
        },
        other => format!("notcommitted:{:?}", other).chars().take(120).collect(),
    }
}

fn replay(args: &Args) {
    let monitor_path = args.str("monitor", "");
    let part = args.u64("part", 0) as usize;
    let parts = args.u64("parts", 1) as usize;
    let hosts: Vec<Host> = args
        .str("hosts", "component")
        .split(',')
        .map(|h| match h {
            "component" => Host::Component,
            "resource" => Host::Resource,
            "account" => Host::Account,
            x => panic!("host {}", x),
        })
        .collect();
    let all = read_lines();
    let total = all.len();
    let mut out = Out::new();
    let mut lkx = Lk { w: World::new() };
    let mut mon = Monitor::default();
    let monitoring = !monitor_path.is_empty();
    let bank = lkx.w.bank;
    let mut steps = 0usize;
    let mut classes: BTreeMap<String, u64> = BTreeMap::new();
    let mut n_beh = 0usize;
    for (bi, beh) in all.iter().enumerate().filter(|(i, _)| i % parts == part) {
        n_beh += 1;
        let hist = beh.as_array().unwrap();
        for host in &hosts {
            let host = *host;
            let t = lkx.create(host, &hist[0]);
            let got0 = lkx.observe(host, t);
            let exp0 = restrict(host, &hist[0]);
            if got0["locked"] != exp0["locked"] || got0["val"] != exp0["val"] {
                out.mismatch(bi, 0, &format!("initial state ({:?})", host), exp0, got0.clone());
            }
            for (si, st) in hist.iter().enumerate().skip(1) {
                let (op, item, v) = (st["op"].as_str().unwrap(), st["item"].as_str().unwrap(), st["v"].as_u64().unwrap());
                if !host.items().contains(&item) {
                    continue;
                }
                let badges: Vec<u64> = st["c"].as_array().unwrap().iter().map(|x| x.as_u64().unwrap()).collect();
                let mut b = ManifestBuilder::new().lock_fee_from_faucet();
                if !badges.is_empty() {
                    let specs: Vec<ProofSpec> = badges
                        .iter()
                        .map(|x| ProofSpec { res: lkx.w.nres, amount: dec!(0), ids: vec![NonFungibleLocalId::integer(*x)] })
                        .collect();
                    b = b.call_method(bank, "make_proofs", (specs,));
                }
                let v32 = v as u32;
                let comp = || ComponentAddress::new_or_panic(t.into());
                // one instruction per elementary operation; "locktx" = lock and update as two calls of one transaction
                let elementary: Vec<&str> = if op == "locktx" { vec!["lock", "update"] } else { vec![op] };
                let mut b = b;
                for eop in elementary {
                    b = match (item, eop) {
                        ("field", "update") => b.call_method(t, "field_write", (v32,)),
                        ("field", "lock") => b.call_method(t, "field_lock", ()),
                        ("field", "lockwrite") => b.call_method(t, "field_lock_write", (v32,)),
                        ("kv", "update") => b.call_method(t, "kv_set", (KV_KEY, v32)),
                        ("kv", "remove") => b.call_method(t, "kv_remove", (KV_KEY,)),
                        ("kv", "lock") => b.call_method(t, "kv_lock", (KV_KEY,)),
                        ("kv", "lockwrite") => b.call_method(t, "kv_lock_set", (KV_KEY, v32)),
                        ("kvs", "update") => b.call_method(t, "kvs_set", (KV_KEY, v32)),
                        ("kvs", "remove") => b.call_method(t, "kvs_remove", (KV_KEY, 0u32)),
                        ("kvs", "lock") => b.call_method(t, "kvs_lock", (KV_KEY, 0u32)),
                        ("kvs", "lockwrite") => b.call_method(t, "kvs_lock_set", (KV_KEY, v32)),
                        ("md", "update") => b.set_metadata(t, MD_KEY, MetadataValue::U32(v32)),
                        ("md", "remove") => b.call_metadata_method(t, METADATA_REMOVE_IDENT, MetadataRemoveInput { key: MD_KEY.to_string() }),
                        ("md", "lock") => b.lock_metadata(t, MD_KEY),
                        ("roy", "update") => b.set_component_royalty(comp(), ROY_METHOD, Lk::royalty(v)),
                        ("roy", "lock") => b.lock_component_royalty(comp(), ROY_METHOD),
                        ("owner", "update") => b.set_owner_role(t, lkx.owner_rule(v)),
                        ("owner", "lock") => b.lock_owner_role(t),
                        ("role", "update") => b.set_role(t, ModuleId::Main, RoleKey::new(host.role_key()), lkx.owner_rule(v)),
                        x => panic!("operation {:?}", x),
                    };
                }
                // a panic of the code under test is data: outcome "panic:<message>"
                let manifest = b.build();
                let run = catch(|| lkx.w.ledger.execute_manifest(manifest, vec![]));
                steps += 1;
                if let (true, Ok(receipt)) = (monitoring, &run) {
                    if let TransactionResult::Commit(c) = &receipt.result {
                        mon.record("tx", &format!("b{}:{}:{}:{}", bi, si, item, op), &c.state_updates, lkx.w.ledger.substate_db());
                    }
                }
                let got = match &run {
                    Ok(receipt) => class(receipt),
                    Err(msg) => format!("panic:{}", msg).chars().take(160).collect(),
                };
                let exp = st["vd"].as_str().unwrap();
                if got != exp {
                    out.mismatch(bi, si, &format!("outcome ({:?})", host), json!(exp), json!(got));
                }
                let hn = if host == Host::Component { String::new() } else { format!("{:?}:", host).to_lowercase() };
                *classes.entry(format!("{}{}:{}:{}", hn, item, op, got.chars().take(30).collect::<String>())).or_insert(0) += 1;
                let obs = lkx.observe(host, t);
                let exps = restrict(host, st);
                if obs["locked"] != exps["locked"] || obs["val"] != exps["val"] {
                    out.mismatch(bi, si, &format!("state ({:?})", host), exps, obs.clone());
                }
                if obs["owner_updater_none"] != obs["locked"]["owner"] {
                    out.mismatch(bi, si, "owner updater", obs["locked"]["owner"].clone(), obs["owner_updater_none"].clone());
                }
            }
        }
    }
    if monitoring {
        mon.write(&monitor_path);
    }
    out.emit(&json!({"classes": classes, "part": part, "cases": n_beh,
                     "monitor": {"events": mon.events.len(), "writes": mon.writes, "locked_writes": mon.locked_writes}}));
    out.done(total, steps);
}

//! C08 — binding of spec/Auth to the real engine at ledger level.
//! Cases come from TLC (GenAuth) with the expected verdicts.  The harness only translates symbols into
//! addresses, compiles the chain of frames into a manifest + call plan for the native test blueprint
//! (tb.rs), executes it on a LedgerSimulator and projects the receipt onto
//!   "ok" | "unauthorized" (AuthError::Unauthorized naming the protected target) | "assert_failed" | other.
//! It contains no authorization logic.
use crate::tb::*;
use scrypto_test::prelude::*;
use serde_json::{json, Value};
use std::collections::BTreeMap;
use vh::util::*;
use vh::Args;

pub fn run(mode: &str, args: &Args) {
    match mode {
        "replay" => replay(args),
        _ => panic!("mode"),
    }
}

struct Ctx {
    w: World,
    c1: ComponentAddress,
    c2: ComponentAddress,
    t0: ComponentAddress,
    /// k1, k3: Secp256k1 keys, k2: an Ed25519 key (the model has one class of signature badges)
    keys: BTreeMap<String, PublicKey>,
    /// (site, cfg json) -> component or the class of the creation failure
    targets: BTreeMap<String, Result<ComponentAddress, String>>,
    /// rule json -> (package, function name) or the class of the publication failure
    functions: BTreeMap<String, Result<(PackageAddress, String), String>>,
}

fn s(v: &Value) -> &str {
    v.as_str().expect("string")
}

impl Ctx {
    fn resource(&self, r: &str) -> ResourceAddress {
        match r {
            "F" => self.w.fres,
            "N" => self.w.nres,
            "S" => SECP256K1_SIGNATURE_RESOURCE,
            "GC" => GLOBAL_CALLER_RESOURCE,
            "PK" => PACKAGE_OF_DIRECT_CALLER_RESOURCE,
            x => panic!("resource {}", x),
        }
    }
    fn comp(&self, name: &str, t: Option<ComponentAddress>) -> ComponentAddress {
        match name {
            "C1" => self.c1,
            "C2" => self.c2,
            "T0" => self.t0,
            "T" => t.expect("case uses T without a target component"),
            x => panic!("component {}", x),
        }
    }
    fn leaf(&self, l: &Value) -> ResourceOrNonFungible {
        let r = s(&l["r"]);
        if s(&l["kind"]) == "res" {
            return ResourceOrNonFungible::Resource(self.resource(r));
        }
        let id = s(&l["id"]);
        let gid = match r {
            "F" | "N" => NonFungibleGlobalId::new(self.resource(r), NonFungibleLocalId::integer(id.parse().unwrap())),
            "S" => NonFungibleGlobalId::from_public_key(&self.keys[id]),
            "GC" => NonFungibleGlobalId::global_caller_badge(match id {
                "bpRelay" => GlobalCaller::PackageBlueprint(BlueprintId::new(&self.w.pkg, RELAY)),
                "bpTx" => GlobalCaller::PackageBlueprint(BlueprintId::new(
                    &TRANSACTION_PROCESSOR_PACKAGE,
                    TRANSACTION_PROCESSOR_BLUEPRINT,
                )),
                "marker" => GlobalCaller::GlobalObject(FRAME_OWNED_GLOBAL_MARKER.into()),
                c => GlobalCaller::GlobalObject(self.comp(c, None).into()),
            }),
            "PK" => NonFungibleGlobalId::package_of_direct_caller_badge(match id {
                "P" => self.w.pkg,
                "TxP" => TRANSACTION_PROCESSOR_PACKAGE,
                x => panic!("package {}", x),
            }),
            x => panic!("nf resource {}", x),
        };
        ResourceOrNonFungible::NonFungible(gid)
    }
    fn leaves(&self, v: &Value) -> Vec<ResourceOrNonFungible> {
        v.as_array().unwrap().iter().map(|l| self.leaf(l)).collect()
    }
    fn basic(&self, b: &Value) -> BasicRequirement {
        let n = b["n"].as_u64().unwrap();
        match s(&b["op"]) {
            "require" => BasicRequirement::Require(self.leaf(&b["leaves"][0])),
            "amount" => BasicRequirement::AmountOf(Decimal::from(n), self.resource(s(&b["r"]))),
            "count" => BasicRequirement::CountOf(n as u8, self.leaves(&b["leaves"])),
            "allof" => BasicRequirement::AllOf(self.leaves(&b["leaves"])),
            "anyof" => BasicRequirement::AnyOf(self.leaves(&b["leaves"])),
            x => panic!("basic {}", x),
        }
    }
    fn composite(&self, c: &Value) -> CompositeRequirement {
        let kids = || c["kids"].as_array().unwrap().iter().map(|k| self.composite(k)).collect::<Vec<_>>();
        match s(&c["op"]) {
            "b" => CompositeRequirement::BasicRequirement(self.basic(&c["b"])),
            "any" => CompositeRequirement::AnyOf(kids()),
            "all" => CompositeRequirement::AllOf(kids()),
            x => panic!("composite {}", x),
        }
    }
    fn rule(&self, r: &Value) -> AccessRule {
        match s(&r["kind"]) {
            "allow" => AccessRule::AllowAll,
            "deny" => AccessRule::DenyAll,
            "protected" => AccessRule::Protected(self.composite(&r["c"])),
            x => panic!("rule {}", x),
        }
    }
    fn proofs(&self, f: &Value) -> Vec<ProofSpec> {
        f["proofs"]
            .as_array()
            .unwrap()
            .iter()
            .map(|p| {
                let r = s(&p["r"]);
                ProofSpec {
                    res: self.resource(r),
                    amount: Decimal::from(p["amt"].as_u64().unwrap()),
                    ids: p["ids"]
                        .as_array()
                        .unwrap()
                        .iter()
                        .map(|i| NonFungibleLocalId::integer(s(i).parse().unwrap()))
                        .collect(),
                }
            })
            .collect()
    }

    /// the component carrying the role assignment of the case (created once per configuration and site)
    fn target(&mut self, case: &Value) -> Result<ComponentAddress, String> {
        let site = s(&case["site"]).to_string();
        let cfg = &case["cfg"];
        let key = format!("{}|{}", site, cfg);
        if let Some(r) = self.targets.get(&key) {
            return r.clone();
        }
        let opt = |v: &Value, me: &Ctx| if v["some"].as_bool().unwrap() { Some(me.rule(&v["rule"])) } else { None };
        let owner_rule = self.rule(&cfg["owner"]);
        let owner = if s(&cfg["owner"]["kind"]) == "deny" { OwnerRole::None } else { OwnerRole::Fixed(owner_rule.clone()) };
        let (r1, r2) = (opt(&cfg["r1"], self), opt(&cfg["r2"], self));
        let mk_roles = |r1: Option<AccessRule>, r2: Option<AccessRule>| {
            let mut roles = RoleAssignmentInit::default();
            roles.data.insert(RoleKey::new("r1"), r1);
            roles.data.insert(RoleKey::new("r2"), r2);
            roles
        };
        let pkg = self.w.pkg;
        let blob = |r: &AccessRule| scrypto_encode(r).unwrap();
        let res: Result<ComponentAddress, String> = match site.as_str() {
            "-" => self.w.new_component(pkg, NewArgs::simple(owner, mk_roles(r1, r2))).map_err(|e| create_class(&e)),
            // family E: the rule travels as Scrypto bytes and is stored by native code (rules near the limits do
            // not fit into manifest SBOR)
            "create_owner" | "create_role" => {
                let mut a = NewArgs::simple(OwnerRole::None, mk_roles(None, r2));
                a.refs = vec![self.w.fres, self.w.nres];
                if site == "create_owner" {
                    a.blobs.push((0, blob(&owner_rule)));
                } else {
                    a.blobs.push((1, blob(&r1.expect("create_role without r1"))));
                }
                self.w.new_component(pkg, a).map_err(|e| create_class(&e))
            }
            "set_role" | "set_owner" => {
                // stored through the role-assignment module methods of an updatable object
                let t = self
                    .w
                    .new_component(
                        pkg,
                        NewArgs::simple(OwnerRole::Updatable(AccessRule::AllowAll), mk_roles(Some(AccessRule::DenyAll), r2)),
                    )
                    .expect("updatable target");
                let b = ManifestBuilder::new().lock_fee_from_faucet();
                let refs = vec![self.w.fres, self.w.nres];
                let m = if site == "set_role" {
                    b.call_method(t, "set_role_blob", ("r1".to_string(), blob(&r1.expect("set_role without r1")), refs)).build()
                } else {
                    b.call_method(t, "set_owner_blob", (blob(&owner_rule), refs)).build()
                };
                let receipt = self.w.ledger.execute_manifest(m, vec![]);
                match commit_error(&receipt) {
                    None => Ok(t),
                    Some(e) => Err(create_class(&e)),
                }
            }
            x => panic!("site {}", x),
        };
        self.targets.insert(key, res.clone());
        res
    }

    /// publishes the function rules of all cases: in batches, falling back to one package per rule when a batch
    /// is refused (so that every rule gets its own observed verdict)
    fn publish_functions(&mut self, cases: &[(usize, Value)]) {
        let mut rules: Vec<(String, AccessRule)> = Vec::new();
        let mut seen = std::collections::BTreeSet::new();
        for (_, c) in cases {
            if s(&c["target"]["kind"]) == "function" {
                let key = c["target"]["rule"].to_string();
                if seen.insert(key.clone()) {
                    rules.push((key, self.rule(&c["target"]["rule"])));
                }
            }
        }
        let via = self.w.pkg;
        for batch in rules.chunks(60) {
            let rs: Vec<AccessRule> = batch.iter().map(|(_, r)| r.clone()).collect();
            let _ = via;
            let batch_res = catch(|| publish(&mut self.w.ledger, package_definition(Some(&rs))));
            match batch_res.unwrap_or_else(|_| Err(RuntimeError::SystemError(SystemError::NotAnObject))) {
                Ok(pkg) => {
                    for (i, (k, _)) in batch.iter().enumerate() {
                        self.functions.insert(k.clone(), Ok((pkg, format!("f{}", i))));
                    }
                }
                Err(_) => {
                    for (k, r) in batch {
                        // a definition that does not fit into manifest SBOR (depth 24) cannot be submitted at all
                        let res = match catch(|| publish(&mut self.w.ledger, package_definition(Some(&[r.clone()])))) {
                            Ok(r) => r.map(|pkg| (pkg, "f0".to_string())).map_err(|e| create_class(&e)),
                            Err(_) => Err("unencodable".to_string()),
                        };
                        self.functions.insert(k.clone(), res);
                    }
                }
            }
        }
    }
}

fn commit_error(r: &TransactionReceipt) -> Option<RuntimeError> {
    match &r.result {
        TransactionResult::Commit(c) => match &c.outcome {
            TransactionOutcome::Success(_) => None,
            TransactionOutcome::Failure(e) => Some(e.clone()),
        },
        other => panic!("harness: transaction not committed: {:?}", other),
    }
}

fn short(e: &impl std::fmt::Debug) -> String {
    format!("other:{:?}", e).chars().take(160).collect()
}

/// projection of a failure to store a rule
fn create_class(e: &RuntimeError) -> String {
    use radix_engine::object_modules::role_assignment::RoleAssignmentError as RE;
    let re = match e {
        RuntimeError::ApplicationError(ApplicationError::RoleAssignmentError(re)) => Some(re),
        RuntimeError::ApplicationError(ApplicationError::PackageError(PackageError::RoleAssignmentError(re))) => Some(re),
        _ => None,
    };
    match re {
        Some(RE::ExceededMaxAccessRuleDepth) => "Depth".into(),
        Some(RE::ExceededMaxAccessRuleNodes) => "Nodes".into(),
        _ => short(e),
    }
}

/// projection of the receipt of the protected action
fn outcome_class(r: &TransactionReceipt, target_bp: &str, target_ident: &str) -> String {
    match &r.result {
        TransactionResult::Commit(c) => match &c.outcome {
            TransactionOutcome::Success(_) => "ok".into(),
            TransactionOutcome::Failure(e) => match e {
                RuntimeError::SystemModuleError(SystemModuleError::AuthError(AuthError::Unauthorized(u))) => {
                    if u.fn_identifier.blueprint_id.blueprint_name == target_bp && u.fn_identifier.ident == target_ident {
                        "unauthorized".into()
                    } else {
                        format!("unauthorized@{}::{}", u.fn_identifier.blueprint_id.blueprint_name, u.fn_identifier.ident)
                    }
                }
                RuntimeError::SystemError(SystemError::AssertAccessRuleFailed) => "assert_failed".into(),
                RuntimeError::SystemError(SystemError::TypeCheckError(_)) => "type_error".into(),
                e => short(e),
            },
        },
        TransactionResult::Reject(e) => short(&("reject", e)),
        TransactionResult::Abort(e) => short(&("abort", e)),
    }
}

fn replay(args: &Args) {
    let part = args.u64("part", 0) as usize;
    let parts = args.u64("parts", 1) as usize;
    let all = read_lines();
    let total = all.len();
    let cases: Vec<(usize, Value)> = all.into_iter().enumerate().filter(|(i, _)| i % parts == part).collect();
    let mut out = Out::new();
    let w = World::new();
    let mut keys = BTreeMap::new();
    keys.insert("k1".to_string(), PublicKey::Secp256k1(Secp256k1PrivateKey::from_u64(101).unwrap().public_key()));
    keys.insert("k2".to_string(), PublicKey::Ed25519(Ed25519PrivateKey::from_u64(102).unwrap().public_key()));
    keys.insert("k3".to_string(), PublicKey::Secp256k1(Secp256k1PrivateKey::from_u64(103).unwrap().public_key()));
    let mut cx = Ctx { c1: w.bank, c2: w.bank, t0: w.bank, w, keys, targets: BTreeMap::new(), functions: BTreeMap::new() };
    let pkg = cx.w.pkg;
    let plain = || NewArgs::simple(OwnerRole::None, RoleAssignmentInit::default());
    cx.c1 = cx.w.new_component(pkg, plain()).unwrap();
    cx.c2 = cx.w.new_component(pkg, plain()).unwrap();
    cx.t0 = cx.w.new_component(pkg, plain()).unwrap();
    cx.publish_functions(&cases);

    let mut classes: BTreeMap<String, u64> = BTreeMap::new();
    let mut steps = 0usize;
    for (idx, case) in &cases {
        let tk = s(&case["target"]["kind"]);
        // 1. store the rules
        let mut t: Option<ComponentAddress> = None;
        let mut func: Option<(PackageAddress, String)> = None;
        let created = match tk {
            "method" => match cx.target(case) {
                Ok(a) => {
                    t = Some(a);
                    "ok".to_string()
                }
                Err(c) => c,
            },
            "function" => match cx.functions[&case["target"]["rule"].to_string()].clone() {
                Ok(f) => {
                    func = Some(f);
                    "ok".to_string()
                }
                Err(c) => c,
            },
            _ => "ok".to_string(),
        };
        let exp_create = s(&case["exp"]["create"]);
        if created != exp_create {
            out.mismatch(*idx, 0, "create", json!(exp_create), json!(created));
        }
        *classes.entry(format!("create:{}", created)).or_insert(0) += 1;
        if created != "ok" {
            continue;
        }
        // 2. compile the chain
        let frames = case["frames"].as_array().unwrap();
        let n = frames.len();
        let (target_act, tbp, tident) = match tk {
            "method" => {
                let m = s(&case["target"]["method"]).to_string();
                (Act::TargetMethod(cx.comp(s(&case["target"]["comp"]), t), m.clone()), RELAY, m)
            }
            "function" => {
                let (p, f) = func.clone().unwrap();
                (Act::TargetFunction(p, PROT.to_string(), f.clone()), PROT, f)
            }
            "assert" => (Act::Assert(cx.rule(&case["target"]["rule"])), "-", "-".to_string()),
            x => panic!("target kind {}", x),
        };
        let call_of = |f: &Value, cx: &Ctx| match s(&f["kind"]) {
            "gm" => Act::CallGlobal(cx.comp(s(&f["comp"]), t)),
            "om" => Act::CallChild,
            "fm" => Act::CallFrameOwned,
            "fn" => Act::CallFunction(cx.w.pkg),
            x => panic!("frame kind {}", x),
        };
        // step i (i >= 2) is executed by frame i: its proofs, then the call of frame i+1 or the target
        let mut steps_v: Vec<Step> = Vec::new();
        for i in 1..n {
            let act = if i + 1 < n { call_of(&frames[i + 1], &cx) } else { target_act.clone() };
            steps_v.push(Step { proofs: cx.proofs(&frames[i]), act });
        }
        let bank = cx.w.bank;
        let mut b = ManifestBuilder::new().lock_fee_from_faucet();
        let txp = cx.proofs(&frames[0]);
        if !txp.is_empty() {
            b = b.call_method(bank, "make_proofs", (txp,));
        }
        let plan = Plan { bank, steps: steps_v };
        let manifest = if n == 1 {
            match target_act {
                Act::TargetMethod(c, m) => b.call_method(c, m, ()),
                Act::TargetFunction(p, bp, f) => b.call_function(p, bp, f, ()),
                _ => panic!("the transaction processor cannot assert"),
            }
        } else {
            match call_of(&frames[1], &cx) {
                Act::CallGlobal(c) => b.call_method(c, "run", (plan,)),
                Act::CallFunction(p) => b.call_function(p, RELAY, "run_fn", (plan,)),
                _ => panic!("the transaction processor can only call global components and functions"),
            }
        }
        .build();
        // 3. execute
        let signer_keys: Vec<PublicKey> = case["signers"].as_array().unwrap().iter().map(|k| cx.keys[s(k)].clone()).collect();
        // a panic of the code under test is data: the case's outcome is "panic:<message>"
        let sim = case["sim"].as_bool().unwrap();
        let run = catch(|| {
            if sim {
                cx.w.ledger.preview_manifest(
                    manifest,
                    signer_keys.clone(),
                    0,
                    PreviewFlags {
                        use_free_credit: true,
                        assume_all_signature_proofs: true,
                        skip_epoch_check: true,
                        disable_auth: false,
                    },
                )
            } else {
                let proofs: Vec<NonFungibleGlobalId> = signer_keys.iter().map(NonFungibleGlobalId::from_public_key).collect();
                cx.w.ledger.execute_manifest(manifest, proofs)
            }
        });
        steps += n;
        let got = match &run {
            Ok(receipt) => outcome_class(receipt, tbp, &tident),
            Err(msg) => format!("panic:{}", msg).chars().take(160).collect(),
        };
        let (exp, alt) = (s(&case["exp"]["outcome"]), s(&case["exp"]["alt"]));
        if got != exp && got != alt {
            out.mismatch(*idx, n, "outcome", json!([exp, alt]), json!(got));
        }
        let cls: String = got.chars().take(40).collect();
        *classes.entry(format!("{}:{}", tk, cls)).or_insert(0) += 1;
    }
    out.emit(&json!({"classes": classes, "part": part, "cases": cases.len()}));
    out.done(total, steps);
}

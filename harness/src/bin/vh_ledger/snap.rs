//! mode `record` (T): histories the model did not choose — seeded random transactions on a ledger with
//! several resources, system transactions that change the epoch (emissions), and the repository's
//! transaction scenarios — with a scan of the WHOLE database after every committed transaction.
//!
//! The scan is the harness's own projection: every node of entity type Internal(Non)FungibleVault
//! (resource = outer object from its type info, Balance field, NonFungibleIndex entries) and every
//! Global(Non)FungibleResourceManager (TotalSupply field if present).  Events are taken from the
//! receipt: vault Deposit/Withdraw/Recall/PayFee and resource-manager Mint/Burn events.
//!
//! ndjson events (amounts = attos as limbs base 10^4, see vh::util::limbs_from_le_bytes_signed):
//!   {"a":"reset","vaults":[[v,r,kind,amt,[ids]]...],"sup":[[r,amt]...]}      full snapshot, new start
//!   {"a":"tx","ok":b,"free":b,
//!    "fv":[[v,sign,amt]..],"nv":[[v,sign,[ids]]..],"mint":[[r,amt]..],"burn":[[r,amt]..],"minti":[[r,[ids]]..],"burni":[..],
//!    "chg":[[v,r,kind,amt,[ids]]..]   every vault that differs from the previous scan or has an event
//!    "sup":[[r,amt]..]                every TotalSupply that differs, or whose resource has an event / changed vault
//!    "full": {"has":b,"vaults":[...],"sup":[...]}    periodically the whole scan again
//!   }
//! v, r and ids are small integers assigned by first appearance (ids per resource).
use crate::ledger::{build, Env, World};
use radix_engine::blueprints::resource::*;
use radix_engine::system::system_db_reader::*;
use radix_substate_store_interface::interface::*;
use radix_transaction_scenarios::executor::*;
use rand::prelude::*;
use scrypto_test::prelude::*;
use serde_json::{json, Value};
use std::collections::{BTreeMap, BTreeSet};
use vh::util::*;
use vh::Args;

#[derive(ScryptoSbor)]
struct AmountEvent {
    amount: Decimal,
}
#[derive(ScryptoSbor)]
struct IdsEvent {
    ids: IndexSet<NonFungibleLocalId>,
}

#[derive(Clone, PartialEq, Eq, Debug)]
struct VaultObs {
    res: NodeId,
    fungible: bool,
    amount: Decimal,
    ids: BTreeSet<NonFungibleLocalId>,
}

fn limbs(d: Decimal) -> Value {
    limbs_from_le_bytes_signed(&d.attos().to_le_bytes())
}

#[derive(Default)]
pub struct Recorder {
    vidx: BTreeMap<NodeId, usize>,
    ridx: BTreeMap<NodeId, usize>,
    iidx: BTreeMap<(usize, NonFungibleLocalId), usize>,
    icount: BTreeMap<usize, usize>,
    prev_v: BTreeMap<NodeId, VaultObs>,
    prev_s: BTreeMap<NodeId, Decimal>,
    since_full: usize,
    pub full_every: usize,
    pub txs: usize,
    pub committed_ok: usize,
    pub vaults_max: usize,
}

impl Recorder {
    fn v(&mut self, n: &NodeId) -> usize {
        let k = self.vidx.len() + 1;
        *self.vidx.entry(*n).or_insert(k)
    }
    fn r(&mut self, n: &NodeId) -> usize {
        let k = self.ridx.len() + 1;
        *self.ridx.entry(*n).or_insert(k)
    }
    fn id(&mut self, r: usize, id: &NonFungibleLocalId) -> usize {
        if let Some(x) = self.iidx.get(&(r, id.clone())) {
            return *x;
        }
        let c = self.icount.entry(r).or_insert(0);
        *c += 1;
        let k = *c;
        self.iidx.insert((r, id.clone()), k);
        k
    }
    fn ids(&mut self, r: usize, ids: impl Iterator<Item = NonFungibleLocalId>) -> Vec<usize> {
        let mut v: Vec<usize> = ids.map(|i| self.id(r, &i)).collect();
        v.sort();
        v
    }

    /// the harness's own projection of the whole database
    fn scan<D: SubstateDatabase + ListableSubstateDatabase>(db: &D) -> (BTreeMap<NodeId, VaultObs>, BTreeMap<NodeId, Decimal>) {
        let reader = SystemDatabaseReader::new(db);
        let nodes: BTreeSet<NodeId> = reader.partitions_iter().map(|(n, _)| n).collect();
        let mut vaults = BTreeMap::new();
        let mut sup = BTreeMap::new();
        for n in nodes {
            match n.entity_type() {
                Some(EntityType::InternalFungibleVault) | Some(EntityType::InternalNonFungibleVault) => {
                    let info = reader.get_object_info(n).expect("vault object info");
                    let res = match info.blueprint_info.outer_obj_info {
                        OuterObjectInfo::Some { outer_object } => outer_object.into_node_id(),
                        OuterObjectInfo::None => panic!("vault without outer object"),
                    };
                    if n.is_internal_fungible_vault() {
                        let b: FungibleVaultBalanceFieldPayload =
                            reader.read_typed_object_field(&n, ModuleId::Main, FungibleVaultField::Balance.into()).expect("balance");
                        vaults.insert(n, VaultObs { res, fungible: true, amount: b.fully_update_and_into_latest_version().amount(), ids: BTreeSet::new() });
                    } else {
                        let b: NonFungibleVaultBalanceFieldPayload =
                            reader.read_typed_object_field(&n, ModuleId::Main, NonFungibleVaultField::Balance.into()).expect("balance");
                        let ids: BTreeSet<NonFungibleLocalId> = reader
                            .collection_iter(&n, ModuleId::Main, NonFungibleVaultCollection::NonFungibleIndex.collection_index())
                            .unwrap()
                            .map(|(key, _)| scrypto_decode::<NonFungibleLocalId>(&key.into_map()).unwrap())
                            .collect();
                        vaults.insert(n, VaultObs { res, fungible: false, amount: b.fully_update_and_into_latest_version().amount, ids });
                    }
                }
                Some(EntityType::GlobalFungibleResourceManager) => {
                    let s: Result<FungibleResourceManagerTotalSupplyFieldPayload, _> =
                        reader.read_typed_object_field(&n, ModuleId::Main, FungibleResourceManagerField::TotalSupply.into());
                    if let Ok(s) = s {
                        sup.insert(n, s.fully_update_and_into_latest_version());
                    }
                }
                Some(EntityType::GlobalNonFungibleResourceManager) => {
                    let s: Result<NonFungibleResourceManagerTotalSupplyFieldPayload, _> =
                        reader.read_typed_object_field(&n, ModuleId::Main, NonFungibleResourceManagerField::TotalSupply.into());
                    if let Ok(s) = s {
                        sup.insert(n, s.fully_update_and_into_latest_version());
                    }
                }
                _ => {}
            }
        }
        (vaults, sup)
    }

    fn vault_row(&mut self, n: &NodeId, o: &VaultObs) -> Value {
        let v = self.v(n);
        let r = self.r(&o.res);
        let ids = self.ids(r, o.ids.iter().cloned());
        json!([v, r, if o.fungible { 0 } else { 1 }, limbs(o.amount), ids])
    }
    fn full(&mut self, vs: &BTreeMap<NodeId, VaultObs>, ss: &BTreeMap<NodeId, Decimal>) -> Value {
        let vaults: Vec<Value> = vs.iter().map(|(n, o)| self.vault_row(n, o)).collect();
        let sup: Vec<Value> = ss.iter().map(|(n, d)| json!([self.r(n), limbs(*d)])).collect();
        json!({"has": true, "vaults": vaults, "sup": sup})
    }

    pub fn reset<D: SubstateDatabase + ListableSubstateDatabase>(&mut self, db: &D, out: &mut Out) {
        let (vs, ss) = Self::scan(db);
        let f = self.full(&vs, &ss);
        out.emit(&json!({"a": "reset", "vaults": f["vaults"], "sup": f["sup"]}));
        self.vaults_max = self.vaults_max.max(vs.len());
        self.prev_v = vs;
        self.prev_s = ss;
        self.since_full = 0;
    }

    /// after a transaction: events of the receipt + differences of the database scan
    pub fn tx<D: SubstateDatabase + ListableSubstateDatabase>(&mut self, db: &D, receipt: &TransactionReceipt, out: &mut Out) {
        let commit = match &receipt.result {
            TransactionResult::Commit(c) => c,
            _ => return, // rejected / aborted: nothing was committed
        };
        self.txs += 1;
        if commit.outcome.is_success() {
            self.committed_ok += 1;
        }
        let free = receipt.transaction_costing_parameters.free_credit_in_xrd.is_positive();
        let (mut fv, mut nv, mut mint, mut burn, mut minti, mut burni) = (vec![], vec![], vec![], vec![], vec![], vec![]);
        let mut touched_v: BTreeSet<NodeId> = BTreeSet::new();
        let mut touched_r: BTreeSet<NodeId> = BTreeSet::new();
        let (vs, ss) = Self::scan(db);
        for (ety, data) in &commit.application_events {
            let (node, name) = match &ety.0 {
                Emitter::Method(node, ModuleId::Main) => (*node, ety.1.as_str()),
                _ => continue,
            };
            match node.entity_type() {
                Some(EntityType::InternalFungibleVault) => {
                    let sign = match name {
                        "DepositEvent" => 1,
                        "WithdrawEvent" | "RecallEvent" | "PayFeeEvent" => -1,
                        _ => 0, // LockFeeEvent: the refund at the end makes PayFeeEvent the net effect
                    };
                    if sign != 0 {
                        let e: AmountEvent = scrypto_decode(data).unwrap();
                        touched_v.insert(node);
                        fv.push(json!([self.v(&node), sign, limbs(e.amount)]));
                    }
                }
                Some(EntityType::InternalNonFungibleVault) => {
                    let sign = match name {
                        "DepositEvent" => 1,
                        "WithdrawEvent" | "RecallEvent" => -1,
                        _ => 0,
                    };
                    if sign != 0 {
                        let e: IdsEvent = scrypto_decode(data).unwrap();
                        touched_v.insert(node);
                        // the resource of the vault: from the scan (the vault exists after the transaction) or the previous scan
                        let res = vs.get(&node).or(self.prev_v.get(&node)).map(|o| o.res).expect("vault of an event not in the database");
                        let r = self.r(&res);
                        let ids = self.ids(r, e.ids.into_iter());
                        nv.push(json!([self.v(&node), sign, ids]));
                    }
                }
                Some(EntityType::GlobalFungibleResourceManager) => {
                    if name == "MintFungibleResourceEvent" || name == "BurnFungibleResourceEvent" {
                        let e: AmountEvent = scrypto_decode(data).unwrap();
                        touched_r.insert(node);
                        let row = json!([self.r(&node), limbs(e.amount)]);
                        if name.starts_with("Mint") { mint.push(row) } else { burn.push(row) }
                    }
                }
                Some(EntityType::GlobalNonFungibleResourceManager) => {
                    if name == "MintNonFungibleResourceEvent" || name == "BurnNonFungibleResourceEvent" {
                        let e: IdsEvent = scrypto_decode(data).unwrap();
                        touched_r.insert(node);
                        let r = self.r(&node);
                        let ids = self.ids(r, e.ids.into_iter());
                        let row = json!([r, ids]);
                        if name.starts_with("Mint") { minti.push(row) } else { burni.push(row) }
                    }
                }
                _ => {}
            }
        }
        // differences of the scan
        let mut chg = vec![];
        let mut gone = vec![];
        for (n, o) in &vs {
            if self.prev_v.get(n) != Some(o) || touched_v.contains(n) {
                touched_r.insert(o.res);
                chg.push(self.vault_row(n, o));
            }
        }
        let missing: Vec<NodeId> = self.prev_v.keys().filter(|n| !vs.contains_key(*n)).cloned().collect();
        for n in missing {
            gone.push(json!(self.v(&n)));
        }
        let mut sup = vec![];
        for (n, d) in &ss {
            if self.prev_s.get(n) != Some(d) || touched_r.contains(n) {
                sup.push(json!([self.r(n), limbs(*d)]));
            }
        }
        self.since_full += 1;
        let full = if self.full_every > 0 && self.since_full >= self.full_every {
            self.since_full = 0;
            self.full(&vs, &ss)
        } else {
            json!({"has": false, "vaults": [], "sup": []})
        };
        let err = match &commit.outcome {
            TransactionOutcome::Failure(e) => crate::ledger::error_class(e),
            _ => "".to_string(),
        };
        out.emit(&json!({"a": "tx", "ok": commit.outcome.is_success(), "err": err, "free": free,
                         "fv": fv, "nv": nv, "mint": mint, "burn": burn, "minti": minti, "burni": burni,
                         "chg": chg, "gone": gone, "sup": sup, "full": full}));
        self.vaults_max = self.vaults_max.max(vs.len());
        self.prev_v = vs;
        self.prev_s = ss;
    }
}

// ---------------------------------------------------------------------------------------------
// workload 1: seeded random transactions (not chosen by the model)

fn random_world() -> Value {
    json!({
        "F": {"kind": "F", "div": 2, "track": true, "ruid": false, "uni": []},
        "G": {"kind": "F", "div": 0, "track": false, "ruid": false, "uni": []},
        "H": {"kind": "F", "div": 18, "track": true, "ruid": false, "uni": []},
        "N": {"kind": "NF", "div": 0, "track": true, "ruid": false, "uni": [1, 2, 3, 4, 5, 6, 7, 8]},
        "U": {"kind": "NF", "div": 0, "track": true, "ruid": true, "uni": [1, 2, 3, 4]}
    })
}
fn random_init() -> Value {
    let bal = |f: i64, g: i64, h: i64, n: Vec<i64>, u: Vec<i64>| {
        json!({"F": {"amt": f, "ids": []}, "G": {"amt": g, "ids": []}, "H": {"amt": h, "ids": []},
               "N": {"amt": 2 * n.len(), "ids": n}, "U": {"amt": 2 * u.len(), "ids": u}})
    };
    json!({"bal": {"a1": bal(40, 20, 60, vec![1, 2, 3], vec![1]), "a2": bal(20, 0, 10, vec![4], vec![2]), "a3": bal(0, 6, 0, vec![], vec![])},
           "sup": {}, "data": {"N": [[1, 1, 2, 3, 4], [2, 1, 2, 3, 4], [3, 1, 2, 3, 4], [4, 1, 2, 3, 4]], "U": [[1, 1, 2, 3, 4], [2, 1, 2, 3, 4]]},
           "ever": {"N": [1, 2, 3, 4, 5], "U": [1, 2]}, "ctr": {"N": 0, "U": 2}})
}

fn ins(op: &str, a: &str, r: &str, n: i64, ids: Vec<i64>, k: i64) -> Value {
    json!({"op": op, "a": a, "r": r, "n": n, "ids": ids, "k": k, "f": if (n + k) % 2 == 0 { "b" } else { "d" }, "v": 7})
}

/// A random manifest.  `st` is the projection of the real ledger before the transaction: arguments are
/// mostly drawn from what the accounts really hold, so that a good share of the transactions commit successfully.
fn random_tx(rng: &mut StdRng, st: &Value) -> Vec<Value> {
    let accts = ["a1", "a2", "a3"];
    let fres = ["F", "G", "H"];
    let mut v = vec![];
    let len = rng.gen_range(1..=6);
    let mut nb = 0i64;
    let mut live: Vec<i64> = vec![];
    let held = |a: &str, r: &str| -> Vec<i64> { i64s(&st["bal"][a][r]["ids"]) };
    let ever_n = i64s(&st["ever"]["N"]);
    for _ in 0..len {
        let a = *accts.choose(rng).unwrap();
        let fr = *fres.choose(rng).unwrap();
        let balance = st["bal"][a][fr]["amt"].as_i64().unwrap_or(0);
        let amt: i64 = if rng.gen_bool(0.06) && fr != "H" {
            2 * rng.gen_range(0..20) + 1 // one digit too many
        } else if rng.gen_bool(0.85) {
            2 * rng.gen_range(0..=(balance / 2).min(8))
        } else {
            2 * rng.gen_range(0..30)
        };
        let pick = |rng: &mut StdRng, from: Vec<i64>| -> Vec<i64> { from.into_iter().filter(|_| rng.gen_bool(0.5)).collect() };
        let ids: Vec<i64> = if rng.gen_bool(0.85) { pick(rng, held(a, "N")) } else { (1..=8).filter(|_| rng.gen_bool(0.25)).collect() };
        let uids: Vec<i64> = if rng.gen_bool(0.85) { pick(rng, held(a, "U")) } else { (1..=2).filter(|_| rng.gen_bool(0.4)).collect() };
        match rng.gen_range(0..24) {
            0..=3 => v.push(ins("Withdraw", a, fr, amt, vec![], 0)),
            4..=5 => v.push(ins("WithdrawNF", a, "N", 0, ids, 0)),
            6 => v.push(ins("WithdrawNF", a, "U", 0, uids, 0)),
            7..=8 => v.push(ins("Mint", "", fr, 2 * rng.gen_range(0..10) + if rng.gen_bool(0.05) && fr != "H" { 1 } else { 0 }, vec![], 0)),
            9 => {
                let fresh: Vec<i64> = (1..=8).filter(|x| !ever_n.contains(x)).collect();
                let id = if rng.gen_bool(0.8) && !fresh.is_empty() { *fresh.choose(rng).unwrap() } else { rng.gen_range(1..=8) };
                v.push(ins("MintNF", "", "N", 0, vec![id], 0))
            }
            10 => {
                if rng.gen_bool(0.5) {
                    v.push(ins("MintRuid", "", "U", rng.gen_range(1..=2), vec![], 0))
                } else {
                    v.push(ins("MintSingleRuid", "", "U", 0, vec![], 0))
                }
            }
            11 => {
                nb += 1;
                live.push(nb);
                v.push(ins("TakeFromWorktop", "", fr, if rng.gen_bool(0.5) { 0 } else { amt }, vec![], 0))
            }
            12 => {
                nb += 1;
                live.push(nb);
                v.push(ins("TakeAll", "", *["F", "G", "H", "N", "U"].choose(rng).unwrap(), 0, vec![], 0))
            }
            13 => {
                if let Some(k) = live.pop() {
                    v.push(ins(*["Deposit", "Burn", "ReturnToWorktop"].choose(rng).unwrap(), a, "", 0, vec![], k))
                }
            }
            14 => v.push(ins("BurnInAccount", a, fr, amt, vec![], 0)),
            15 => v.push(ins("BurnNFInAccount", a, "N", 0, ids, 0)),
            16 => v.push(ins("Recall", a, fr, amt, vec![], 0)),
            17 => v.push(ins("RecallNF", a, "N", 0, ids, 0)),
            18 => v.push(ins("ProofOfAmount", a, fr, amt.max(2), vec![], 0)),
            19 => {
                if let Some(k) = live.last() {
                    v.push(ins("BucketProofOfAll", "", "", 0, vec![], *k))
                }
            }
            20 => {
                let liv: Vec<i64> = st["data"]["N"].as_array().map(|x| x.iter().map(|e| e[0].as_i64().unwrap()).collect()).unwrap_or_default();
                let id = if rng.gen_bool(0.85) && !liv.is_empty() { *liv.choose(rng).unwrap() } else { rng.gen_range(1..=8) };
                v.push(ins("UpdateNFData", "", "N", 0, vec![], id))
            }
            21 => v.push(ins("DepositBatch", a, "", 0, vec![], 0)),
            22 => v.push(ins("AssertContains", "", fr, 0, vec![], 0)),
            _ => v.push(ins("DropAuthZoneRegularProofs", "", "", 0, vec![], 0)),
        }
    }
    // most transactions try to end cleanly
    if rng.gen_bool(0.85) {
        v.push(ins("DropNamedProofs", "", "", 0, vec![], 0));
        for k in live {
            v.push(ins("ReturnToWorktop", "", "", 0, vec![], k));
        }
        v.push(ins("DepositBatch", *accts.choose(rng).unwrap(), "", 0, vec![], 0));
    }
    v
}

fn record_random(args: &Args, out: &mut Out) -> Recorder {
    let seed = args.u64("seed", 1);
    let n = args.u64("n", 200) as usize;
    let mut rng = StdRng::seed_from_u64(seed);
    let mut env = Env::new(2, 3);
    let w: World = env.world(&random_world(), &random_init());
    env.ledger.restore_snapshot(w.snap.clone());
    // XRD on the accounts so that some transactions pay their own fees
    for a in env.accts.clone() {
        env.ledger.load_account_from_faucet(a.addr);
    }
    let mut rec = Recorder { full_every: args.u64("full", 25) as usize, ..Default::default() };
    rec.reset(env.ledger.substate_db(), out);
    let mut w = w;
    for t in 0..n {
        if t % 17 == 16 {
            // a system transaction: next round; with the test configuration every round ends the epoch (emission)
            let round = env.ledger.get_consensus_manager_state().round.number() + 1;
            let r = env.ledger.advance_to_round(Round::of(round));
            rec.tx(env.ledger.substate_db(), &r, out);
            continue;
        }
        let st = crate::ledger::project(&env, &w);
        let instructions = random_tx(&mut rng, &st);
        let payer = if rng.gen_bool(0.3) { Some(env.accts[rng.gen_range(0..3)].addr) } else { None };
        // building the manifest is the harness's own job (a panic here ends the recording: tool error); only the
        // execution by the engine runs under `catch`
        let m = {
            let m = build(&env, &w, &instructions, instructions.len(), false);
            match payer {
                // the fee is locked from an account's own XRD vault instead of the faucet
                Some(p) => {
                    let mut b = ManifestBuilder::new().lock_fee(p, 500);
                    for i in m.instructions.iter().skip(1) {
                        b = b.add_instruction_advanced(i.clone()).0;
                    }
                    b.build_no_validate()
                }
                None => m,
            }
        };
        let res = catch(|| {
            let proofs = env.proofs();
            env.ledger.execute_manifest(m, proofs)
        });
        match res {
            Ok(r) => {
                crate::ledger::learn_ruids(&env, &mut w, &r);
                rec.tx(env.ledger.substate_db(), &r, out);
            }
            Err(msg) => out.emit(&json!({"a": "panic", "msg": msg, "ins": instructions})),
        }
    }
    // the repository's own checker is an additional observation, not the oracle
    let ok = catch(|| env.ledger.check_database()).is_ok();
    out.emit(&json!({"a": "checker", "ok": ok}));
    rec
}

// ---------------------------------------------------------------------------------------------
// workload 2: the repository's transaction scenarios

struct Hooks<'a> {
    rec: Recorder,
    out: &'a mut Out,
    limit: usize,
    scenarios: Vec<String>,
}
impl<'a> ScenarioExecutionHooks<InMemorySubstateDatabase> for Hooks<'a> {
    fn on_scenario_started(&mut self, event: OnScenarioStarted<InMemorySubstateDatabase>) {
        // protocol updates ran since the last transaction: start from a fresh full snapshot
        self.scenarios.push(event.metadata.logical_name.to_string());
        self.rec.reset(event.database, self.out);
    }
    fn on_transaction_executed(&mut self, event: OnScenarioTransactionExecuted<InMemorySubstateDatabase>) {
        if self.limit == 0 || self.rec.txs < self.limit {
            self.rec.tx(event.database, event.receipt, self.out);
        }
    }
}

fn record_scenarios(args: &Args, out: &mut Out) -> (Recorder, Vec<String>) {
    let limit = args.u64("limit", 0) as usize;
    let db = InMemorySubstateDatabase::standard();
    let mut hooks = Hooks { rec: Recorder { full_every: args.u64("full", 25) as usize, ..Default::default() }, out, limit, scenarios: vec![] };
    let mut ex = TransactionScenarioExecutor::new(db, NetworkDefinition::simulator());
    let names = args.str("names", "");
    // An engine panic, or a scenario whose own expectation fails (the executor unwraps it), is DATA about the code under
    // test: it is caught and recorded as a "panic" event, which no action of the trace specification matches.
    let run = catch(|| {
    if names.is_empty() {
        ex.execute_every_protocol_update_and_scenario(&mut hooks).expect("scenarios");
    } else {
        let set: BTreeSet<String> = names.split(',').map(|x| x.to_string()).collect();
        ex.execute_protocol_updates_and_scenarios(
            |builder| builder.from_bootstrap_to_latest(),
            // the named scenarios are all valid from genesis on; each runs once
            ScenarioTrigger::AtStartOfProtocolVersions(btreeset!(ProtocolVersion::Babylon)),
            ScenarioFilter::SpecificScenariosByName(set),
            &mut hooks,
            &mut (),
            &VmModules::default(),
        )
        .expect("scenarios");
    }
    });
    if let Err(msg) = run {
        let scenario = hooks.scenarios.last().cloned().unwrap_or_default();
        let msg: String = msg.chars().take(600).collect();
        hooks.out.emit(&json!({"a": "panic", "scenario": scenario, "after_transactions": hooks.rec.txs, "msg": msg}));
    }
    (hooks.rec, hooks.scenarios)
}

pub fn run(mode: &str, args: &Args) {
    let mut out = Out::new();
    match mode {
        "random" => {
            let rec = record_random(args, &mut out);
            out.emit(&json!({"a": "end", "txs": rec.txs, "ok": rec.committed_ok, "vaults": rec.vaults_max, "resources": rec.ridx.len()}));
        }
        "scenarios" => {
            let (rec, names) = record_scenarios(args, &mut out);
            out.emit(&json!({"a": "end", "txs": rec.txs, "ok": rec.committed_ok, "vaults": rec.vaults_max, "resources": rec.ridx.len(), "scenarios": names}));
        }
        m => {
            eprintln!("unknown mode {}", m);
            std::process::exit(2);
        }
    }
    out.flush();
}

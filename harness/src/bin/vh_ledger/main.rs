//! vh_ledger — resource layer at ledger level: Ledger.tla (C03, C04, C09, C10, C43).
#![allow(clippy::all)]
mod idtypes;
mod ledger;
mod snap;

fn main() {
    let (module, mode, args) = vh::start();
    match module.as_str() {
        "ledger" => ledger::run(&mode, &args),
        "snap" => snap::run(&mode, &args),
        "idtypes" => idtypes::run(&mode, &args),
        m => vh::unknown(m),
    }
}

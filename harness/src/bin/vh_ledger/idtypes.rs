//! C43, id types (spec/Ledger/IdTypes.tla): every way an id can enter a non-fungible resource — creation with initial
//! supply (explicit ids of every kind against every declared id type), creation of a RUID resource with initial supply,
//! mint with explicit ids, mint of generated ids — replayed on a real ledger.  Compared with the model: success /
//! failure and error class of every transaction, and afterwards EVERY id stored under the resource (data entries of the
//! resource manager and the ids in the holder's vault) with its id type, and the declared IdType field.
use crate::ledger::{error_class, NfData, DATA0};
use radix_engine::blueprints::resource::*;
use radix_engine::system::system_db_reader::*;
use scrypto_test::prelude::*;
use serde_json::{json, Value};
use vh::util::*;
use vh::Args;

fn id_type(k: &str) -> NonFungibleIdType {
    match k {
        "Integer" => NonFungibleIdType::Integer,
        "String" => NonFungibleIdType::String,
        "Bytes" => NonFungibleIdType::Bytes,
        "RUID" => NonFungibleIdType::RUID,
        other => panic!("unknown id kind {}", other),
    }
}
fn kind_of(id: &NonFungibleLocalId) -> &'static str {
    match id.id_type() {
        NonFungibleIdType::Integer => "Integer",
        NonFungibleIdType::String => "String",
        NonFungibleIdType::Bytes => "Bytes",
        NonFungibleIdType::RUID => "RUID",
    }
}
/// the explicit id of kind k with index n
fn make_id(k: &str, n: u64) -> NonFungibleLocalId {
    match k {
        "Integer" => NonFungibleLocalId::integer(n),
        "String" => NonFungibleLocalId::string(format!("s{}", n)).unwrap(),
        "Bytes" => NonFungibleLocalId::bytes(vec![n as u8, 7]).unwrap(),
        "RUID" => NonFungibleLocalId::ruid([n as u8; 32]),
        other => panic!("unknown id kind {}", other),
    }
}
fn entries(es: &Value, base: u64) -> Vec<(NonFungibleLocalId, NfData)> {
    es.as_array().unwrap().iter().enumerate().map(|(i, k)| (make_id(k.as_str().unwrap(), base + i as u64 + 1), DATA0.clone())).collect()
}
fn roles() -> NonFungibleResourceRoles {
    NonFungibleResourceRoles {
        mint_roles: mint_roles! { minter => rule!(allow_all); minter_updater => rule!(deny_all); },
        burn_roles: burn_roles! { burner => rule!(allow_all); burner_updater => rule!(deny_all); },
        ..Default::default()
    }
}

/// what is stored: [[kind, explicit index or 0 for a generated id] ...] from the data entries and from the vault, and the IdType field
fn stored(ledger: &mut LedgerSimulator<NoExtension, InMemorySubstateDatabase>, res: ResourceAddress, acct: ComponentAddress) -> Value {
    let vault_ids: Vec<NonFungibleLocalId> = {
        let vs = ledger.get_component_vaults(acct, res);
        let mut v = vec![];
        for n in vs {
            if let Some((_, it)) = ledger.inspect_non_fungible_vault(n) {
                v.extend(it);
            }
        }
        v
    };
    let reader = SystemDatabaseReader::new(ledger.substate_db());
    let data_ids: Vec<NonFungibleLocalId> = reader
        .collection_iter(res.as_node_id(), ModuleId::Main, NonFungibleResourceManagerCollection::DataKeyValue.collection_index())
        .unwrap()
        .map(|(key, _)| scrypto_decode::<NonFungibleLocalId>(&key.into_map()).unwrap())
        .collect();
    let declared: NonFungibleResourceManagerIdTypeFieldPayload =
        reader.read_typed_object_field(res.as_node_id(), ModuleId::Main, NonFungibleResourceManagerField::IdType.into()).unwrap();
    let declared = declared.fully_update_and_into_latest_version();
    let row = |id: &NonFungibleLocalId| -> Value {
        // explicit ids are recognised by value; anything else is reported with index 0 (generated)
        for k in ["Integer", "String", "Bytes", "RUID"] {
            for n in 1..=12u64 {
                if &make_id(k, n) == id {
                    return json!([k, n]);
                }
            }
        }
        json!([kind_of(id), 0])
    };
    let mut a: Vec<Value> = vault_ids.iter().map(row).collect();
    let mut b: Vec<Value> = data_ids.iter().map(row).collect();
    a.sort_by_key(|x| x.to_string());
    b.sort_by_key(|x| x.to_string());
    json!({"vault": a, "data": b, "declared": format!("{:?}", declared)})
}

/// the model's stored set in the same shape (generated RUID ids: index 0)
fn expected(st: &Value, generated_ruid: bool) -> Vec<Value> {
    let mut v: Vec<Value> = st
        .as_array()
        .unwrap()
        .iter()
        .map(|x| if generated_ruid { json!([x[0], 0]) } else { x.clone() })
        .collect();
    v.sort_by_key(|x| x.to_string());
    v
}

pub fn run(mode: &str, _args: &Args) {
    if mode != "replay" {
        eprintln!("unknown mode {}", mode);
        std::process::exit(2);
    }
    let behs = read_lines();
    let mut out = Out::new();
    let mut ledger = LedgerSimulatorBuilder::new().build();
    let (pk, _sk, acct) = ledger.new_allocated_account();
    let proofs = vec![NonFungibleGlobalId::from_public_key(&pk)];
    let snap = ledger.create_snapshot();
    let mut steps = 0usize;
    for (bi, beh) in behs.iter().enumerate() {
        ledger.restore_snapshot(snap.clone());
        let mut res: Option<ResourceAddress> = None;
        for (si, st) in beh.as_array().unwrap().iter().enumerate() {
            steps += 1;
            let op = st["op"].as_str().unwrap();
            let d = st["d"].as_str().unwrap();
            let n = st["n"].as_u64().unwrap_or(0) as usize;
            let built = catch(|| {
                let b = ManifestBuilder::new().lock_fee_from_faucet();
                match op {
                    "create" => b
                        .create_non_fungible_resource(OwnerRole::None, id_type(d), true, roles(), metadata!(), Some(entries(&st["es"], 0)))
                        .deposit_entire_worktop(acct)
                        .build(),
                    "create_ruid" => b
                        .create_ruid_non_fungible_resource(OwnerRole::None, true, metadata!(), roles(), Some(vec![DATA0.clone(); n]))
                        .deposit_entire_worktop(acct)
                        .build(),
                    "mint" => b.mint_non_fungible(res.expect("mint before creation"), entries(&st["es"], 10)).deposit_entire_worktop(acct).build(),
                    "mint_ruid" => b.mint_ruid_non_fungible(res.expect("mint before creation"), vec![DATA0.clone(); n]).deposit_entire_worktop(acct).build(),
                    other => panic!("unknown operation {}", other),
                }
            });
            let m = match built {
                Ok(m) => m,
                Err(msg) => {
                    out.emit(&json!({"toolerror": format!("cannot build case {} step {}: {}", bi, si, msg)}));
                    out.flush();
                    std::process::exit(2);
                }
            };
            let receipt = match catch(|| ledger.execute_manifest(m, proofs.clone())) {
                Ok(r) => r,
                Err(msg) => {
                    out.mismatch(bi, si, "engine-panic", json!(st["ok"]), json!(msg));
                    break;
                }
            };
            let (ok, err) = match &receipt.result {
                TransactionResult::Commit(c) => match &c.outcome {
                    TransactionOutcome::Success(_) => (true, String::new()),
                    TransactionOutcome::Failure(e) => (false, error_class(e)),
                },
                _ => (false, "not-committed".to_string()),
            };
            let exp_ok = st["ok"].as_bool().unwrap();
            if ok != exp_ok {
                out.mismatch(bi, si, "outcome", json!([exp_ok, st["err"]]), json!([ok, err]));
            } else if !ok && err != st["err"].as_str().unwrap() {
                out.mismatch(bi, si, "error-class", st["err"].clone(), json!(err));
            }
            if ok && op.starts_with("create") {
                res = Some(receipt.expect_commit_success().new_resource_addresses()[0]);
            }
            if let Some(r) = res {
                let got = stored(&mut ledger, r, acct);
                let want = expected(&st["stored"], d == "RUID");
                if got["vault"] != json!(want) {
                    out.mismatch(bi, si, "stored.vault", json!(want), got["vault"].clone());
                }
                if got["data"] != json!(want) {
                    out.mismatch(bi, si, "stored.data", json!(want), got["data"].clone());
                }
                if got["declared"] != json!(d) {
                    out.mismatch(bi, si, "declared", json!(d), got["declared"].clone());
                }
                // the statement itself: every stored id has the declared id type
                for x in got["vault"].as_array().unwrap().iter().chain(got["data"].as_array().unwrap().iter()) {
                    if x[0] != json!(d) {
                        out.mismatch(bi, si, "id-of-another-type-stored", json!(d), x.clone());
                    }
                }
            } else if exp_ok {
                out.mismatch(bi, si, "no-resource", json!(true), json!(false));
            }
        }
    }
    out.done(behs.len(), steps);
}

//! Binding of spec/Ledger/Ledger.tla to the real engine at ledger level (scrypto_test::LedgerSimulator,
//! real manifests built with ManifestBuilder).
//!
//! mode `replay` (G): behaviours printed by GenLedger.tla on stdin, one JSON object per line:
//!   {"res": ResDef, "unit": Unit, "init": ledger, "txs": [{"ins": [...], "ok", "fail", "err", "post": ledger}]}
//! For every behaviour a ledger is prepared to the model's initial ledger (cached per distinct
//! initial ledger as an in-memory database snapshot), every transaction is built and executed,
//! and after it the harness compares: commit success / failure, the error class (unless the
//! model leaves it open, "*"), optionally the index of the failing instruction (prefix probing,
//! `probe=1`), and the ledger read back from the database: every account vault (balance field,
//! non-fungible index), every TotalSupply field, every non-fungible data entry of the universe.
//!
//! The harness only drives and projects.  All expected values come from the model.
use radix_engine::blueprints::resource::*;
use radix_engine::system::system_db_reader::*;
use radix_engine::system::system_substates::{KeyValueEntrySubstate, LockStatus};
use radix_transactions::manifest::BuildableManifest;
use radix_transactions::validation::TransactionValidator;
use scrypto_test::prelude::*;
use serde_json::{json, Map, Value};
use std::collections::{BTreeMap, BTreeSet};
use vh::util::*;
use vh::Args;

/// non-fungible data of the model: four fields in mixed order, b and d are mutable, a and c are not
#[derive(ManifestSbor, ScryptoSbor, Clone, Debug)]
pub struct NfData {
    pub a: u64,
    pub b: u64,
    pub c: u64,
    pub d: u64,
}
impl NonFungibleData for NfData {
    const MUTABLE_FIELDS: &'static [&'static str] = &["b", "d"];
}
/// data of a freshly minted non-fungible (Data0 of the model): a different value in every field
pub const DATA0: NfData = NfData { a: 1, b: 2, c: 3, d: 4 };

pub type Ledger = LedgerSimulator<NoExtension, InMemorySubstateDatabase>;

#[derive(Clone)]
pub struct ResInfo {
    pub name: String,
    pub fungible: bool,
    pub div: u8,
    pub track: bool,
    pub ruid: bool,
    pub uni: Vec<i64>,
    pub addr: ResourceAddress,
}

#[derive(Clone)]
pub struct Acct {
    pub name: String,
    pub pk: Secp256k1PublicKey,
    pub addr: ComponentAddress,
}

#[derive(Clone)]
pub struct World {
    pub snap: LedgerSimulatorSnapshot,
    pub res: BTreeMap<String, ResInfo>,
    pub vaults: BTreeMap<(String, String), NodeId>,
    /// RUID resources: ordinal (1-based) -> id
    pub ruids: BTreeMap<String, Vec<NonFungibleLocalId>>,
}

pub struct Env {
    pub ledger: Ledger,
    pub base: LedgerSimulatorSnapshot,
    pub accts: Vec<Acct>,
    pub unit: i64,
    pub worlds: BTreeMap<String, World>,
}

fn pow10(n: u32) -> I192 {
    let mut x = I192::from(1u32);
    for _ in 0..n {
        x = x * I192::from(10u32);
    }
    x
}

impl Env {
    pub fn new(unit: i64, naccts: usize) -> Env {
        let mut ledger = LedgerSimulatorBuilder::new().build();
        let mut accts = vec![];
        for k in 0..naccts {
            let (pk, _sk, addr) = ledger.new_allocated_account();
            accts.push(Acct { name: format!("a{}", k + 1), pk, addr });
        }
        let base = ledger.create_snapshot();
        Env { ledger, base, accts, unit, worlds: BTreeMap::new() }
    }
    pub fn proofs(&self) -> Vec<NonFungibleGlobalId> {
        self.accts.iter().map(|a| NonFungibleGlobalId::from_public_key(&a.pk)).collect()
    }
    pub fn acct(&self, name: &str) -> &Acct {
        self.accts.iter().find(|a| a.name == name).expect("unknown account")
    }
    /// model amount -> Decimal of a resource of divisibility d (n * 10^(18-d) / unit attos)
    pub fn amount(&self, n: i64, div: u8) -> Decimal {
        let scaled = I192::from(n) * pow10(18 - div as u32);
        let u = I192::from(self.unit);
        if scaled % u != I192::from(0u32) {
            panic!("amount {} cannot be concretised at divisibility {} with unit {}", n, div, self.unit);
        }
        Decimal::from_attos(scaled / u)
    }
    /// Decimal -> model units; None if not on the model's grid
    pub fn units(&self, d: Decimal, div: u8) -> Option<i64> {
        let g = pow10(18 - div as u32);
        let x = d.attos() * I192::from(self.unit);
        if x % g != I192::from(0u32) {
            return None;
        }
        let q = x / g;
        let s = q.to_string();
        s.parse::<i64>().ok()
    }
    fn exec(&mut self, m: TransactionManifestV1) -> TransactionReceipt {
        let proofs = self.proofs();
        self.ledger.execute_manifest(m, proofs)
    }
    fn must(&mut self, m: TransactionManifestV1, what: &str) -> TransactionReceipt {
        let r = self.exec(m);
        if !r.is_commit_success() {
            eprintln!("setup transaction failed ({}): {:?}", what, r.result);
            std::process::exit(2);
        }
        r
    }

    /// Prepares (or fetches) the world for a resource definition + initial ledger.
    pub fn world(&mut self, resdef: &Value, init: &Value) -> World {
        let key = format!("{}|{}", resdef, init);
        if let Some(w) = self.worlds.get(&key) {
            return w.clone();
        }
        self.ledger.restore_snapshot(self.base.clone());
        let allow = || rule!(allow_all);
        let mut res = BTreeMap::new();
        for (name, def) in resdef.as_object().expect("res") {
            let fungible = def["kind"] == "F";
            let div = def["div"].as_u64().unwrap_or(0) as u8;
            let track = def["track"].as_bool().unwrap();
            let ruid = def["ruid"].as_bool().unwrap();
            let uni = i64s(&def["uni"]);
            let b = ManifestBuilder::new().lock_fee_from_faucet();
            let b = if fungible {
                b.create_fungible_resource(
                    OwnerRole::None,
                    track,
                    div,
                    FungibleResourceRoles {
                        mint_roles: mint_roles! { minter => allow(); minter_updater => rule!(deny_all); },
                        burn_roles: burn_roles! { burner => allow(); burner_updater => rule!(deny_all); },
                        recall_roles: recall_roles! { recaller => allow(); recaller_updater => rule!(deny_all); },
                        ..Default::default()
                    },
                    metadata!(),
                    None,
                )
            } else {
                let roles = NonFungibleResourceRoles {
                    mint_roles: mint_roles! { minter => allow(); minter_updater => rule!(deny_all); },
                    burn_roles: burn_roles! { burner => allow(); burner_updater => rule!(deny_all); },
                    recall_roles: recall_roles! { recaller => allow(); recaller_updater => rule!(deny_all); },
                    non_fungible_data_update_roles: non_fungible_data_update_roles! {
                        non_fungible_data_updater => allow(); non_fungible_data_updater_updater => rule!(deny_all); },
                    ..Default::default()
                };
                if ruid {
                    b.create_ruid_non_fungible_resource(OwnerRole::None, track, metadata!(), roles, None::<Vec<NfData>>)
                } else {
                    b.create_non_fungible_resource(
                        OwnerRole::None,
                        NonFungibleIdType::Integer,
                        track,
                        roles,
                        metadata!(),
                        None::<Vec<(NonFungibleLocalId, NfData)>>,
                    )
                }
            };
            let r = self.must(b.build(), "create resource");
            let addr = r.expect_commit_success().new_resource_addresses()[0];
            res.insert(name.clone(), ResInfo { name: name.clone(), fungible, div, track, ruid, uni, addr });
        }
        // a vault for every (account, resource): deposit of an empty bucket creates it
        let accts = self.accts.clone();
        let mut b = ManifestBuilder::new().lock_fee_from_faucet();
        let mut n = 0;
        for a in &accts {
            for ri in res.values() {
                let name = format!("e{}", n);
                n += 1;
                b = b.take_from_worktop(ri.addr, Decimal::ZERO, &name).deposit(a.addr, &name);
            }
        }
        self.must(b.build(), "create vaults");
        let mut vaults = BTreeMap::new();
        for a in &accts {
            for ri in res.values() {
                let v = self.ledger.get_component_vaults(a.addr, ri.addr);
                assert_eq!(v.len(), 1, "one vault per account and resource");
                vaults.insert((a.name.clone(), ri.name.clone()), v[0]);
            }
        }
        // initial balances
        let mut ruids: BTreeMap<String, Vec<NonFungibleLocalId>> = BTreeMap::new();
        let data_of = |rname: &str, id: i64| -> Option<NfData> {
            let arr = init["data"].get(rname)?.as_array()?;
            arr.iter().find(|e| e[0].as_i64() == Some(id)).map(|e| NfData { a: e[1].as_u64().unwrap(), b: e[2].as_u64().unwrap(), c: e[3].as_u64().unwrap(), d: e[4].as_u64().unwrap() })
        };
        for ri in res.values().cloned().collect::<Vec<_>>() {
            if ri.fungible {
                for a in &accts {
                    let amt = init["bal"][&a.name][&ri.name]["amt"].as_i64().unwrap_or(0);
                    if amt > 0 {
                        let m = ManifestBuilder::new()
                            .lock_fee_from_faucet()
                            .mint_fungible(ri.addr, self.amount(amt, ri.div))
                            .deposit_entire_worktop(a.addr)
                            .build();
                        self.must(m, "mint initial balance");
                    }
                }
                continue;
            }
            let ever = i64s(&init["ever"][&ri.name]);
            let holder = |id: i64| -> Option<&Acct> {
                accts.iter().find(|a| i64s(&init["bal"][&a.name][&ri.name]["ids"]).contains(&id))
            };
            if ri.ruid {
                let ctr = init["ctr"][&ri.name].as_i64().unwrap();
                let mut ids: Vec<NonFungibleLocalId> = vec![];
                if ctr > 0 {
                    let entries: Vec<NfData> = (1..=ctr).map(|k| data_of(&ri.name, k).unwrap_or(DATA0.clone())).collect();
                    let m = ManifestBuilder::new()
                        .lock_fee_from_faucet()
                        .mint_ruid_non_fungible(ri.addr, entries)
                        .deposit_entire_worktop(accts[0].addr)
                        .build();
                    let r = self.must(m, "mint initial ruids");
                    let evs = self.ledger.extract_events_of_type::<MintNonFungibleResourceEvent>(r.expect_commit_success());
                    ids = evs.into_iter().flat_map(|e| e.ids.into_iter()).collect();
                    assert_eq!(ids.len() as i64, ctr);
                }
                for k in 1..=ctr {
                    let id = ids[(k - 1) as usize].clone();
                    match holder(k) {
                        Some(a) if a.name == accts[0].name => {}
                        Some(a) => {
                            let m = ManifestBuilder::new()
                                .lock_fee_from_faucet()
                                .withdraw_non_fungibles_from_account(accts[0].addr, ri.addr, [id])
                                .deposit_entire_worktop(a.addr)
                                .build();
                            self.must(m, "move initial ruid");
                        }
                        None => {
                            let m = ManifestBuilder::new()
                                .lock_fee_from_faucet()
                                .burn_non_fungibles_in_account(accts[0].addr, ri.addr, [id])
                                .build();
                            self.must(m, "burn initial ruid");
                        }
                    }
                }
                ruids.insert(ri.name.clone(), ids);
            } else {
                for id in ever {
                    let d = data_of(&ri.name, id).unwrap_or(DATA0.clone());
                    let b = ManifestBuilder::new()
                        .lock_fee_from_faucet()
                        .mint_non_fungible(ri.addr, [(NonFungibleLocalId::integer(id as u64), d)]);
                    let m = match holder(id) {
                        Some(a) => b.deposit_entire_worktop(a.addr).build(),
                        None => b.burn_all_from_worktop(ri.addr).build(),
                    };
                    self.must(m, "mint initial id");
                }
            }
        }
        let w = World { snap: self.ledger.create_snapshot(), res, vaults, ruids };
        self.worlds.insert(key, w.clone());
        w
    }
}

// ---------------------------------------------------------------------------------------------
// projection of the real ledger into the model's shape

pub fn nf_id(w: &World, r: &ResInfo, x: i64) -> Option<NonFungibleLocalId> {
    if r.ruid {
        w.ruids.get(&r.name).and_then(|v| v.get((x - 1) as usize)).cloned()
    } else {
        Some(NonFungibleLocalId::integer(x as u64))
    }
}
fn model_id(w: &World, r: &ResInfo, id: &NonFungibleLocalId) -> Value {
    if r.ruid {
        match w.ruids.get(&r.name).and_then(|v| v.iter().position(|y| y == id)) {
            Some(p) => json!(p as i64 + 1),
            None => json!(format!("unknown:{}", id)),
        }
    } else {
        match id {
            NonFungibleLocalId::Integer(i) => json!(i.value()),
            other => json!(format!("unknown:{}", other)),
        }
    }
}

/// `only`: the accounts of the behaviour (the environment may have more)
pub fn project_for(env: &Env, w: &World, only: Option<&Value>) -> Value {
    let db = env.ledger.substate_db();
    let reader = SystemDatabaseReader::new(db);
    let mut bal = Map::new();
    for a in &env.accts {
        if let Some(o) = only {
            if o.get(&a.name).is_none() {
                continue;
            }
        }
        let mut per = Map::new();
        for r in w.res.values() {
            let v = w.vaults[&(a.name.clone(), r.name.clone())];
            if r.fungible {
                let b: FungibleVaultBalanceFieldPayload =
                    reader.read_typed_object_field(&v, ModuleId::Main, FungibleVaultField::Balance.into()).expect("balance");
                let amt = b.fully_update_and_into_latest_version().amount();
                let u = env.units(amt, r.div).map(|x| json!(x)).unwrap_or(json!(format!("offgrid:{}", amt)));
                per.insert(r.name.clone(), json!({"amt": u, "ids": []}));
            } else {
                let b: NonFungibleVaultBalanceFieldPayload =
                    reader.read_typed_object_field(&v, ModuleId::Main, NonFungibleVaultField::Balance.into()).expect("balance");
                let amt = b.fully_update_and_into_latest_version().amount;
                let u = env.units(amt, 0).map(|x| json!(x)).unwrap_or(json!(format!("offgrid:{}", amt)));
                let mut ids: Vec<Value> = reader
                    .collection_iter(&v, ModuleId::Main, NonFungibleVaultCollection::NonFungibleIndex.collection_index())
                    .unwrap()
                    .map(|(key, _)| {
                        let id: NonFungibleLocalId = scrypto_decode(&key.into_map()).unwrap();
                        model_id(w, r, &id)
                    })
                    .collect();
                ids.sort_by_key(|x| x.to_string());
                per.insert(r.name.clone(), json!({"amt": u, "ids": ids}));
            }
        }
        bal.insert(a.name.clone(), Value::Object(per));
    }
    let mut sup = Map::new();
    let mut data = Map::new();
    let mut ever = Map::new();
    let mut ctr = Map::new();
    let mut odd: Vec<Value> = vec![];
    for r in w.res.values() {
        let node = r.addr.as_node_id();
        if r.fungible {
            let s: Result<FungibleResourceManagerTotalSupplyFieldPayload, _> =
                reader.read_typed_object_field(node, ModuleId::Main, FungibleResourceManagerField::TotalSupply.into());
            match s {
                Ok(s) => {
                    let d = s.fully_update_and_into_latest_version();
                    sup.insert(r.name.clone(), env.units(d, r.div).map(|x| json!(x)).unwrap_or(json!(format!("offgrid:{}", d))));
                    if !r.track {
                        odd.push(json!(format!("{}: TotalSupply exists for an untracked resource", r.name)));
                    }
                }
                Err(_) => {
                    sup.insert(r.name.clone(), json!(0));
                    if r.track {
                        odd.push(json!(format!("{}: TotalSupply missing", r.name)));
                    }
                }
            }
            continue;
        }
        let s: Result<NonFungibleResourceManagerTotalSupplyFieldPayload, _> =
            reader.read_typed_object_field(node, ModuleId::Main, NonFungibleResourceManagerField::TotalSupply.into());
        match s {
            Ok(s) => {
                let d = s.fully_update_and_into_latest_version();
                sup.insert(r.name.clone(), env.units(d, 0).map(|x| json!(x)).unwrap_or(json!(format!("offgrid:{}", d))));
            }
            Err(_) => {
                sup.insert(r.name.clone(), json!(0));
                if r.track {
                    odd.push(json!(format!("{}: TotalSupply missing", r.name)));
                }
            }
        }
        // data entries of every id of the universe
        let part = reader
            .get_partition_of_collection(node, ModuleId::Main, NonFungibleResourceManagerCollection::DataKeyValue.collection_index())
            .unwrap();
        let known: Vec<i64> = if r.ruid { (1..=w.ruids.get(&r.name).map(|v| v.len()).unwrap_or(0) as i64).collect() } else { r.uni.clone() };
        let mut live: Vec<Value> = vec![];
        let mut ev: Vec<Value> = vec![];
        for x in known {
            let id = nf_id(w, r, x).unwrap();
            let e: Option<KeyValueEntrySubstate<NfData>> = db.get_substate(node, part, SubstateKey::Map(scrypto_encode(&id).unwrap()));
            match e {
                None => {}
                Some(e) => {
                    let locked = matches!(e.lock_status(), LockStatus::Locked);
                    match e.into_value() {
                        Some(d) => {
                            live.push(json!([x, d.a, d.b, d.c, d.d])); // EVERY field is read back
                            ev.push(json!(x));
                            if locked {
                                odd.push(json!(format!("{}#{}: live entry is locked", r.name, x)));
                            }
                        }
                        None => {
                            if locked {
                                ev.push(json!(x)); // tombstone
                            } else {
                                odd.push(json!(format!("{}#{}: empty unlocked entry", r.name, x)));
                            }
                        }
                    }
                }
            }
        }
        data.insert(r.name.clone(), Value::Array(live));
        ever.insert(r.name.clone(), Value::Array(ev));
        ctr.insert(r.name.clone(), json!(if r.ruid { w.ruids.get(&r.name).map(|v| v.len()).unwrap_or(0) } else { 0 }));
    }
    json!({"bal": bal, "sup": sup, "data": data, "ever": ever, "ctr": ctr, "odd": odd})
}

pub fn project(env: &Env, w: &World) -> Value {
    project_for(env, w, None)
}

/// canonical form for comparison: empty arrays where the model prints an empty record become {}, sets are sorted
fn canon(v: &Value) -> Value {
    match v {
        Value::Array(a) => {
            let mut x: Vec<Value> = a.iter().map(canon).collect();
            x.sort_by_key(|e| e.to_string());
            Value::Array(x)
        }
        Value::Object(o) => Value::Object(o.iter().map(|(k, e)| (k.clone(), canon(e))).collect()),
        other => other.clone(),
    }
}
fn empty(v: &Value) -> bool {
    match v {
        Value::Null => true,
        Value::Array(a) => a.is_empty(),
        Value::Object(o) => o.is_empty(),
        _ => false,
    }
}
/// (path, expected, got) for every difference
pub fn diff(path: &str, exp: &Value, got: &Value, out: &mut Vec<(String, Value, Value)>) {
    if empty(exp) && empty(got) {
        return;
    }
    match (exp, got) {
        (Value::Object(e), Value::Object(g)) => {
            for (k, ev) in e {
                diff(&format!("{}.{}", path, k), ev, g.get(k).unwrap_or(&Value::Null), out);
            }
            for (k, gv) in g {
                if !e.contains_key(k) {
                    diff(&format!("{}.{}", path, k), &Value::Null, gv, out);
                }
            }
        }
        _ => {
            if canon(exp) != canon(got) {
                out.push((path.to_string(), exp.clone(), got.clone()));
            }
        }
    }
}

// ---------------------------------------------------------------------------------------------
// manifests

/// the path of enum variants at the head of the Debug form of an error, e.g.
/// ["ApplicationError", "VaultError", "ResourceError", "InsufficientBalance"]
fn variant_path(dbg: &str) -> Vec<String> {
    let mut path = vec![];
    let mut cur = String::new();
    for ch in dbg.chars() {
        if ch.is_ascii_alphanumeric() || ch == '_' {
            cur.push(ch);
        } else if ch == '(' {
            if cur.is_empty() {
                break;
            }
            path.push(std::mem::take(&mut cur));
        } else {
            break;
        }
    }
    if !cur.is_empty() && cur.chars().next().map(|c| c.is_ascii_uppercase()).unwrap_or(false) {
        path.push(cur);
    }
    path
}
/// coarse error class (the names the model uses)
pub fn error_class(e: &RuntimeError) -> String {
    let dbg = format!("{:?}", e);
    let p: Vec<String> = variant_path(&dbg)
        .into_iter()
        .filter(|x| !["NodeId", "ReferencedNodeId", "OwnedNodeId", "Box", "Some"].contains(&x.as_str()))
        .collect();
    let last = p.last().cloned().unwrap_or_default();
    let has = |s: &str| p.iter().any(|x| x == s);
    if has("WorktopError") && last == "InsufficientBalance" {
        return "WorktopInsufficient".into();
    }
    if has("WorktopError") && has("AssertionFailed") {
        return "AssertionFailed".into();
    }
    if has("NodeBorrowed") || (has("BucketError") && has("Locked")) {
        return "BucketLocked".into();
    }
    if has("AssertNextCallReturnsFailed") {
        return "AssertNextCallReturnsFailed".into();
    }
    if has("AssertBucketContentsFailed") {
        return "AssertBucketContentsFailed".into();
    }
    if has("AuthError") && has("Unauthorized") {
        return "Unauthorized".into();
    }
    if last == "MissingNonFungibleLocalId" || last == "MissingId" {
        return "MissingId".into();
    }
    if has("ProofError") {
        return "EmptyProofNotAllowed".into();
    }
    for k in ["InvalidAmount", "NonFungibleAlreadyExists", "NonFungibleNotFound", "UnknownMutableFieldName",
              "NonFungibleIdTypeDoesNotMatch", "OrphanedNodes", "BucketNotFound", "ProofNotFound"] {
        if has(k) {
            return k.into();
        }
    }
    last
}

pub struct Built {
    pub manifest: TransactionManifestV1,
}

fn ids_of(w: &World, r: &ResInfo, v: &Value) -> Vec<NonFungibleLocalId> {
    i64s(v).into_iter().map(|x| nf_id(w, r, x).unwrap_or(NonFungibleLocalId::integer(1_000_000 + x as u64))).collect()
}

/// Builds the manifest of instructions ins[0..upto) followed (if `cleanup`) by instructions that
/// make any well-formed prefix end successfully: drop the proofs, return every bucket still in the
/// name table, deposit the worktop without needing a signature.
pub fn build(env: &Env, w: &World, ins: &[Value], upto: usize, cleanup: bool) -> TransactionManifestV1 {
    build_generic(ManifestBuilder::new(), env, w, ins, upto, cleanup, &|_b, x| {
        panic!("V2 instruction {:?} in a V1 manifest", x.name())
    })
}

/// the same as a V2 manifest (needed for the ASSERT_WORKTOP_RESOURCES_* / ASSERT_NEXT_CALL_RETURNS_* / ASSERT_BUCKET_CONTENTS instructions)
pub fn build_v2(env: &Env, w: &World, ins: &[Value], upto: usize, cleanup: bool) -> TransactionManifestV2 {
    build_generic(ManifestBuilder::new_v2(), env, w, ins, upto, cleanup, &|b, x| match x {
        V2Ins::ResOnly(cs) => b.assert_worktop_resources_only(cs),
        V2Ins::ResInclude(cs) => b.assert_worktop_resources_include(cs),
        V2Ins::NextOnly(cs) => b.assert_next_call_returns_only(cs),
        V2Ins::NextInclude(cs) => b.assert_next_call_returns_include(cs),
        V2Ins::Bucket(k, c) => b.assert_bucket_contents(k, c),
    })
}

pub fn uses_v2(ins: &[Value]) -> bool {
    ins.iter().any(|i| matches!(i["op"].as_str().unwrap_or(""), "AssertResOnly" | "AssertResInclude" | "AssertNextCallOnly" | "AssertNextCallInclude" | "AssertBucket"))
}

pub enum V2Ins {
    ResOnly(ManifestResourceConstraints),
    ResInclude(ManifestResourceConstraints),
    NextOnly(ManifestResourceConstraints),
    NextInclude(ManifestResourceConstraints),
    Bucket(ManifestBucket, ManifestResourceConstraint),
}
impl V2Ins {
    fn name(&self) -> &'static str {
        match self {
            V2Ins::ResOnly(_) => "AssertResOnly",
            V2Ins::ResInclude(_) => "AssertResInclude",
            V2Ins::NextOnly(_) => "AssertNextCallOnly",
            V2Ins::NextInclude(_) => "AssertNextCallInclude",
            V2Ins::Bucket(..) => "AssertBucket",
        }
    }
}

/// model constraint [k, n, ids] on resource r -> ManifestResourceConstraint
fn constraint_of(env: &Env, w: &World, r: &ResInfo, c: &Value) -> ManifestResourceConstraint {
    let dec = |n: i64| env.amount(n, if r.fungible { r.div } else { 0 });
    match c["k"].as_str().unwrap() {
        "nz" => ManifestResourceConstraint::NonZeroAmount,
        "ex" => ManifestResourceConstraint::ExactAmount(dec(c["n"].as_i64().unwrap())),
        "al" => ManifestResourceConstraint::AtLeastAmount(dec(c["n"].as_i64().unwrap())),
        "exnf" => ManifestResourceConstraint::ExactNonFungibles(ids_of(w, r, &c["ids"]).into_iter().collect()),
        "alnf" => ManifestResourceConstraint::AtLeastNonFungibles(ids_of(w, r, &c["ids"]).into_iter().collect()),
        other => panic!("unknown constraint kind {}", other),
    }
}
fn constraints_of(env: &Env, w: &World, c: &Value) -> ManifestResourceConstraints {
    let mut cs = ManifestResourceConstraints::new();
    if let Some(o) = c.as_object() {
        for (rname, con) in o {
            let r = w.res.get(rname).expect("constraint on an unknown resource");
            cs = cs.with_unchecked(r.addr, constraint_of(env, w, r, con));
        }
    } else if !c.as_array().map(|a| a.is_empty()).unwrap_or(false) {
        panic!("unknown constraints form {}", c);
    }
    cs
}

fn build_generic<M: BuildableManifest>(
    start: ManifestBuilder<M>,
    env: &Env,
    w: &World,
    ins: &[Value],
    upto: usize,
    cleanup: bool,
    v2: &dyn Fn(ManifestBuilder<M>, V2Ins) -> ManifestBuilder<M>,
) -> M
where
    M::Instruction: From<InstructionV1>,
{
    let mut b = start.lock_fee_from_faucet();
    let mut nb: u32 = 0; // buckets created so far
    let mut np: u32 = 0;
    let mut live: Vec<u32> = vec![];
    let mut bres: Vec<String> = vec![]; // resource of every bucket created so far (from the creating instruction)
    let bk = |k: &Value| ManifestBucket(k.as_u64().unwrap() as u32 - 1);
    let pf = |k: &Value| ManifestProof(k.as_u64().unwrap() as u32 - 1);
    for i in ins.iter().take(upto) {
        let op = i["op"].as_str().unwrap();
        let rname = i["r"].as_str().unwrap_or("");
        let r = w.res.get(rname);
        let acct = i["a"].as_str().filter(|s| !s.is_empty()).map(|s| env.acct(s).clone());
        let n = i["n"].as_i64().unwrap_or(0);
        let amt = |r: &ResInfo| env.amount(n, if r.fungible { r.div } else { 0 });
        b = match op {
            "Withdraw" => b.withdraw_from_account(acct.unwrap().addr, r.unwrap().addr, amt(r.unwrap())),
            "WithdrawNF" => b.withdraw_non_fungibles_from_account(acct.unwrap().addr, r.unwrap().addr, ids_of(w, r.unwrap(), &i["ids"])),
            "TakeFromWorktop" => {
                nb += 1;
                bres.push(rname.to_string());
                live.push(nb - 1);
                b.take_from_worktop(r.unwrap().addr, amt(r.unwrap()), format!("b{}", nb))
            }
            "TakeNF" => {
                nb += 1;
                bres.push(rname.to_string());
                live.push(nb - 1);
                b.take_non_fungibles_from_worktop(r.unwrap().addr, ids_of(w, r.unwrap(), &i["ids"]), format!("b{}", nb))
            }
            "TakeAll" => {
                nb += 1;
                bres.push(rname.to_string());
                live.push(nb - 1);
                b.take_all_from_worktop(r.unwrap().addr, format!("b{}", nb))
            }
            "ReturnToWorktop" => {
                live.retain(|x| *x != bk(&i["k"]).0);
                b.return_to_worktop(bk(&i["k"]))
            }
            "Deposit" => {
                live.retain(|x| *x != bk(&i["k"]).0);
                b.deposit(acct.unwrap().addr, bk(&i["k"]))
            }
            "DepositBatch" => b.deposit_entire_worktop(acct.unwrap().addr),
            "Mint" => b.mint_fungible(r.unwrap().addr, amt(r.unwrap())),
            "MintNF" => {
                let entries: Vec<(NonFungibleLocalId, NfData)> =
                    i64s(&i["ids"]).into_iter().map(|x| (NonFungibleLocalId::integer(x as u64), DATA0.clone())).collect();
                b.mint_non_fungible(r.unwrap().addr, entries)
            }
            "MintNFWrongType" => b.mint_non_fungible(r.unwrap().addr, [(NonFungibleLocalId::string("x").unwrap(), DATA0.clone())]),
            "MintRuid" => b.mint_ruid_non_fungible(r.unwrap().addr, (0..n).map(|_| DATA0.clone()).collect::<Vec<_>>()),
            "MintSingleRuid" => b.call_method(
                r.unwrap().addr,
                NON_FUNGIBLE_RESOURCE_MANAGER_MINT_SINGLE_RUID_IDENT,
                NonFungibleResourceManagerMintSingleRuidManifestInput { entry: manifest_decode(&manifest_encode(&DATA0).unwrap()).unwrap() },
            ),
            // non-fungible vault take / burn / recall by AMOUNT
            "WithdrawNFAmount" => b.withdraw_from_account(acct.unwrap().addr, r.unwrap().addr, amt(r.unwrap())),
            "BurnNFAmountInAccount" => b.burn_in_account(acct.unwrap().addr, r.unwrap().addr, amt(r.unwrap())),
            "RecallNFAmount" => {
                let v = w.vaults[&(acct.unwrap().name, rname.to_string())];
                b.recall(InternalAddress::new_or_panic(v.0), amt(r.unwrap()))
            }
            "Burn" => {
                live.retain(|x| *x != bk(&i["k"]).0);
                b.burn_resource(bk(&i["k"]))
            }
            "BurnInAccount" => b.burn_in_account(acct.unwrap().addr, r.unwrap().addr, amt(r.unwrap())),
            "BurnNFInAccount" => b.burn_non_fungibles_in_account(acct.unwrap().addr, r.unwrap().addr, ids_of(w, r.unwrap(), &i["ids"])),
            "Recall" => {
                let v = w.vaults[&(acct.unwrap().name, rname.to_string())];
                b.recall(InternalAddress::new_or_panic(v.0), amt(r.unwrap()))
            }
            "RecallNF" => {
                let v = w.vaults[&(acct.unwrap().name, rname.to_string())];
                b.recall_non_fungibles(InternalAddress::new_or_panic(v.0), ids_of(w, r.unwrap(), &i["ids"]))
            }
            "ProofOfAmount" => b.create_proof_from_account_of_amount(acct.unwrap().addr, r.unwrap().addr, amt(r.unwrap())),
            "ProofOfNF" => b.create_proof_from_account_of_non_fungibles(acct.unwrap().addr, r.unwrap().addr, ids_of(w, r.unwrap(), &i["ids"])),
            "BucketProofOfAmount" => {
                np += 1;
                // the divisibility is the one of the bucket's resource (known from the instruction that created the bucket)
                let d = bres.get(bk(&i["k"]).0 as usize).and_then(|x| w.res.get(x)).map(|x| if x.fungible { x.div } else { 0 }).unwrap_or(0);
                b.create_proof_from_bucket_of_amount(bk(&i["k"]), env.amount(n, d), format!("p{}", np))
            }
            "BucketProofOfNF" => {
                np += 1;
                let rr = bres.get(bk(&i["k"]).0 as usize).and_then(|x| w.res.get(x)).cloned();
                let ids = match rr {
                    Some(rr) => ids_of(w, &rr, &i["ids"]),
                    None => vec![],
                };
                b.create_proof_from_bucket_of_non_fungibles(bk(&i["k"]), ids, format!("p{}", np))
            }
            "BucketProofOfAll" => {
                np += 1;
                b.create_proof_from_bucket_of_all(bk(&i["k"]), format!("p{}", np))
            }
            "PopFromAuthZone" => {
                np += 1;
                b.pop_from_auth_zone(format!("p{}", np))
            }
            "PushToAuthZone" => b.push_to_auth_zone(pf(&i["k"])),
            "CloneProof" => {
                np += 1;
                b.clone_proof(pf(&i["k"]), format!("p{}", np))
            }
            "DropProof" => b.drop_proof(pf(&i["k"])),
            "DropAllProofs" => b.drop_all_proofs(),
            "DropNamedProofs" => b.drop_named_proofs(),
            "DropAuthZoneProofs" => b.drop_auth_zone_proofs(),
            "DropAuthZoneRegularProofs" => b.drop_auth_zone_regular_proofs(),
            "DropAuthZoneSignatureProofs" => b.drop_auth_zone_signature_proofs(),
            "AzProofOfAmount" => {
                np += 1;
                b.create_proof_from_auth_zone_of_amount(r.unwrap().addr, amt(r.unwrap()), format!("p{}", np))
            }
            "AzProofOfNF" => {
                np += 1;
                b.create_proof_from_auth_zone_of_non_fungibles(r.unwrap().addr, ids_of(w, r.unwrap(), &i["ids"]), format!("p{}", np))
            }
            "AzProofOfAll" => {
                np += 1;
                b.create_proof_from_auth_zone_of_all(r.unwrap().addr, format!("p{}", np))
            }
            "AssertResOnly" => v2(b, V2Ins::ResOnly(constraints_of(env, w, &i["c"]))),
            "AssertResInclude" => v2(b, V2Ins::ResInclude(constraints_of(env, w, &i["c"]))),
            "AssertNextCallOnly" => v2(b, V2Ins::NextOnly(constraints_of(env, w, &i["c"]))),
            "AssertNextCallInclude" => v2(b, V2Ins::NextInclude(constraints_of(env, w, &i["c"]))),
            "AssertBucket" => {
                // the amounts of the constraint are concretised at the divisibility of the bucket's resource
                let rr = bres.get(bk(&i["k"]).0 as usize).and_then(|x| w.res.get(x)).cloned().expect("bucket of unknown resource");
                let con = constraint_of(env, w, &rr, &i["c"]["b"]);
                v2(b, V2Ins::Bucket(bk(&i["k"]), con))
            }
            "AssertContains" => b.assert_worktop_contains(r.unwrap().addr, amt(r.unwrap())),
            "AssertAny" => b.assert_worktop_contains_any(r.unwrap().addr),
            "AssertNF" => b.assert_worktop_contains_non_fungibles(r.unwrap().addr, ids_of(w, r.unwrap(), &i["ids"])),
            "UpdateNFData" => {
                let rr = r.unwrap();
                let id = nf_id(w, rr, i["k"].as_i64().unwrap()).unwrap_or(NonFungibleLocalId::integer(1_000_000));
                b.update_non_fungible_data(rr.addr, id, i["f"].as_str().unwrap(), i["v"].as_u64().unwrap())
            }
            other => panic!("unknown instruction {}", other),
        };
    }
    if cleanup {
        if uses_v2(ins) {
            // a pending ASSERT_NEXT_CALL_RETURNS_* of the prefix must not judge the cleanup's own call: replace it by one that always holds
            b = v2(b, V2Ins::NextInclude(ManifestResourceConstraints::new()));
        }
        b = b.drop_named_proofs().drop_auth_zone_regular_proofs();
        for k in live {
            b = b.return_to_worktop(ManifestBucket(k));
        }
        b = b.try_deposit_entire_worktop_or_abort(env.accts[0].addr, None);
    }
    b.build_no_validate()
}

pub enum AnyM {
    V1(TransactionManifestV1),
    V2(TransactionManifestV2),
}
impl AnyM {
    fn executable(self, nonce: u32, proofs: &[NonFungibleGlobalId], v: &TransactionValidator) -> ExecutableTransaction {
        let p: BTreeSet<NonFungibleGlobalId> = proofs.iter().cloned().collect();
        match self {
            AnyM::V1(m) => m.into_executable_with_proofs(nonce, p, v).unwrap(),
            AnyM::V2(m) => m.into_executable_with_proofs(nonce, p, v).unwrap(),
        }
    }
}

fn raw_error(r: &TransactionReceipt) -> String {
    match &r.result {
        TransactionResult::Commit(c) => match &c.outcome {
            TransactionOutcome::Success(_) => "".into(),
            TransactionOutcome::Failure(e) => format!("{:?}", e).chars().take(200).collect(),
        },
        _ => "".into(),
    }
}
fn outcome(r: &TransactionReceipt) -> (String, String) {
    match &r.result {
        TransactionResult::Commit(c) => match &c.outcome {
            TransactionOutcome::Success(_) => ("ok".into(), "".into()),
            TransactionOutcome::Failure(e) => ("fail".into(), error_class(e)),
        },
        TransactionResult::Reject(x) => ("reject".into(), format!("{:?}", x.reason).chars().take(120).collect()),
        TransactionResult::Abort(x) => ("abort".into(), format!("{:?}", x.reason).chars().take(120).collect()),
    }
}

/// learns the ids of RUID non-fungibles minted by a committed successful transaction (in mint order)
pub fn learn_ruids(env: &Env, w: &mut World, r: &TransactionReceipt) {
    if let TransactionResult::Commit(c) = &r.result {
        if !c.outcome.is_success() {
            return;
        }
        for (ety, data) in &c.application_events {
            if env.ledger.is_event_name_equal::<MintNonFungibleResourceEvent>(ety) {
                if let Emitter::Method(node, _) = &ety.0 {
                    for ri in w.res.values() {
                        if ri.ruid && ri.addr.as_node_id() == node {
                            let ev: MintNonFungibleResourceEvent = scrypto_decode(data).unwrap();
                            w.ruids.entry(ri.name.clone()).or_default().extend(ev.ids.into_iter());
                        }
                    }
                }
            }
        }
    }
}

pub fn run(mode: &str, args: &Args) {
    match mode {
        "replay" => replay(args),
        m => {
            eprintln!("unknown mode {}", m);
            std::process::exit(2);
        }
    }
}

fn replay(args: &Args) {
    let probe = args.u64("probe", 1) == 1;
    let behs = read_lines();
    let mut out = Out::new();
    if behs.is_empty() {
        out.done(0, 0);
        return;
    }
    let unit = behs[0]["unit"].as_i64().unwrap_or(2);
    let naccts = behs.iter().map(|b| b["init"]["bal"].as_object().map(|o| o.len()).unwrap_or(2)).max().unwrap_or(2);
    let mut env = Env::new(unit, naccts);
    let mut steps = 0usize;
    let mut stats: BTreeMap<String, u64> = BTreeMap::new();
    for (bi, beh) in behs.iter().enumerate() {
        let mut w = match catch(|| env.world(&beh["res"], &beh["init"])) {
            Ok(w) => w,
            Err(msg) => {
                out.emit(&json!({"toolerror": format!("cannot prepare the ledger of behaviour {}: {}", bi, msg)}));
                out.flush();
                std::process::exit(2);
            }
        };
        env.ledger.restore_snapshot(w.snap.clone());
        // the prepared ledger must be the model's initial ledger
        let got0 = project_for(&env, &w, Some(&beh["init"]["bal"]));
        let mut d = vec![];
        diff("init", &beh["init"], &got0, &mut d);
        for (p, e, g) in d {
            out.mismatch(bi, 0, &p, e, g);
        }
        for (ti, tx) in beh["txs"].as_array().unwrap().iter().enumerate() {
            let ins = tx["ins"].as_array().unwrap();
            let exp_ok = tx["ok"].as_bool().unwrap();
            let fail = tx["fail"].as_i64().unwrap();
            let exp_err = tx["err"].as_str().unwrap_or("");
            steps += ins.len() + 1;
            // Building the manifests is the harness's own job: anything it cannot build (unknown instruction kind, argument
            // that cannot be concretised ...) is a TOOL error of this machinery, never an observation about the engine.
            let k = fail.max(0) as usize;
            let v2m = uses_v2(ins);
            let mk = |upto: usize, cleanup: bool| -> AnyM {
                if v2m { AnyM::V2(build_v2(&env, &w, ins, upto, cleanup)) } else { AnyM::V1(build(&env, &w, ins, upto, cleanup)) }
            };
            let built = catch(|| {
                let full = mk(ins.len(), false);
                let (pa, pb) = if probe && !exp_ok {
                    (Some(mk(k, true)), if k < ins.len() { Some(mk(k + 1, true)) } else { None })
                } else {
                    (None, None)
                };
                (full, pa, pb)
            });
            let (m, pa, pb) = match built {
                Ok(x) => x,
                Err(msg) => {
                    out.emit(&json!({"toolerror": format!("cannot build the manifest of behaviour {} transaction {}: {}", bi, ti + 1, msg)}));
                    out.flush();
                    std::process::exit(2);
                }
            };
            // Only the execution by the engine runs under `catch`: a panic there is data.
            let res = catch(|| {
                let proofs = env.proofs();
                let mut probes = vec![];
                if let Some(pa) = pa {
                    // the instructions before the predicted failing one must all succeed ...
                    let a = env.ledger.execute_transaction_no_commit(
                        pa.executable(900_000 + steps as u32, &proofs, env.ledger.transaction_validator()),
                        ExecutionConfig::for_test_transaction(),
                    );
                    let (oa, ea) = outcome(&a);
                    probes.push((format!("prefix[0..{})+cleanup", k), "ok".to_string(), oa, ea));
                }
                if let Some(pb) = pb {
                    // ... and the prefix including it must fail even when everything is cleaned up afterwards
                    let b2 = env.ledger.execute_transaction_no_commit(
                        pb.executable(950_000 + steps as u32, &proofs, env.ledger.transaction_validator()),
                        ExecutionConfig::for_test_transaction(),
                    );
                    let (ob, eb) = outcome(&b2);
                    probes.push((format!("prefix[0..{}]+cleanup", k), "fail".to_string(), ob, eb));
                }
                let receipt = match m {
                    AnyM::V1(m) => env.ledger.execute_manifest(m, proofs),
                    AnyM::V2(m) => env.ledger.execute_manifest(m, proofs),
                };
                (receipt, probes)
            });
            let (receipt, probes) = match res {
                Ok(x) => x,
                Err(msg) => {
                    out.mismatch(bi, ti + 1, "engine-panic", json!(if exp_ok { "ok" } else { "fail" }), json!(msg));
                    break;
                }
            };
            for (what, want, got, err) in probes {
                if want != got {
                    out.mismatch(bi, ti + 1, &format!("fail-index:{}", what), json!(want), json!([got, err]));
                }
            }
            let (o, e) = outcome(&receipt);
            *stats.entry(format!("{}:{}", o, if o == "ok" { "" } else { &e })).or_default() += 1;
            for i in ins {
                *stats.entry(format!("op:{}", i["op"].as_str().unwrap())).or_default() += 1;
            }
            let want = if exp_ok { "ok" } else { "fail" };
            if o != want {
                out.mismatch(bi, ti + 1, "outcome", json!([want, exp_err, fail]), json!([o, e, raw_error(&receipt)]));
            } else if !exp_ok && exp_err != "*" && e != exp_err {
                out.mismatch(bi, ti + 1, "error-class", json!([exp_err, fail]), json!([e, raw_error(&receipt)]));
            }
            learn_ruids(&env, &mut w, &receipt);
            let got = project_for(&env, &w, Some(&beh["init"]["bal"]));
            let mut d = vec![];
            diff("post", &tx["post"], &got, &mut d);
            for (p, e, g) in d {
                out.mismatch(bi, ti + 1, &p, e, g);
            }
        }
    }
    out.emit(&json!({"stats": stats}));
    out.done(behs.len(), steps);
}

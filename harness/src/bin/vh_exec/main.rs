//! vh_exec — execution-level bindings on a full ledger (scrypto_test::LedgerSimulator):
//! transaction tracker / replay protection (C07), fee reserve and transaction lifecycle.
#![allow(clippy::all)]
mod tracker;

fn main() {
    let (module, mode, args) = vh::start();
    match module.as_str() {
        "tracker" => tracker::run(&mode, &args),
        m => vh::unknown(m),
    }
}

//! C07 — binding of spec/TxTracker.
//! `unit`: ring arithmetic of TransactionTrackerSubstateV1 with the MODEL's constants (cases from
//!         GenTxTracker.tla with expected partitions).
//! `ledger`: a seeded schedule of epoch changes, fresh submissions and re-submissions of V1
//!         transactions and V2 transactions with a subintent on a real ledger (real constants:
//!         191 partitions x 100 epochs, max epoch range 8640); every step and the tracker state after
//!         every commit is recorded and validated by TraceTxTracker.tla.
use radix_engine::blueprints::transaction_tracker::*;
use radix_engine::errors::RejectionReason;
use radix_engine::system::system_db_reader::SystemDatabaseReader;
use radix_engine::transaction::*;
use rand::prelude::*;
use scrypto_test::prelude::*;
use serde_json::{json, Value};
use vh::util::*;
use vh::Args;

pub fn run(mode: &str, args: &Args) {
    match mode {
        "unit" => unit(),
        "ledger" => ledger(args),
        _ => panic!("mode"),
    }
}

/// cases: {"P":p,"E":e,"se":startEpoch,"sp":startPart,"adv":n,"exp_se":..,"exp_sp":..,"probes":[[epoch, partIdx|-1]...]}
fn unit() {
    let mut out = Out::new();
    let cases = read_lines();
    let mut steps = 0;
    for (ci, c) in cases.iter().enumerate() {
        let p = c["P"].as_u64().unwrap() as u8;
        let e = c["E"].as_u64().unwrap();
        let base: u8 = 65;
        let mut t = TransactionTrackerSubstateV1 {
            start_epoch: c["se"].as_u64().unwrap(),
            start_partition: base + c["sp"].as_u64().unwrap() as u8,
            partition_range_start_inclusive: base,
            partition_range_end_inclusive: base + p - 1,
            epochs_per_partition: e,
        };
        for _ in 0..c["adv"].as_u64().unwrap() {
            steps += 1;
            t.advance();
        }
        if t.start_epoch != c["exp_se"].as_u64().unwrap() || (t.start_partition - base) as u64 != c["exp_sp"].as_u64().unwrap() {
            out.mismatch(ci, 0, "advance", json!([c["exp_se"], c["exp_sp"]]), json!([t.start_epoch, t.start_partition - base]));
        }
        for pr in c["probes"].as_array().unwrap() {
            steps += 1;
            let ep = pr[0].as_u64().unwrap();
            let exp = pr[1].as_i64().unwrap();
            let got = catch(|| t.partition_for_expiry_epoch(Epoch::of(ep)));
            let g = match got {
                Ok(Some(x)) => x as i64 - base as i64,
                Ok(None) => -1,
                Err(_) => -7,
            };
            if g != exp {
                out.mismatch(ci, ep as usize, "partition_for_expiry_epoch", json!(exp), json!(g));
            }
        }
    }
    out.done(cases.len(), steps);
}

fn tracker_state(ledger: &DefaultLedgerSimulator) -> (u64, u64) {
    let reader = SystemDatabaseReader::new(ledger.substate_db());
    let s = reader
        .read_typed_object_field::<TransactionTrackerSubstate>(TRANSACTION_TRACKER.as_node_id(), ModuleId::Main, 0u8)
        .unwrap();
    let v1 = s.into_v1();
    (v1.start_epoch, (v1.start_partition - v1.partition_range_start_inclusive) as u64)
}
fn epoch_of(ledger: &DefaultLedgerSimulator) -> u64 {
    let reader = SystemDatabaseReader::new(ledger.substate_db());
    reader
        .read_typed_object_field::<ConsensusManagerStateFieldPayload>(CONSENSUS_MANAGER.as_node_id(), ModuleId::Main, ConsensusManagerField::State.field_index())
        .unwrap()
        .fully_update_and_into_latest_version()
        .epoch
        .number()
}

#[derive(Clone)]
enum Stored {
    V1(NotarizedTransactionV1),
    /// a signed partial transaction (subintent) to be wrapped into fresh root transactions
    Sub(DetailedSignedPartialTransactionV2),
}
struct Intent {
    id: u64,
    lo: u64,
    hi: u64,
    kind: &'static str,
    fail: bool,
    stored: Stored,
}

fn classify(r: &TransactionReceipt) -> String {
    match &r.result {
        TransactionResult::Commit(c) => match &c.outcome {
            TransactionOutcome::Success(_) => "success".into(),
            TransactionOutcome::Failure(_) => "failure".into(),
        },
        TransactionResult::Reject(rej) => match &rej.reason {
            RejectionReason::TransactionEpochNotYetValid { .. } => "NotYetValid".into(),
            RejectionReason::TransactionEpochNoLongerValid { .. } => "NoLongerValid".into(),
            RejectionReason::IntentHashPreviouslyCommitted(_) => "PreviouslyCommitted".into(),
            other => format!("reject:{:?}", other).chars().take(60).collect(),
        },
        TransactionResult::Abort(_) => "abort".into(),
    }
}

fn ledger(args: &Args) {
    let seed = args.u64("seed", 1);
    let runs = args.u64("runs", 3);
    let len = args.u64("len", 80);
    let long = args.u64("long", 0) == 1; // epoch steps near 100 so that the ring moves every commit
    let max_range: u64 = 12 * 24 * 30;
    let mut rng = StdRng::seed_from_u64(seed);
    let mut out = Out::new();
    let notary = Ed25519PrivateKey::from_u64(1337).unwrap();
    let signer = Secp256k1PrivateKey::from_u64(7).unwrap();
    for _ in 0..runs {
        let mut ledger = LedgerSimulatorBuilder::new().build();
        let (se, sp) = tracker_state(&ledger);
        out.emit(&json!({"a": "reset", "epoch": epoch_of(&ledger), "se": se, "sp": sp}));
        let mut intents: Vec<Intent> = vec![];
        let mut next_id = 1u64;
        let mut nonce = 1000u32;
        for _ in 0..len {
            let epoch = epoch_of(&ledger);
            let c = rng.gen_range(0..100);
            if c < 25 {
                let d = if long { rng.gen_range(60..=100) } else { *[1u64, 1, 2, 7, 40, 99, 100, 101, 130, 250].choose(&mut rng).unwrap() };
                ledger.set_current_epoch(Epoch::of(epoch + d));
                out.emit(&json!({"a": "setepoch", "to": epoch + d}));
            } else if c < 32 {
                // a committed system transaction without user intents
                let r = ledger.execute_system_transaction(
                    ManifestBuilder::new_system_v1().call_method(CONSENSUS_MANAGER, CONSENSUS_MANAGER_GET_CURRENT_EPOCH_IDENT, ConsensusManagerGetCurrentEpochInput).build(),
                    btreeset![system_execution(SystemExecution::Validator)],
                );
                let (se, sp) = tracker_state(&ledger);
                out.emit(&json!({"a": "tick", "result": classify(&r), "se": se, "sp": sp}));
            } else {
                // a submission: fresh (c < 75) or a re-submission of an earlier intent
                let fresh = c < 75 || intents.is_empty();
                let (its, raw): (Vec<Value>, RawNotarizedTransaction) = if fresh {
                    let lo = match rng.gen_range(0..10) {
                        0 => epoch + rng.gen_range(1..4),
                        1..=3 => epoch,
                        _ => epoch.saturating_sub(rng.gen_range(0..120)),
                    };
                    let span = match rng.gen_range(0..10) {
                        0 => max_range,
                        1 => max_range - rng.gen_range(0..3),
                        2..=4 => rng.gen_range(1..40),
                        _ => rng.gen_range(1..400),
                    };
                    let hi = lo + span;
                    let fail = rng.gen_bool(0.35);
                    nonce += 1;
                    if rng.gen_bool(0.6) {
                        // V1
                        let mut mb = ManifestBuilder::new().lock_fee_from_faucet();
                        if fail {
                            mb = mb.assert_worktop_contains(XRD, 1);
                        }
                        let tx = TransactionBuilder::new()
                            .header(TransactionHeaderV1 {
                                network_id: NetworkDefinition::simulator().id,
                                start_epoch_inclusive: Epoch::of(lo),
                                end_epoch_exclusive: Epoch::of(hi),
                                nonce,
                                notary_public_key: notary.public_key().into(),
                                notary_is_signatory: false,
                                tip_percentage: 0,
                            })
                            .manifest(mb.build())
                            .sign(&signer)
                            .notarize(&notary)
                            .build();
                        let id = next_id;
                        next_id += 1;
                        let raw = tx.to_raw().unwrap();
                        intents.push(Intent { id, lo, hi, kind: "tx", fail, stored: Stored::V1(tx) });
                        (vec![json!([id, lo, hi, "tx"])], raw)
                    } else {
                        // V2 root + one subintent with its own window (overlapping the root's)
                        let slo = if rng.gen_bool(0.5) { lo } else { lo.saturating_sub(rng.gen_range(0..30)) };
                        let shi = match rng.gen_range(0..4) {
                            0 => hi,
                            1 => hi + rng.gen_range(1..150),
                            _ => (slo + rng.gen_range(1..500)).max(lo + 1),
                        }
                        .min(slo + max_range);
                        let partial = PartialTransactionV2Builder::new()
                            .intent_header(IntentHeaderV2 {
                                network_id: NetworkDefinition::simulator().id,
                                start_epoch_inclusive: Epoch::of(slo),
                                end_epoch_exclusive: Epoch::of(shi),
                                min_proposer_timestamp_inclusive: None,
                                max_proposer_timestamp_exclusive: None,
                                intent_discriminator: nonce as u64,
                            })
                            .manifest(ManifestBuilder::new_subintent_v2().yield_to_parent(()).build())
                            .build();
                        if lo.max(slo) >= hi.min(shi) {
                            continue; // no common window: statically invalid, not a tracker matter
                        }
                        let sid = next_id;
                        next_id += 1;
                        intents.push(Intent { id: sid, lo: slo, hi: shi, kind: "sub", fail: false, stored: Stored::Sub(partial.clone()) });
                        let rid = next_id;
                        next_id += 1;
                        nonce += 1;
                        let raw = wrap(&partial, lo, hi, nonce, fail, &notary);
                        (vec![json!([rid, lo, hi, "tx"]), json!([sid, slo, shi, "sub"])], raw)
                    }
                } else {
                    let it = &intents[rng.gen_range(0..intents.len())];
                    match &it.stored {
                        Stored::V1(tx) => (vec![json!([it.id, it.lo, it.hi, "tx"])], tx.to_raw().unwrap()),
                        Stored::Sub(partial) => {
                            // a fresh root transaction around the same subintent; root window chosen to be currently valid
                            let lo = epoch.saturating_sub(rng.gen_range(0..5)).max(it.lo.min(epoch));
                            let hi = epoch + rng.gen_range(1..50);
                            let fail = rng.gen_bool(0.3);
                            if lo.max(it.lo) >= hi.min(it.hi) {
                                continue;
                            }
                            nonce += 1;
                            let rid = next_id;
                            next_id += 1;
                            let raw = wrap(partial, lo, hi, nonce, fail, &notary);
                            (vec![json!([rid, lo, hi, "tx"]), json!([it.id, it.lo, it.hi, "sub"])], raw)
                        }
                    }
                };
                // static validation needs a common window; skip otherwise (not a property of the tracker)
                let olo = its.iter().map(|x| x[1].as_u64().unwrap()).max().unwrap();
                let ohi = its.iter().map(|x| x[2].as_u64().unwrap()).min().unwrap();
                if olo >= ohi {
                    continue;
                }
                let r = catch(|| ledger.execute_notarized_transaction(&raw));
                let (se, sp) = tracker_state(&ledger);
                let result = match &r {
                    Ok(rc) => classify(rc),
                    Err(e) => format!("panic:{}", e).chars().take(80).collect(),
                };
                out.emit(&json!({"a": "submit", "its": its, "result": result, "se": se, "sp": sp}));
            }
        }
    }
    out.flush();
}

fn wrap(partial: &DetailedSignedPartialTransactionV2, lo: u64, hi: u64, nonce: u32, fail: bool, notary: &Ed25519PrivateKey) -> RawNotarizedTransaction {
    let tx = TransactionV2Builder::new()
        .intent_header(IntentHeaderV2 {
            network_id: NetworkDefinition::simulator().id,
            start_epoch_inclusive: Epoch::of(lo),
            end_epoch_exclusive: Epoch::of(hi),
            min_proposer_timestamp_inclusive: None,
            max_proposer_timestamp_exclusive: None,
            intent_discriminator: nonce as u64,
        })
        .transaction_header(TransactionHeaderV2 { notary_public_key: notary.public_key().into(), notary_is_signatory: false, tip_basis_points: 0 })
        .add_signed_child("child", partial.clone())
        .manifest_builder(|b| {
            let b = b.lock_fee_from_faucet().yield_to_child("child", ());
            if fail {
                b.assert_worktop_contains(XRD, 1)
            } else {
                b
            }
        })
        .notarize(notary)
        .build();
    tx.raw
}

//! C47 — binding of spec/WasmMem to the host-memory access of WasmiModule / WasmiInstance.
//!
//! A case (chosen by TLC, or seeded-random in `record`) names an operation, the memory size and
//! the raw 32-bit arguments.  The harness builds a module that grows its memory, fills it with a
//! position-dependent pattern (word at address a, a % 4 = 0:  a * 259 + 0x01020304, little
//! endian) and then
//!   op "host"    : calls host import `fn` with the constant arguments; the recording runtime
//!                  captures the byte vectors the engine read from the memory,
//!   op "ret"     : returns the slice (ptr, len); the bytes are what invoke_export returns,
//!   op "consume" : calls buffer_consume(id, dest) for a host buffer of `blen` bytes
//!                  (byte i = (3 i + 1) % 256) and returns the whole memory as slice.
//! Observations are projections (length, bytes at offsets); expected values are computed by
//! TLA+ (GenWasmMem) or the recording is decided by TraceWasmMem.
use crate::rt::RecRuntime;
use crate::rules::par_map;
use radix_engine::errors::InvokeError;
use radix_engine::vm::wasm::{WasmInstance, WasmRuntimeError, WasmiModule};
use radix_engine_interface::types::Buffer;
use rand::prelude::*;
use serde_json::{json, Value};
use vh::util::*;
use vh::Args;

fn pair(v: &Value) -> u32 {
    let hi = v[0].as_u64().unwrap();
    let lo = v[1].as_u64().unwrap();
    ((hi << 16) | lo) as u32
}
fn to_pair(x: u32) -> Value {
    json!([x >> 16, x & 0xffff])
}

fn module_wat(c: &Value) -> String {
    let op = c["op"].as_str().unwrap();
    let mut w = String::from("(module\n");
    let args: Vec<u32> = c["args"].as_array().map(|a| a.iter().map(pair).collect()).unwrap_or_default();
    if op != "ret" {
        w.push_str(&format!("  (import \"env\" \"{}\" (func $h", c["fn"].as_str().unwrap()));
        if !args.is_empty() {
            w.push_str(" (param");
            for _ in &args {
                w.push_str(" i32");
            }
            w.push(')');
        }
        let res = c["res"].as_str().unwrap();
        if !res.is_empty() {
            w.push_str(&format!(" (result {})", res));
        }
        w.push_str("))\n");
    }
    w.push_str(&format!("  (memory (export \"memory\") {})\n", c["init"].as_u64().unwrap()));
    w.push_str("  (func (export \"Test_f\") (param i64) (result i64) (local $a i32) (local $end i32)\n");
    let grow = c["grow"].as_u64().unwrap();
    if grow > 0 {
        w.push_str(&format!("    (drop (memory.grow (i32.const {})))\n", grow));
    }
    w.push_str(
        "    (local.set $end (i32.mul (memory.size) (i32.const 65536)))\n\
         \x20   (block $done\n\
         \x20     (br_if $done (i32.eqz (local.get $end)))\n\
         \x20     (loop $l\n\
         \x20       (i32.store (local.get $a) (i32.add (i32.mul (local.get $a) (i32.const 259)) (i32.const 16909060)))\n\
         \x20       (local.set $a (i32.add (local.get $a) (i32.const 4)))\n\
         \x20       (br_if $l (i32.lt_u (local.get $a) (local.get $end)))))\n",
    );
    if op != "ret" {
        w.push_str("    (call $h");
        for a in &args {
            w.push_str(&format!(" (i32.const {})", *a as i32));
        }
        w.push_str(")\n");
        if !c["res"].as_str().unwrap().is_empty() {
            w.push_str("    drop\n");
        }
    }
    let ret = ((pair(&c["ret"][0]) as u64) << 32) | pair(&c["ret"][1]) as u64;
    w.push_str(&format!("    (i64.const {}))\n)\n", ret as i64));
    w
}

fn err_class(e: &InvokeError<WasmRuntimeError>) -> String {
    match e {
        InvokeError::SelfError(WasmRuntimeError::MemoryAccessError) => "MemoryAccessError".into(),
        InvokeError::SelfError(x) => {
            let d = format!("{:?}", x);
            d.split(|c: char| !c.is_alphanumeric()).next().unwrap_or("").to_string()
        }
        InvokeError::Downstream(_) => "Downstream".into(),
    }
}

fn observe(bytes: &[u8], offs: &[u64]) -> Value {
    let at: Vec<i64> = offs.iter().map(|o| bytes.get(*o as usize).map(|b| *b as i64).unwrap_or(-1)).collect();
    json!({"ok": true, "n": bytes.len(), "pr": offs, "at": at})
}

/// runs one case; `probes(j, len)` gives the offsets at which buffer j is observed
fn execute(c: &Value, probes: &dyn Fn(usize, usize) -> Vec<u64>) -> Value {
    let wat_text = module_wat(c);
    let code = wat::parse_str(&wat_text).unwrap_or_else(|e| panic!("wat: {} in {}", e, wat_text));
    let op = c["op"].as_str().unwrap();
    let rt = RecRuntime::new();
    if op == "consume" {
        let blen = c["blen"].as_u64().unwrap() as usize;
        let data: Vec<u8> = (0..blen).map(|i| ((i * 3 + 1) % 256) as u8).collect();
        let b = rt.st().put(data);
        assert_eq!(b.id(), 1);
    }
    let r = catch(|| {
        let module = WasmiModule::new(&code).map_err(|e| format!("compile: {:?}", e))?;
        let mut inst = module.instantiate().map_err(|e| format!("instantiate: {:?}", e))?;
        let mut boxed = rt.boxed();
        Ok::<_, String>(inst.invoke_export("Test_f", vec![Buffer(0)], &mut boxed))
    });
    match r {
        Err(msg) => json!({"outcome": "panic", "msg": msg.chars().take(200).collect::<String>()}),
        Ok(Err(setup)) => json!({"outcome": "setup", "msg": setup}),
        Ok(Ok(Err(e))) => json!({"outcome": err_class(&e), "calls": rt.st().calls.iter().filter(|x| x.name != "buffer_consume").count()}),
        Ok(Ok(Ok(ret))) => {
            let st = rt.st();
            let mut bufs = vec![];
            if op == "host" {
                let name = c["fn"].as_str().unwrap();
                for call in st.calls.iter().filter(|x| x.name == name) {
                    for (j, bts) in call.bufs.iter().enumerate() {
                        bufs.push(observe(bts, &probes(j, bts.len())));
                    }
                }
            }
            json!({"outcome": "ok", "bufs": bufs, "calls": st.calls.iter().filter(|x| x.name != "buffer_consume").count(),
                   "ret": observe(&ret, &probes(usize::MAX, ret.len()))})
        }
    }
}

pub fn run(mode: &str, args: &Args) {
    match mode {
        "replay" => replay(args),
        "record" => record(args),
        "wat" => {
            for c in read_lines() {
                println!("{}", module_wat(&c));
            }
        }
        _ => panic!("mode"),
    }
}

fn u64s(v: &Value) -> Vec<u64> {
    v.as_array().map(|a| a.iter().map(|x| x.as_u64().unwrap()).collect()).unwrap_or_default()
}

fn replay(args: &Args) {
    let cases = read_lines();
    let res = par_map(&cases, args.u64("threads", 4) as usize, |ci, c| {
        let exp = &c["exp"];
        // observe at the offsets the specification asks for
        let probes = |j: usize, _len: usize| -> Vec<u64> {
            if j == usize::MAX {
                u64s(&exp["ret"]["pr"])
            } else {
                u64s(&exp["bufs"][j]["pr"])
            }
        };
        let got = execute(c, &probes);
        let mut lines = vec![];
        let mut mm = |what: &str, e: Value, g: Value| lines.push(json!({"mismatch": what, "b": ci, "step": 0, "exp": e, "got": g}));
        let exp_outcome = if exp["ok"].as_bool().unwrap() { "ok" } else { "MemoryAccessError" };
        if got["outcome"] != exp_outcome {
            mm("outcome", json!(exp_outcome), got.clone());
        } else if exp_outcome == "ok" {
            if got["bufs"] != exp["bufs"] {
                mm("bytes received by the host", exp["bufs"].clone(), got["bufs"].clone());
            }
            if got["ret"] != exp["ret"] {
                mm("returned slice", exp["ret"].clone(), got["ret"].clone());
            }
        } else if got["calls"] != json!(0) {
            mm("host called despite error", json!(0), got["calls"].clone());
        }
        lines
    });
    let mut out = Out::new();
    for lines in res {
        for l in lines {
            out.mismatches += 1;
            out.emit(&l);
        }
    }
    out.done(cases.len(), cases.len());
}

// ---------------------------------------------------------------------------------------------
// seeded random cases; the raw arguments are chosen here, the layout of every host function
// comes from the specification's table (stdin: one line {"fns": [{n, lay, res}, ...]})

fn near(rng: &mut StdRng, size: u64) -> u32 {
    let anchors = [0u64, size, 1 << 31, (1u64 << 32) - 1, (1u64 << 32) - size, size / 2, 65536];
    match rng.gen_range(0..10) {
        0 => rng.gen(),
        1 => rng.gen_range(0..=size.max(1)) as u32,
        _ => {
            let a = anchors[rng.gen_range(0..anchors.len())] as i64;
            let d = rng.gen_range(-9i64..=9);
            (a + d).clamp(0, u32::MAX as i64) as u32
        }
    }
}

/// an adversarial (ptr, len): half of them straddle the end of the memory by a few bytes
fn wild_pair(rng: &mut StdRng, size: u64) -> (u32, u32) {
    match rng.gen_range(0..100) {
        0..=39 => {
            let ptr = if rng.gen_bool(0.5) { rng.gen_range(0..=size) } else { size.saturating_sub(rng.gen_range(0..40)) };
            let len = (size as i64 - ptr as i64 + rng.gen_range(-3i64..=3)).max(0);
            (ptr as u32, len as u32)
        }
        40..=54 => (rng.gen_range(0..=size.min(300)) as u32, rng.gen_range(0..300)),
        55..=69 => (near(rng, size), rng.gen_range(0..2)),
        _ => (near(rng, size), near(rng, size)),
    }
}

fn record(args: &Args) {
    let seed = args.u64("seed", 1);
    let n = args.u64("n", 1000) as usize;
    let big = args.u64("big", 2); // percent of cases with 64 pages
    let table = read_lines();
    let fns = table[0]["fns"].as_array().unwrap().clone();
    let mut rng = StdRng::seed_from_u64(seed);
    let mut cases = vec![];
    for _ in 0..n {
        let pages: u64 = if rng.gen_range(0..100) < big { 64 } else { [0, 1, 1, 1, 2, 3][rng.gen_range(0..6)] };
        let size = pages * 65536;
        let init = pages.min(1);
        let grow = pages - init;
        let mut c = json!({"init": init, "grow": grow, "pages": pages});
        match rng.gen_range(0..10) {
            0 => {
                c["op"] = json!("ret");
                let (p, l) = wild_pair(&mut rng, size);
                c["ret"] = json!([to_pair(p), to_pair(l)]);
            }
            1 => {
                c["op"] = json!("consume");
                c["fn"] = json!("buffer_consume");
                c["res"] = json!("");
                let blen = match rng.gen_range(0..4) {
                    0 => rng.gen_range(0..40),
                    1 => size.saturating_sub(rng.gen_range(0..5)),
                    2 => size + rng.gen_range(0..5),
                    _ => rng.gen_range(0..=size),
                };
                c["blen"] = json!(blen);
                c["args"] = json!([to_pair(1), to_pair(near(&mut rng, size))]);
                c["ret"] = json!([to_pair(0), to_pair(size as u32)]);
            }
            _ => {
                let f = &fns[rng.gen_range(0..fns.len())];
                c["op"] = json!("host");
                c["fn"] = f["n"].clone();
                c["res"] = f["res"].clone();
                let lay: Vec<&str> = f["lay"].as_array().unwrap().iter().map(|x| x.as_str().unwrap()).collect();
                let nb = lay.iter().filter(|x| **x == "P").count();
                let wild = rng.gen_range(0..nb); // one buffer is adversarial, the others mostly fine
                let mut bi = 0;
                let mut a = vec![];
                let mut pending_len = 0u32;
                for l in &lay {
                    match *l {
                        "P" => {
                            let is_wild = bi == wild || rng.gen_bool(0.1);
                            bi += 1;
                            let (p, ln) = if is_wild {
                                wild_pair(&mut rng, size)
                            } else {
                                (rng.gen_range(0..64u32).min(size as u32), rng.gen_range(0..64u32).min(size.saturating_sub(64) as u32))
                            };
                            pending_len = ln;
                            a.push(to_pair(p));
                        }
                        "L" => a.push(to_pair(pending_len)),
                        _ => a.push(to_pair(0)),
                    }
                }
                c["args"] = json!(a);
                c["ret"] = json!([to_pair(0), to_pair(0)]);
            }
        }
        cases.push(c);
    }
    let res = par_map(&cases, args.u64("threads", 4) as usize, |ci, c| {
        let mut rng = StdRng::seed_from_u64(seed ^ (ci as u64).wrapping_mul(0x9e3779b97f4a7c15));
        let rng = std::cell::RefCell::new(&mut rng);
        let probes = |_j: usize, len: usize| -> Vec<u64> {
            let mut v: Vec<u64> = vec![];
            for i in 0..len.min(3) {
                v.push(i as u64);
            }
            for i in len.saturating_sub(3)..len {
                v.push(i as u64);
            }
            if len > 0 {
                for _ in 0..4 {
                    v.push(rng.borrow_mut().gen_range(0..len) as u64);
                }
                if len > 65540 {
                    v.extend([65535u64, 65536, 65537]);
                }
            }
            v.sort();
            v.dedup();
            v
        };
        let got = execute(c, &probes);
        let mut ev = c.clone();
        ev["a"] = json!("mem");
        ev["got"] = got;
        ev
    });
    let mut out = Out::new();
    for e in res {
        out.emit(&e);
    }
    out.flush();
}

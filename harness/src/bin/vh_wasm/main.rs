//! vh_wasm — WASM column: WasmRules (C45), WasmMem (C47), WasmMeter (C46).
//! Binds spec/WasmRules, spec/WasmMem, spec/WasmMeter to radix_engine::vm::wasm
//! (ScryptoV1WasmValidator, WasmiModule / WasmiInstance, WasmRuntime).
#![allow(clippy::all)]
mod mem;
mod meter;
mod rt;
mod rules;

fn main() {
    let (module, mode, args) = vh::start();
    match module.as_str() {
        "rules" => rules::run(&mode, &args),
        "mem" => mem::run(&mode, &args),
        "meter" => meter::run(&mode, &args),
        m => vh::unknown(m),
    }
}

//! C46 — binding of spec/WasmMeter to the instrumentation performed by ScryptoV1WasmValidator
//! (instruction metering + stack limiter) and its execution by WasmiModule.
//!
//! A case is a program of the miniature language of WasmMeter.tla (JSON AST, chosen by TLC) with
//! argument values and the outcomes computed by the TLA+ reference semantics.  The harness
//!   * compiles the AST 1:1 to WAT (mechanical), plus the fixed exported wrapper `Test_f`,
//!   * runs the ORIGINAL module in plain wasmi,
//!   * validates/instruments it with ScryptoV1WasmValidator and runs the INSTRUMENTED module
//!     through WasmiModule::instantiate / invoke_export with the recording runtime that
//!     accumulates consume_wasm_execution_units (unlimited budget, budget = cost, budget = cost-1),
//!   * projects outcomes (value, memory.size, words of page 0 at the addresses the model names /
//!     trap kind) and compares them with the expected records (mismatch lines); with `trace=path`
//!     it also writes one event per program for TraceWasmMeter (cost/path/budget relations).
use crate::rt::RecRuntime;
use crate::rules::par_map;
use radix_engine::errors::InvokeError;
use radix_engine::vm::wasm::{ScryptoV1WasmValidator, WasmInstance, WasmRuntimeError, WasmiModule};
use radix_engine::vm::ScryptoVmVersion;
use radix_engine_interface::blueprints::package::PackageDefinition;
use radix_engine_interface::types::Buffer;
use serde_json::{json, Value};
use std::io::Write;
use vh::util::*;
use vh::Args;

// ---------------------------------------------------------------------------------------------
// AST -> WAT (1:1)

struct Ctx {
    k: usize,      // index of the current function (1-based)
    labels: usize, // fresh label counter
}

fn expr(e: &Value, cx: &mut Ctx, w: &mut String) {
    let tag = e[0].as_str().unwrap();
    match tag {
        "c" => w.push_str(&format!("(i32.const {})", e[1].as_i64().unwrap())),
        "l" => w.push_str(&format!("(local.get {})", e[1].as_i64().unwrap())),
        "add" | "sub" | "mul" | "divu" | "lts" => {
            let op = match tag {
                "add" => "i32.add",
                "sub" => "i32.sub",
                "mul" => "i32.mul",
                "divu" => "i32.div_u",
                _ => "i32.lt_s",
            };
            w.push_str(&format!("({} ", op));
            expr(&e[1], cx, w);
            w.push(' ');
            expr(&e[2], cx, w);
            w.push(')');
        }
        "eqz" | "load" | "grow" | "call" | "self" => {
            let head = match tag {
                "eqz" => "i32.eqz".to_string(),
                "load" => "i32.load".to_string(),
                "grow" => "memory.grow".to_string(),
                "call" => format!("call $f{}", cx.k + 1),
                _ => format!("call $f{}", cx.k),
            };
            w.push_str(&format!("({} ", head));
            expr(&e[1], cx, w);
            w.push(')');
        }
        "ife" => {
            w.push_str("(if (result i32) ");
            expr(&e[1], cx, w);
            w.push_str(" (then ");
            expr(&e[2], cx, w);
            w.push_str(") (else ");
            expr(&e[3], cx, w);
            w.push_str("))");
        }
        t => panic!("expr tag {}", t),
    }
}

fn seq(ss: &Value, cx: &mut Ctx, w: &mut String) {
    for s in ss.as_array().unwrap() {
        stmt(s, cx, w);
        w.push(' ');
    }
}

fn stmt(s: &Value, cx: &mut Ctx, w: &mut String) {
    let tag = s[0].as_str().unwrap();
    match tag {
        "set" => {
            w.push_str(&format!("(local.set {} ", s[1].as_i64().unwrap()));
            expr(&s[2], cx, w);
            w.push(')');
        }
        "drop" | "ret" => {
            w.push_str(if tag == "drop" { "(drop " } else { "(return " });
            expr(&s[1], cx, w);
            w.push(')');
        }
        "store" => {
            w.push_str("(i32.store ");
            expr(&s[1], cx, w);
            w.push(' ');
            expr(&s[2], cx, w);
            w.push(')');
        }
        "if" => {
            w.push_str("(if ");
            expr(&s[1], cx, w);
            w.push_str(" (then ");
            seq(&s[2], cx, w);
            w.push_str(") (else ");
            seq(&s[3], cx, w);
            w.push_str("))");
        }
        "loop" => {
            cx.labels += 1;
            let l = cx.labels;
            w.push_str(&format!("(loop $l{} ", l));
            seq(&s[1], cx, w);
            w.push_str(&format!("(br_if $l{} ", l));
            expr(&s[2], cx, w);
            w.push_str("))");
        }
        "block" => {
            cx.labels += 1;
            let l = cx.labels;
            w.push_str(&format!("(block $b{} ", l));
            seq(&s[1], cx, w);
            if s[2] == "br" {
                w.push_str(&format!("(br $b{}) ", l));
            } else {
                w.push_str(&format!("(br_if $b{} ", l));
                expr(&s[3], cx, w);
                w.push_str(") ");
            }
            seq(&s[4], cx, w);
            w.push(')');
        }
        "unr" => w.push_str("(unreachable)"),
        t => panic!("stmt tag {}", t),
    }
}

pub fn program_wat(p: &Value) -> String {
    let mut w = String::from("(module\n  (memory (export \"memory\") 1 64)\n");
    for (i, f) in p.as_array().unwrap().iter().enumerate() {
        let mut cx = Ctx { k: i + 1, labels: 0 };
        w.push_str(&format!("  (func $f{} (param i32) (result i32) (local i32)\n    ", i + 1));
        seq(&f[1], &mut cx, &mut w);
        expr(&f[2], &mut cx, &mut w);
        w.push_str(")\n");
    }
    // the wrapper: result -> 65520, memory.size -> 65524, returns the slice (0, 65536)
    w.push_str(
        "  (func (export \"Test_f\") (param i64) (result i64)\n\
         \x20   (i32.store (i32.const 65520) (call $f1 (i32.wrap_i64 (local.get 0))))\n\
         \x20   (i32.store (i32.const 65524) (memory.size))\n\
         \x20   (i64.const 65536))\n)\n",
    );
    w
}

// ---------------------------------------------------------------------------------------------
// projections

fn word(page: &[u8], a: usize) -> i64 {
    i32::from_le_bytes([page[a], page[a + 1], page[a + 2], page[a + 3]]) as i64
}

/// observed "ok" outcome, at the addresses the expected record names
fn obs_ok(page: &[u8], addrs: &[usize]) -> Value {
    let words: Vec<Value> = addrs.iter().map(|a| json!([a, word(page, *a)])).collect();
    json!({"o": "ok", "v": word(page, 65520), "pages": word(page, 65524), "words": words})
}

fn trap_kind(s: &str) -> String {
    for (pat, k) in [
        ("UnreachableCodeReached", "Unreachable"),
        ("IntegerDivisionByZero", "DivZero"),
        ("MemoryOutOfBounds", "MemOOB"),
        ("StackOverflow", "StackOverflow"),
        ("IntegerOverflow", "IntegerOverflow"),
        ("OutOfFuel", "OutOfFuel"),
    ] {
        if s.contains(pat) {
            return k.to_string();
        }
    }
    s.chars().take(60).collect()
}

fn addrs_of_key(run: &Value, key: &str) -> Vec<usize> {
    run[key]["words"].as_array().map(|ws| ws.iter().map(|w| w[0].as_u64().unwrap() as usize).collect()).unwrap_or_default()
}

fn run_original(code: &[u8], arg: i64, addrs: &[usize]) -> Value {
    let r = catch(|| -> Result<Value, String> {
        let engine = wasmi::Engine::default();
        let module = wasmi::Module::new(&engine, code).map_err(|e| format!("compile {:?}", e))?;
        let mut store = wasmi::Store::new(&engine, ());
        let linker = <wasmi::Linker<()>>::new(&engine);
        let instance = linker
            .instantiate(&mut store, &module)
            .map_err(|e| format!("instantiate {:?}", e))?
            .start(&mut store)
            .map_err(|e| format!("start {:?}", e))?;
        let f = instance.get_typed_func::<i64, i64>(&store, "Test_f").map_err(|e| format!("export {:?}", e))?;
        match f.call(&mut store, arg) {
            Ok(_) => {
                let mem = instance.get_memory(&store, "memory").ok_or("no memory")?;
                let data = mem.data(&store);
                Ok(obs_ok(&data[..65536], addrs))
            }
            Err(e) => Ok(json!({"o": "trap", "k": trap_kind(&format!("{:?}", e))})),
        }
    });
    match r {
        Ok(Ok(v)) => v,
        Ok(Err(s)) => json!({"o": "setup", "k": s}),
        Err(p) => json!({"o": "panic", "k": p.chars().take(120).collect::<String>()}),
    }
}

/// (outcome, cost, number of gas calls)
fn run_instrumented(module: &WasmiModule, arg: i64, budget: Option<u64>, addrs: &[usize]) -> (Value, u64, u64) {
    let rt = RecRuntime::new();
    rt.st().budget = budget;
    let r = catch(|| {
        let mut inst = module.instantiate().map_err(|e| format!("instantiate {:?}", e))?;
        let mut boxed = rt.boxed();
        Ok::<_, String>(inst.invoke_export("Test_f", vec![Buffer(arg as u64)], &mut boxed))
    });
    let out = match r {
        Err(p) => json!({"o": "panic", "k": p.chars().take(120).collect::<String>()}),
        Ok(Err(s)) => json!({"o": "setup", "k": s}),
        Ok(Ok(Ok(bytes))) => {
            if bytes.len() == 65536 {
                obs_ok(&bytes, addrs)
            } else {
                json!({"o": "badslice", "k": bytes.len()})
            }
        }
        Ok(Ok(Err(e))) => match &e {
            InvokeError::SelfError(WasmRuntimeError::FeeReserveError(_)) => json!({"o": "OutOfBudget"}),
            InvokeError::SelfError(WasmRuntimeError::ExecutionError(s)) => json!({"o": "trap", "k": trap_kind(s)}),
            other => json!({"o": "error", "k": format!("{:?}", other).chars().take(80).collect::<String>()}),
        },
    };
    let st = rt.st();
    (out, st.gas, st.gas_calls)
}

/// frame costs the stack limiter injected: (callee function index, cost) of every instrumented call
fn frame_costs(code: &[u8]) -> Vec<(u32, i32)> {
    use wasmparser::{Operator, Parser, Payload};
    let mut res = vec![];
    for payload in Parser::new(0).parse_all(code) {
        if let Ok(Payload::CodeSectionEntry(body)) = payload {
            let ops: Vec<Operator> = match body.get_operators_reader() {
                Ok(r) => r.into_iter().filter_map(|x| x.ok()).collect(),
                Err(_) => continue,
            };
            for i in 10..ops.len() {
                if let (Operator::GlobalGet { .. }, Operator::I32Const { value }, Operator::I32Add, Operator::GlobalSet { .. }, Operator::Call { function_index }) =
                    (&ops[i - 10], &ops[i - 9], &ops[i - 8], &ops[i - 7], &ops[i])
                {
                    if !res.contains(&(*function_index, *value)) {
                        res.push((*function_index, *value));
                    }
                }
            }
        }
    }
    res.sort();
    res
}

// ---------------------------------------------------------------------------------------------
pub fn run(mode: &str, args: &Args) {
    match mode {
        "replay" => replay(args),
        "wat" => {
            for c in read_lines() {
                println!("{}", program_wat(&c["P"]));
            }
        }
        _ => panic!("mode"),
    }
}

fn replay(args: &Args) {
    let cases = read_lines();
    let res = par_map(&cases, args.u64("threads", 4) as usize, |ci, c| {
        let mut lines: Vec<Value> = vec![];
        let mut ev_runs: Vec<Value> = vec![];
        let wat_text = program_wat(&c["P"]);
        let code = match wat::parse_str(&wat_text) {
            Ok(c) => c,
            Err(e) => {
                lines.push(json!({"mismatch": "render", "b": ci, "step": 0, "exp": "wat ok", "got": e.to_string()}));
                return (lines, json!(null), 0usize);
            }
        };
        // instrument with the repository's validator (the module must be accepted)
        let def = PackageDefinition::new_single_function_test_definition("Test", "f");
        let v = catch(|| ScryptoV1WasmValidator::new(ScryptoVmVersion::latest()).validate(&code, def.blueprints.values()));
        let instrumented = match v {
            Ok(Ok((code, _))) => code,
            other => {
                let got = match other {
                    Err(p) => format!("panic {}", p),
                    Ok(Err(e)) => format!("{:?}", e),
                    _ => unreachable!(),
                };
                lines.push(json!({"mismatch": "validate", "b": ci, "step": 0, "exp": "accepted", "got": got}));
                return (lines, json!(null), 0);
            }
        };
        let module = match WasmiModule::new(&instrumented) {
            Ok(m) => m,
            Err(e) => {
                lines.push(json!({"mismatch": "compile", "b": ci, "step": 0, "exp": "ok", "got": format!("{:?}", e)}));
                return (lines, json!(null), 0);
            }
        };
        let mut steps = 0;
        for (ri, run) in c["runs"].as_array().unwrap().iter().enumerate() {
            if run["x"].as_bool().unwrap() {
                continue;
            }
            steps += 1;
            let arg = run["arg"].as_i64().unwrap(); // i32 value, sign-extended into the i64 argument
            let a_exp = addrs_of_key(run, "exp");
            let a_orig = addrs_of_key(run, "expOrig");
            let orig = run_original(&code, arg, &a_orig);
            let (instr, cost, gas_calls) = run_instrumented(&module, arg, None, &a_exp);
            let (at_cost, cost2, _) = run_instrumented(&module, arg, Some(cost), &a_exp);
            let below = if cost > 0 { Some(run_instrumented(&module, arg, Some(cost - 1), &a_exp)) } else { None };
            let half = if cost > 1 { Some(run_instrumented(&module, arg, Some(cost / 2), &a_exp)) } else { None };
            if orig != run["expOrig"] {
                lines.push(json!({"mismatch": "original outcome", "b": ci, "step": ri, "exp": run["expOrig"], "got": orig}));
            }
            if instr != run["exp"] {
                lines.push(json!({"mismatch": "instrumented outcome", "b": ci, "step": ri, "exp": run["exp"], "got": instr}));
            }
            ev_runs.push(json!({"arg": arg, "exp": run["exp"], "expOrig": run["expOrig"], "path": run["path"],
                "orig": orig, "instr": instr, "cost": cost, "gasCalls": gas_calls,
                "atCost": at_cost, "atCostCost": cost2,
                "below": below.as_ref().map(|b| b.0.clone()), "belowCost": below.as_ref().map(|b| b.1),
                "half": half.as_ref().map(|b| b.0.clone()), "halfCost": half.as_ref().map(|b| b.1)}));
        }
        let fc: Vec<Value> = frame_costs(&instrumented).into_iter().map(|(f, c)| json!([f, c])).collect();
        (lines, json!({"a": "prog", "g": c["g"], "P": c["P"], "rec": c["P"].as_array().unwrap().len() == 1, "frameCosts": fc, "runs": ev_runs}), steps)
    });
    let mut out = Out::new();
    let mut trace = args.kv.get("trace").map(|p| std::io::BufWriter::new(std::fs::File::create(p).expect("trace file")));
    let mut steps = 0;
    for (lines, ev, st) in res {
        steps += st;
        for l in lines {
            out.mismatches += 1;
            out.emit(&l);
        }
        if let Some(t) = trace.as_mut() {
            if !ev.is_null() {
                serde_json::to_writer(&mut *t, &ev).unwrap();
                t.write_all(b"\n").unwrap();
            }
        }
    }
    if let Some(t) = trace.as_mut() {
        t.flush().unwrap();
    }
    out.done(cases.len(), steps);
}

//! A recording `WasmRuntime`: captures exactly the byte vectors / scalars the host side receives
//! from `WasmiModule`'s host-function shims, supplies buffers to write back, and accumulates the
//! WASM execution units charged by the injected metering (optionally with a budget).
use radix_engine::errors::InvokeError;
use radix_engine::system::system_modules::costing::FeeReserveError;
use radix_engine::vm::wasm::{WasmRuntime, WasmRuntimeError};
use radix_engine_interface::api::actor_api::EventFlags;
use radix_engine_interface::api::ActorRefHandle;
use radix_engine_interface::types::{Buffer, BufferId, SubstateHandle};
use std::collections::BTreeMap;

type R<T> = Result<T, InvokeError<WasmRuntimeError>>;

#[derive(Default)]
pub struct Call {
    pub name: &'static str,
    pub bufs: Vec<Vec<u8>>,
    pub nums: Vec<u64>,
}

#[derive(Default)]
pub struct RecState {
    pub calls: Vec<Call>,
    pub buffers: BTreeMap<BufferId, Vec<u8>>,
    pub next_id: BufferId,
    /// bytes handed out for every Buffer-returning host call
    pub reply: Vec<u8>,
    pub gas: u64,
    pub gas_calls: u64,
    pub budget: Option<u64>,
    /// amounts of the individual charges (for path reconstruction), capped
    pub charges: Vec<u32>,
}

/// handle on the shared recording state (the engine takes the runtime as Box<dyn WasmRuntime>;
/// the harness keeps a second handle to read the recording afterwards)
#[derive(Clone)]
pub struct RecRuntime(pub std::rc::Rc<std::cell::RefCell<RecState>>);

impl RecRuntime {
    pub fn new() -> Self {
        RecRuntime(std::rc::Rc::new(std::cell::RefCell::new(RecState { next_id: 1, ..Default::default() })))
    }
    pub fn boxed(&self) -> Box<dyn WasmRuntime> {
        Box::new(self.clone())
    }
    pub fn st(&self) -> std::cell::RefMut<'_, RecState> {
        self.0.borrow_mut()
    }
}

impl RecState {
    fn rec(&mut self, name: &'static str, bufs: Vec<Vec<u8>>, nums: Vec<u64>) {
        self.calls.push(Call { name, bufs, nums });
    }
    pub fn put(&mut self, data: Vec<u8>) -> Buffer {
        let id = self.next_id;
        self.next_id += 1;
        let len = data.len() as u32;
        self.buffers.insert(id, data);
        Buffer::new(id, len)
    }
    fn buf(&mut self) -> R<Buffer> {
        let d = self.reply.clone();
        Ok(self.put(d))
    }
}

impl WasmRuntime for RecRuntime {
    fn allocate_buffer(&mut self, buffer: Vec<u8>) -> R<Buffer> {
        Ok(self.st().put(buffer))
    }
    fn buffer_consume(&mut self, buffer_id: BufferId) -> R<Vec<u8>> {
        self.st().rec("buffer_consume", vec![], vec![buffer_id as u64]);
        self.st().buffers
            .remove(&buffer_id)
            .ok_or(InvokeError::SelfError(WasmRuntimeError::BufferNotFound(buffer_id)))
    }
    fn object_call(&mut self, receiver: Vec<u8>, ident: Vec<u8>, args: Vec<u8>) -> R<Buffer> {
        self.st().rec("object_call", vec![receiver, ident, args], vec![]);
        self.st().buf()
    }
    fn object_call_module(&mut self, receiver: Vec<u8>, module_id: u32, ident: Vec<u8>, args: Vec<u8>) -> R<Buffer> {
        self.st().rec("object_call_module", vec![receiver, ident, args], vec![module_id as u64]);
        self.st().buf()
    }
    fn object_call_direct(&mut self, receiver: Vec<u8>, ident: Vec<u8>, args: Vec<u8>) -> R<Buffer> {
        self.st().rec("object_call_direct", vec![receiver, ident, args], vec![]);
        self.st().buf()
    }
    fn blueprint_call(&mut self, package_address: Vec<u8>, blueprint_name: Vec<u8>, ident: Vec<u8>, args: Vec<u8>) -> R<Buffer> {
        self.st().rec("blueprint_call", vec![package_address, blueprint_name, ident, args], vec![]);
        self.st().buf()
    }
    fn object_new(&mut self, blueprint_name: Vec<u8>, object_states: Vec<u8>) -> R<Buffer> {
        self.st().rec("object_new", vec![blueprint_name, object_states], vec![]);
        self.st().buf()
    }
    fn address_allocate(&mut self, package_address: Vec<u8>, blueprint_name: Vec<u8>) -> R<Buffer> {
        self.st().rec("address_allocate", vec![package_address, blueprint_name], vec![]);
        self.st().buf()
    }
    fn address_get_reservation_address(&mut self, node_id: Vec<u8>) -> R<Buffer> {
        self.st().rec("address_get_reservation_address", vec![node_id], vec![]);
        self.st().buf()
    }
    fn globalize_object(&mut self, node_id: Vec<u8>, modules: Vec<u8>, address: Vec<u8>) -> R<Buffer> {
        self.st().rec("object_globalize", vec![node_id, modules, address], vec![]);
        self.st().buf()
    }
    fn key_value_store_new(&mut self, schema: Vec<u8>) -> R<Buffer> {
        self.st().rec("kv_store_new", vec![schema], vec![]);
        self.st().buf()
    }
    fn key_value_store_open_entry(&mut self, node_id: Vec<u8>, key: Vec<u8>, flags: u32) -> R<SubstateHandle> {
        self.st().rec("kv_store_open_entry", vec![node_id, key], vec![flags as u64]);
        Ok(7)
    }
    fn key_value_entry_get(&mut self, handle: u32) -> R<Buffer> {
        self.st().rec("kv_entry_read", vec![], vec![handle as u64]);
        self.st().buf()
    }
    fn key_value_entry_set(&mut self, handle: u32, data: Vec<u8>) -> R<()> {
        self.st().rec("kv_entry_write", vec![data], vec![handle as u64]);
        Ok(())
    }
    fn key_value_entry_remove(&mut self, handle: u32) -> R<Buffer> {
        self.st().rec("kv_entry_remove", vec![], vec![handle as u64]);
        self.st().buf()
    }
    fn key_value_entry_close(&mut self, handle: u32) -> R<()> {
        self.st().rec("kv_entry_close", vec![], vec![handle as u64]);
        Ok(())
    }
    fn key_value_store_remove_entry(&mut self, node_id: Vec<u8>, key: Vec<u8>) -> R<Buffer> {
        self.st().rec("kv_store_remove_entry", vec![node_id, key], vec![]);
        self.st().buf()
    }
    fn instance_of(&mut self, object_id: Vec<u8>, package_address: Vec<u8>, blueprint_name: Vec<u8>) -> R<u32> {
        self.st().rec("object_instance_of", vec![object_id, package_address, blueprint_name], vec![]);
        Ok(1)
    }
    fn blueprint_id(&mut self, object_id: Vec<u8>) -> R<Buffer> {
        self.st().rec("object_get_blueprint_id", vec![object_id], vec![]);
        self.st().buf()
    }
    fn get_outer_object(&mut self, component_id: Vec<u8>) -> R<Buffer> {
        self.st().rec("object_get_outer_object", vec![component_id], vec![]);
        self.st().buf()
    }
    fn actor_open_field(&mut self, object_handle: u32, field: u8, flags: u32) -> R<SubstateHandle> {
        self.st().rec("actor_open_field", vec![], vec![object_handle as u64, field as u64, flags as u64]);
        Ok(7)
    }
    fn field_entry_read(&mut self, handle: SubstateHandle) -> R<Buffer> {
        self.st().rec("field_entry_read", vec![], vec![handle as u64]);
        self.st().buf()
    }
    fn field_entry_write(&mut self, handle: SubstateHandle, data: Vec<u8>) -> R<()> {
        self.st().rec("field_entry_write", vec![data], vec![handle as u64]);
        Ok(())
    }
    fn field_entry_close(&mut self, handle: SubstateHandle) -> R<()> {
        self.st().rec("field_entry_close", vec![], vec![handle as u64]);
        Ok(())
    }
    fn actor_get_node_id(&mut self, actor_ref_handle: ActorRefHandle) -> R<Buffer> {
        self.st().rec("actor_get_object_id", vec![], vec![actor_ref_handle as u64]);
        self.st().buf()
    }
    fn actor_get_package_address(&mut self) -> R<Buffer> {
        self.st().rec("actor_get_package_address", vec![], vec![]);
        self.st().buf()
    }
    fn actor_get_blueprint_name(&mut self) -> R<Buffer> {
        self.st().rec("actor_get_blueprint_name", vec![], vec![]);
        self.st().buf()
    }
    fn consume_wasm_execution_units(&mut self, n: u32) -> R<()> {
        let mut s = self.st();
        s.gas_calls += 1;
        if s.charges.len() < 4096 {
            s.charges.push(n);
        }
        let new = s.gas + n as u64;
        if let Some(b) = s.budget {
            if new > b {
                return Err(InvokeError::SelfError(WasmRuntimeError::FeeReserveError(FeeReserveError::LimitExceeded {
                    limit: b.min(u32::MAX as u64) as u32,
                    committed: s.gas.min(u32::MAX as u64) as u32,
                    new: n,
                })));
            }
        }
        s.gas = new;
        Ok(())
    }
    fn costing_get_execution_cost_unit_limit(&mut self) -> R<u32> {
        Ok(0)
    }
    fn costing_get_execution_cost_unit_price(&mut self) -> R<Buffer> {
        self.st().buf()
    }
    fn costing_get_finalization_cost_unit_limit(&mut self) -> R<u32> {
        Ok(0)
    }
    fn costing_get_finalization_cost_unit_price(&mut self) -> R<Buffer> {
        self.st().buf()
    }
    fn costing_get_usd_price(&mut self) -> R<Buffer> {
        self.st().buf()
    }
    fn costing_get_tip_percentage(&mut self) -> R<u32> {
        Ok(0)
    }
    fn costing_get_fee_balance(&mut self) -> R<Buffer> {
        self.st().buf()
    }
    fn actor_emit_event(&mut self, event_name: Vec<u8>, event_payload: Vec<u8>, event_flags: EventFlags) -> R<()> {
        self.st().rec("actor_emit_event", vec![event_name, event_payload], vec![event_flags.bits() as u64]);
        Ok(())
    }
    fn sys_log(&mut self, level: Vec<u8>, message: Vec<u8>) -> R<()> {
        self.st().rec("sys_log", vec![level, message], vec![]);
        Ok(())
    }
    fn sys_bech32_encode_address(&mut self, address: Vec<u8>) -> R<Buffer> {
        self.st().rec("sys_bech32_encode_address", vec![address], vec![]);
        self.st().buf()
    }
    fn sys_get_transaction_hash(&mut self) -> R<Buffer> {
        self.st().buf()
    }
    fn sys_generate_ruid(&mut self) -> R<Buffer> {
        self.st().buf()
    }
    fn sys_panic(&mut self, message: Vec<u8>) -> R<()> {
        self.st().rec("sys_panic", vec![message], vec![]);
        Ok(())
    }
    fn crypto_utils_bls12381_v1_verify(&mut self, message: Vec<u8>, public_key: Vec<u8>, signature: Vec<u8>) -> R<u32> {
        self.st().rec("crypto_utils_bls12381_v1_verify", vec![message, public_key, signature], vec![]);
        Ok(1)
    }
    fn crypto_utils_bls12381_v1_aggregate_verify(&mut self, pub_keys_and_msgs: Vec<u8>, signatures: Vec<u8>) -> R<u32> {
        self.st().rec("crypto_utils_bls12381_v1_aggregate_verify", vec![pub_keys_and_msgs, signatures], vec![]);
        Ok(1)
    }
    fn crypto_utils_bls12381_v1_fast_aggregate_verify(&mut self, message: Vec<u8>, public_keys: Vec<u8>, signatures: Vec<u8>) -> R<u32> {
        self.st().rec("crypto_utils_bls12381_v1_fast_aggregate_verify", vec![message, public_keys, signatures], vec![]);
        Ok(1)
    }
    fn crypto_utils_bls12381_g2_signature_aggregate(&mut self, signatures: Vec<u8>) -> R<Buffer> {
        self.st().rec("crypto_utils_bls12381_g2_signature_aggregate", vec![signatures], vec![]);
        self.st().buf()
    }
    fn crypto_utils_keccak256_hash(&mut self, data: Vec<u8>) -> R<Buffer> {
        self.st().rec("crypto_utils_keccak256_hash", vec![data], vec![]);
        self.st().buf()
    }
    fn crypto_utils_blake2b_256_hash(&mut self, data: Vec<u8>) -> R<Buffer> {
        self.st().rec("crypto_utils_blake2b_256_hash", vec![data], vec![]);
        self.st().buf()
    }
    fn crypto_utils_ed25519_verify(&mut self, message: Vec<u8>, public_key: Vec<u8>, signature: Vec<u8>) -> R<u32> {
        self.st().rec("crypto_utils_ed25519_verify", vec![message, public_key, signature], vec![]);
        Ok(1)
    }
    fn crypto_utils_secp256k1_ecdsa_verify(&mut self, message: Vec<u8>, public_key: Vec<u8>, signature: Vec<u8>) -> R<u32> {
        self.st().rec("crypto_utils_secp256k1_ecdsa_verify", vec![message, public_key, signature], vec![]);
        Ok(1)
    }
    fn crypto_utils_secp256k1_ecdsa_verify_and_key_recover(&mut self, message: Vec<u8>, signature: Vec<u8>) -> R<Buffer> {
        self.st().rec("crypto_utils_secp256k1_ecdsa_verify_and_key_recover", vec![message, signature], vec![]);
        self.st().buf()
    }
    fn crypto_utils_secp256k1_ecdsa_verify_and_key_recover_uncompressed(&mut self, message: Vec<u8>, signature: Vec<u8>) -> R<Buffer> {
        self.st().rec("crypto_utils_secp256k1_ecdsa_verify_and_key_recover_uncompressed", vec![message, signature], vec![]);
        self.st().buf()
    }
}

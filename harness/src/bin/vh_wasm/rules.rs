//! C45 — binding of spec/WasmRules to ScryptoV1WasmValidator::validate.
//!
//! The harness only *drives* and *projects*:
//!  * `render`  : generative descriptor (chosen by TLC) -> WAT text -> bytes (wat crate)
//!  * `sdesc`   : any wasm binary -> structural descriptor (wasmparser 0.224, independent of the
//!                wasmparser 0.107 used inside the code under test)
//!  * `validate`: calls the real validator under catch_unwind, returns verdict / error class / output
//! Expected verdicts, expected structural descriptors of the rendered input and of the
//! instrumented output are computed by TLA+ (GenWasmRules) and only compared for equality here;
//! recorded outcomes of the totality runs are decided by TraceWasmRules.
use radix_engine::vm::wasm::{PrepareError, ScryptoV1WasmValidator};
use radix_engine::vm::ScryptoVmVersion;
use radix_engine_interface::blueprints::package::PackageDefinition;
use rand::prelude::*;
use serde_json::{json, Value};
use std::collections::BTreeSet;
use vh::util::*;
use vh::Args;

// ---------------------------------------------------------------------------------------------
// generative descriptor -> WAT

fn s<'a>(v: &'a Value, k: &str) -> &'a str {
    v[k].as_str().unwrap_or_else(|| panic!("descriptor field {} not a string", k))
}
fn n(v: &Value, k: &str) -> i64 {
    v[k].as_i64().unwrap_or_else(|| panic!("descriptor field {} not an integer", k))
}
fn b(v: &Value, k: &str) -> bool {
    v[k].as_bool().unwrap_or_else(|| panic!("descriptor field {} not a bool", k))
}
fn tys(v: &Value) -> String {
    v.as_array().unwrap().iter().map(|x| x.as_str().unwrap().to_string()).collect::<Vec<_>>().join(" ")
}

pub fn render(d: &Value) -> String {
    let mut w = String::with_capacity(4096);
    w.push_str("(module\n");
    // imports
    for (i, im) in d["imps"].as_array().unwrap().iter().enumerate() {
        let (m, nm) = (s(im, "m"), s(im, "n"));
        match s(im, "kind") {
            "func" => {
                let p = tys(&im["p"]);
                let r = tys(&im["r"]);
                w.push_str(&format!("  (import \"{}\" \"{}\" (func $imp{}", m, nm, i));
                if !p.is_empty() {
                    w.push_str(&format!(" (param {})", p));
                }
                if !r.is_empty() {
                    w.push_str(&format!(" (result {})", r));
                }
                w.push_str("))\n");
            }
            "global" => w.push_str(&format!("  (import \"{}\" \"{}\" (global i32))\n", m, nm)),
            "memory" => w.push_str(&format!("  (import \"{}\" \"{}\" (memory 1))\n", m, nm)),
            "table" => w.push_str(&format!("  (import \"{}\" \"{}\" (table 1 funcref))\n", m, nm)),
            k => panic!("import kind {}", k),
        }
    }
    let prop = s(d, "prop");
    let fl = s(d, "fl");
    let mem_defs = n(d, "memDefs");
    let has_imp_mem = d["imps"].as_array().unwrap().iter().any(|im| s(im, "kind") == "memory");
    let has_mem = mem_defs > 0 || has_imp_mem;
    for _ in 0..mem_defs {
        let idx = if prop == "memory64" { "i64 " } else { "" };
        if n(d, "memMax") >= 0 {
            w.push_str(&format!("  (memory {}{} {})\n", idx, n(d, "memInit"), n(d, "memMax")));
        } else {
            w.push_str(&format!("  (memory {}{})\n", idx, n(d, "memInit")));
        }
    }
    let tab_defs = n(d, "tabDefs");
    for _ in 0..tab_defs {
        w.push_str(&format!("  (table {} funcref)\n", n(d, "tabInit")));
    }
    let globals = n(d, "globals");
    for _ in 0..globals {
        w.push_str("  (global i32 (i32.const 0))\n");
    }
    if fl == "global" {
        w.push_str("  (global f32 (f32.const 0))\n");
    }
    match prop {
        "mutglobal" => w.push_str("  (global $mg (export \"mg\") (mut i32) (i32.const 0))\n"),
        "extconst" => w.push_str("  (global $ec i32 (i32.add (i32.const 1) (i32.const 2)))\n"),
        "exceptions" => w.push_str("  (tag $tg)\n"),
        _ => {}
    }
    // local functions: Test_f, fillers, carrier at position `at`
    let funcs = n(d, "funcs");
    let at = n(d, "at");
    let bp = s(d, "bp");
    let test_pos = if at == 1 { 2 } else { 1 };
    for i in 1..=funcs {
        if i == at {
            w.push_str("  (func $carrier");
            // parameters: `params` x i32 then `params64` x i64
            let (params, params64) = (n(d, "params"), n(d, "params64"));
            if params + params64 > 0 {
                w.push_str(" (param");
                for _ in 0..params {
                    w.push_str(" i32");
                }
                for _ in 0..params64 {
                    w.push_str(" i64");
                }
                w.push(')');
            }
            // locals in up to three groups of alternating value types: i32 x locals, i64 x locals64, i32 x locals3
            for (key, ty) in [("locals", "i32"), ("locals64", "i64"), ("locals3", "i32")] {
                let cnt = n(d, key);
                if cnt > 0 {
                    w.push_str(" (local");
                    for _ in 0..cnt {
                        w.push(' ');
                        w.push_str(ty);
                    }
                    w.push(')');
                }
            }
            w.push('\n');
            let brt = n(d, "brt");
            if brt >= 0 {
                w.push_str("    (block $b (br_table");
                for _ in 0..=brt {
                    w.push_str(" $b"); // brt targets + the default
                }
                w.push_str(" (i32.const 0)))\n");
            }
            let brt2 = n(d, "brt2");
            if brt2 >= 0 {
                w.push_str("    (block $c (br_table");
                for _ in 0..=brt2 {
                    w.push_str(" $c");
                }
                w.push_str(" (i32.const 0)))\n");
            }
            w.push_str("    (drop (i32.const 1)))\n");
        } else if i == test_pos {
            if bp == "badsig" {
                w.push_str("  (func $Test_f (param i32) (result i64) (i64.const 0))\n");
            } else {
                w.push_str("  (func $Test_f (param i64) (result i64) (local.get 0))\n");
            }
        } else {
            w.push_str("  (func (drop (i32.const 0)))\n");
        }
    }
    match fl {
        "param" => w.push_str("  (func $flt (param f32) (drop (i32.const 0)))\n"),
        "result" => w.push_str("  (func $flt (result f32) (f32.const 0))\n"),
        "local" => w.push_str("  (func $flt (local f32) (drop (i32.const 0)))\n"),
        "instr" => w.push_str("  (func $flt (drop (f32.const 1)))\n"),
        _ => {}
    }
    match prop {
        "signext" => w.push_str("  (func $prop (param i32) (result i32) (i32.extend8_s (local.get 0)))\n"),
        "simd" => w.push_str("  (func $prop (result v128) (v128.const i32x4 0 0 0 0))\n"),
        "bulk" => w.push_str("  (func $prop (memory.fill (i32.const 0) (i32.const 0) (i32.const 0)))\n"),
        "reftypes" => w.push_str("  (func $prop (param externref) (drop (i32.const 0)))\n"),
        "multivalue" => w.push_str("  (func $prop (result i32 i32) (i32.const 0) (i32.const 0))\n"),
        "satfloat" => w.push_str("  (func $prop (param f32) (result i32) (i32.trunc_sat_f32_s (local.get 0)))\n"),
        "tailcall" => w.push_str("  (func $prop (return_call $prop))\n"),
        "threads" => w.push_str("  (func $prop (atomic.fence))\n"),
        "exceptions" => w.push_str("  (func $prop (throw $tg))\n"),
        _ => {}
    }
    if b(d, "start") {
        w.push_str("  (func $st (drop (i32.const 0)))\n  (start $st)\n");
    }
    // exports
    if has_mem {
        match s(d, "memExp") {
            "memory" => w.push_str("  (export \"memory\" (memory 0))\n"),
            "other" => w.push_str("  (export \"mem\" (memory 0))\n"),
            "func" => w.push_str("  (export \"memory\" (func $carrier))\n"),
            _ => {}
        }
    } else if s(d, "memExp") == "func" {
        w.push_str("  (export \"memory\" (func $carrier))\n");
    }
    match bp {
        "ok" | "norequire" | "badsig" => w.push_str("  (export \"Test_f\" (func $Test_f))\n"),
        "notfunc" => {
            if has_mem {
                w.push_str("  (export \"Test_f\" (memory 0))\n")
            }
        }
        _ => {}
    }
    if b(&d["xname"], "on") {
        w.push_str(&format!("  (export \"{}\" (func $carrier))\n", s(&d["xname"], "s")));
    }
    if b(d, "dupExp") {
        w.push_str("  (export \"Test_f\" (func $carrier))\n");
    }
    // segments
    if n(d, "dataOff") >= 0 && has_mem {
        let len = n(d, "dataLen");
        w.push_str(&format!("  (data (i32.const {}) \"{}\")\n", n(d, "dataOff"), "a".repeat(len as usize)));
    }
    if n(d, "elemOff") >= 0 && tab_defs > 0 {
        w.push_str(&format!("  (elem (i32.const {}) $carrier)\n", n(d, "elemOff")));
    }
    w.push_str(")\n");
    w
}

// ---------------------------------------------------------------------------------------------
// wasm binary -> structural descriptor (projection; no rule is decided here)

const CLAMP: u64 = 1_000_000_000;
fn clamp(x: u64) -> i64 {
    x.min(CLAMP) as i64
}
fn vt(t: &wasmparser::ValType) -> String {
    use wasmparser::ValType::*;
    match t {
        I32 => "i32".into(),
        I64 => "i64".into(),
        F32 => "f32".into(),
        F64 => "f64".into(),
        V128 => "v128".into(),
        Ref(r) => {
            if r.is_func_ref() {
                "funcref".into()
            } else if r.is_extern_ref() {
                "externref".into()
            } else {
                "ref".into()
            }
        }
    }
}
fn is_float(t: &wasmparser::ValType) -> bool {
    matches!(t, wasmparser::ValType::F32 | wasmparser::ValType::F64)
}
fn op_name(op: &wasmparser::Operator) -> String {
    let d = format!("{:?}", op);
    d.split(|c: char| !c.is_alphanumeric() && c != '_').next().unwrap_or("").to_string()
}

/// `orig`: number of local functions of the *input* module (only for projecting an instrumented
/// output: the functions beyond are the thunks appended by the stack limiter).
pub fn sdesc(code: &[u8], orig: Option<u64>) -> Result<Value, String> {
    use wasmparser::*;
    let mut types: Vec<FuncType> = vec![];
    let mut imports: Vec<Value> = vec![];
    let mut func_types: Vec<u32> = vec![]; // function index space -> type index
    let mut nimp_funcs = 0u64;
    let mut mems: Vec<Value> = vec![];
    let mut tabs: Vec<Value> = vec![];
    let mut nglobals = 0u64;
    let mut last_global = json!([]);
    let mut floats = false;
    let mut start = false;
    let mut exports: Vec<(String, String, u32)> = vec![];
    let mut elem_funcs: BTreeSet<u32> = BTreeSet::new();
    let mut max_locals = 0u64;
    let mut max_brt: i64 = -1;
    let mut ncode = 0u64;
    let mut local_calls = 0u64;
    let mut gas_idx: i64 = -1;
    let mut bodies: Vec<FunctionBody> = vec![];
    let mut data_segs = 0u64;
    for payload in Parser::new(0).parse_all(code) {
        let payload = payload.map_err(|e| e.to_string())?;
        match payload {
            Payload::TypeSection(r) => {
                for t in r.into_iter_err_on_gc_types() {
                    let t = t.map_err(|e| e.to_string())?;
                    if t.params().iter().chain(t.results().iter()).any(is_float) {
                        floats = true;
                    }
                    types.push(t);
                }
            }
            Payload::ImportSection(r) => {
                for im in r {
                    let im = im.map_err(|e| e.to_string())?;
                    let (kind, p, rs) = match im.ty {
                        TypeRef::Func(ti) => {
                            let t = types.get(ti as usize).ok_or("bad type index")?;
                            if im.module == "env" && im.name == "gas" {
                                gas_idx = nimp_funcs as i64;
                            }
                            func_types.push(ti);
                            nimp_funcs += 1;
                            ("func", t.params().iter().map(vt).collect::<Vec<_>>(), t.results().iter().map(vt).collect::<Vec<_>>())
                        }
                        TypeRef::Global(g) => {
                            if is_float(&g.content_type) {
                                floats = true;
                            }
                            ("global", vec![], vec![])
                        }
                        TypeRef::Memory(_) => ("memory", vec![], vec![]),
                        TypeRef::Table(_) => ("table", vec![], vec![]),
                        TypeRef::Tag(_) => ("tag", vec![], vec![]),
                    };
                    imports.push(json!({"m": im.module, "n": im.name, "kind": kind, "p": p, "r": rs}));
                }
            }
            Payload::FunctionSection(r) => {
                for f in r {
                    func_types.push(f.map_err(|e| e.to_string())?);
                }
            }
            Payload::TableSection(r) => {
                for t in r {
                    let t = t.map_err(|e| e.to_string())?;
                    tabs.push(json!([clamp(t.ty.initial), t.ty.maximum.map(clamp).unwrap_or(-1)]));
                }
            }
            Payload::MemorySection(r) => {
                for m in r {
                    let m = m.map_err(|e| e.to_string())?;
                    mems.push(json!([clamp(m.initial), m.maximum.map(clamp).unwrap_or(-1)]));
                }
            }
            Payload::GlobalSection(r) => {
                for g in r {
                    let g = g.map_err(|e| e.to_string())?;
                    if is_float(&g.ty.content_type) {
                        floats = true;
                    }
                    let mut init = json!("other");
                    let mut ops = g.init_expr.get_operators_reader();
                    if let Ok(Operator::I32Const { value }) = ops.read() {
                        if matches!(ops.read(), Ok(Operator::End)) {
                            init = json!(value);
                        }
                    }
                    last_global = json!([vt(&g.ty.content_type), g.ty.mutable, init]);
                    nglobals += 1;
                }
            }
            Payload::ExportSection(r) => {
                for e in r {
                    let e = e.map_err(|e| e.to_string())?;
                    let k = match e.kind {
                        ExternalKind::Func => "func",
                        ExternalKind::Table => "table",
                        ExternalKind::Memory => "memory",
                        ExternalKind::Global => "global",
                        ExternalKind::Tag => "tag",
                    };
                    exports.push((e.name.to_string(), k.to_string(), e.index));
                }
            }
            Payload::StartSection { .. } => start = true,
            Payload::ElementSection(r) => {
                for e in r {
                    let e = e.map_err(|e| e.to_string())?;
                    if let ElementItems::Functions(fs) = e.items {
                        for f in fs {
                            elem_funcs.insert(f.map_err(|e| e.to_string())?);
                        }
                    }
                }
            }
            Payload::DataSection(r) => data_segs += r.count() as u64,
            Payload::CodeSectionEntry(body) => {
                ncode += 1;
                bodies.push(body);
            }
            _ => {}
        }
    }
    let nfuncs = func_types.len() as u64 - nimp_funcs;
    let mut max_params = 0u64;
    for ti in &func_types[nimp_funcs as usize..] {
        let t = types.get(*ti as usize).ok_or("bad type index")?;
        max_params = max_params.max(t.params().len() as u64);
    }
    // bodies
    let orig_n = orig.unwrap_or(nfuncs);
    let mut metered = 0u64; // original functions whose body starts with `i64.const c>0; call gas`
    let mut unmetered_ops: BTreeSet<String> = BTreeSet::new();
    let mut stack_checks = 0u64;
    let mut stack_limits: BTreeSet<i64> = BTreeSet::new();
    let mut stack_globals: BTreeSet<i64> = BTreeSet::new();
    let mut gas_calls = 0u64;
    for (fi, body) in bodies.iter().enumerate() {
        let mut lc = 0u64;
        for l in body.get_locals_reader().map_err(|e| e.to_string())? {
            let (c, t) = l.map_err(|e| e.to_string())?;
            if is_float(&t) {
                floats = true;
            }
            lc = lc.saturating_add(c as u64);
        }
        max_locals = max_locals.max(lc);
        let ops: Vec<Operator> = body
            .get_operators_reader()
            .map_err(|e| e.to_string())?
            .into_iter()
            .collect::<Result<Vec<_>, _>>()
            .map_err(|e| e.to_string())?;
        let head_metered = gas_idx >= 0
            && ops.len() >= 2
            && matches!(ops[0], Operator::I64Const { value } if value > 0)
            && matches!(ops[1], Operator::Call { function_index } if function_index as i64 == gas_idx);
        if (fi as u64) < orig_n {
            if head_metered {
                metered += 1;
            } else if orig.is_some() {
                for op in &ops {
                    unmetered_ops.insert(op_name(op));
                }
            }
        }
        for (i, op) in ops.iter().enumerate() {
            match op {
                Operator::BrTable { targets } => max_brt = max_brt.max(targets.len() as i64),
                Operator::Call { function_index } => {
                    if *function_index as i64 == gas_idx {
                        gas_calls += 1;
                    } else if *function_index as u64 >= nimp_funcs {
                        local_calls += 1;
                    }
                    // stack limiter preamble: global.get g; i32.const L; i32.gt_u; if; unreachable; end; call
                    if i >= 6 {
                        if let (
                            Operator::GlobalGet { global_index },
                            Operator::I32Const { value },
                            Operator::I32GtU,
                            Operator::If { .. },
                            Operator::Unreachable,
                            Operator::End,
                        ) = (&ops[i - 6], &ops[i - 5], &ops[i - 4], &ops[i - 3], &ops[i - 2], &ops[i - 1])
                        {
                            stack_checks += 1;
                            stack_limits.insert(*value as i64);
                            stack_globals.insert(*global_index as i64);
                        }
                    }
                }
                _ => {}
            }
            if !floats {
                let nm = op_name(op);
                if nm.contains("F32") || nm.contains("F64") {
                    floats = true;
                }
            }
        }
    }
    if ncode != nfuncs {
        return Err("code/function section count mismatch".into());
    }
    let mem_exp = exports.iter().filter(|e| e.1 == "memory" && e.0 == "memory").count();
    let mut entry: BTreeSet<u32> = exports.iter().filter(|e| e.1 == "func").map(|e| e.2).collect();
    entry.extend(elem_funcs.iter().cloned());
    let entry_local = entry.iter().filter(|i| **i as u64 >= nimp_funcs).count();
    // smallest index among the exported LOCAL functions (imports may be re-exported; they get no thunk)
    let min_exp_func = exports.iter().filter(|e| e.1 == "func" && e.2 as u64 >= nimp_funcs).map(|e| e.2 as i64).min().unwrap_or(-1);
    let mut exp_sorted: Vec<Value> = exports.iter().map(|e| json!([e.0, e.1])).collect();
    exp_sorted.sort_by_key(|v| v.to_string());
    // signature of every exported function (for the blueprint-export rule)
    let mut exp_sigs: Vec<Value> = vec![];
    for e in exports.iter().filter(|e| e.1 == "func") {
        if let Some(ti) = func_types.get(e.2 as usize) {
            if let Some(t) = types.get(*ti as usize) {
                exp_sigs.push(json!([e.0, t.params().iter().map(vt).collect::<Vec<_>>(), t.results().iter().map(vt).collect::<Vec<_>>()]));
            }
        }
    }
    exp_sigs.sort_by_key(|v| v.to_string());
    Ok(json!({
        "floats": floats, "start": start, "mems": mems, "tabs": tabs, "imports": imports,
        "memExp": mem_exp, "nfuncs": nfuncs, "maxParams": max_params, "maxLocals": max_locals,
        "nglobals": nglobals, "maxBrt": max_brt, "exports": exp_sorted, "expSigs": exp_sigs,
        "localCalls": local_calls, "entryFuncs": entry_local, "minExpFunc": min_exp_func,
        "lastGlobal": last_global, "dataSegs": data_segs,
        "nimpFuncs": nimp_funcs, "gasIdx": gas_idx, "metered": metered,
        "unmeteredOps": unmetered_ops.into_iter().collect::<Vec<_>>(),
        "stackChecks": stack_checks,
        "stackLimits": stack_limits.into_iter().collect::<Vec<_>>(),
        "stackGlobals": stack_globals.into_iter().collect::<Vec<_>>(),
        "gasCalls": gas_calls,
    }))
}

// ---------------------------------------------------------------------------------------------
// the real validator

fn version(v: i64) -> ScryptoVmVersion {
    ScryptoVmVersion::try_from(v as u64).expect("version")
}

fn err_class(e: &PrepareError) -> String {
    use radix_engine::vm::wasm::{InvalidImport, InvalidMemory, InvalidTable};
    match e {
        PrepareError::InvalidImport(i) => match i {
            InvalidImport::ImportNotAllowed(_) => "ImportNotAllowed".into(),
            InvalidImport::ProtocolVersionMismatch { .. } => "ProtocolVersionMismatch".into(),
            InvalidImport::InvalidFunctionType(_) => "InvalidFunctionType".into(),
        },
        PrepareError::InvalidMemory(m) => match m {
            InvalidMemory::MissingMemorySection => "MissingMemorySection".into(),
            InvalidMemory::NoMemoryDefinition => "NoMemoryDefinition".into(),
            InvalidMemory::TooManyMemoryDefinition => "TooManyMemoryDefinition".into(),
            InvalidMemory::MemorySizeLimitExceeded => "MemorySizeLimitExceeded".into(),
            InvalidMemory::MemoryNotExported => "MemoryNotExported".into(),
        },
        PrepareError::InvalidTable(t) => match t {
            InvalidTable::MoreThanOneTable => "MoreThanOneTable".into(),
            InvalidTable::InitialTableSizeLimitExceeded => "InitialTableSizeLimitExceeded".into(),
        },
        other => {
            let d = format!("{:?}", other);
            d.split(|c: char| !c.is_alphanumeric()).next().unwrap_or("").to_string()
        }
    }
}

/// (verdict, class, output bytes): verdict in {"ok","err","panic"}
pub fn validate(code: &[u8], v: i64, require_test_f: bool) -> (String, String, Option<Vec<u8>>, Vec<String>) {
    let def = PackageDefinition::new_single_function_test_definition("Test", "f");
    let none = PackageDefinition::default();
    let r = catch(|| {
        let validator = ScryptoV1WasmValidator::new(version(v));
        if require_test_f {
            validator.validate(code, def.blueprints.values())
        } else {
            validator.validate(code, none.blueprints.values())
        }
    });
    match r {
        Err(msg) => ("panic".into(), msg.chars().take(120).collect(), None, vec![]),
        Ok(Err(e)) => ("err".into(), err_class(&e), None, vec![]),
        Ok(Ok((out, exps))) => ("ok".into(), "ok".into(), Some(out), exps),
    }
}

// ---------------------------------------------------------------------------------------------
pub fn run(mode: &str, args: &Args) {
    match mode {
        "replay" => replay(args),
        "fuzz" => fuzz(args),
        "blobs" => blobs(args),
        "render" => {
            for d in read_lines() {
                println!("{}", render(&d["d"]));
            }
        }
        _ => panic!("mode"),
    }
}

/// compare two structural descriptors on the fields the specification gives
fn diff_fields(exp: &Value, got: &Value) -> Vec<String> {
    let mut res = vec![];
    // order of these lists carries no meaning: compared as multisets
    let norm = |k: &str, v: &Value| -> Value {
        if ["exports", "expSigs", "funcExports"].contains(&k) {
            let mut a = v.as_array().cloned().unwrap_or_default();
            a.sort_by_key(|x| x.to_string());
            Value::Array(a)
        } else {
            v.clone()
        }
    };
    for (k, v) in exp.as_object().unwrap() {
        if norm(k, &got[k]) != norm(k, v) {
            res.push(k.clone());
        }
    }
    res
}

/// runs `f(i, item)` over all items on `threads` worker threads, results in input order
pub fn par_map<T: Sync, R: Send>(items: &[T], threads: usize, f: impl Fn(usize, &T) -> R + Sync) -> Vec<R> {
    let next = std::sync::atomic::AtomicUsize::new(0);
    let mut slots: Vec<Option<R>> = (0..items.len()).map(|_| None).collect();
    let results = std::sync::Mutex::new(&mut slots);
    std::thread::scope(|sc| {
        for _ in 0..threads.max(1) {
            sc.spawn(|| loop {
                let i = next.fetch_add(1, std::sync::atomic::Ordering::SeqCst);
                if i >= items.len() {
                    break;
                }
                let r = f(i, &items[i]);
                results.lock().unwrap()[i] = Some(r);
            });
        }
    });
    slots.into_iter().map(|x| x.expect("worker result")).collect()
}

/// one case -> (lines to print, steps)
fn replay_case(ci: usize, c: &Value) -> (Vec<Value>, usize) {
    let lines = std::cell::RefCell::new(vec![]);
    let mm = |step: usize, what: &str, exp: Value, got: Value| {
        lines.borrow_mut().push(json!({"mismatch": what, "b": ci, "step": step, "exp": exp, "got": got}));
    };
    let wat_text = render(&c["d"]);
    let code = match wat::parse_str(&wat_text) {
        Ok(c) => c,
        Err(e) => {
            mm(0, "render", json!("wat ok"), json!(e.to_string().chars().take(300).collect::<String>()));
            return (lines.into_inner(), 1);
        }
    };
    // the rendered module must be the module the specification talks about
    match sdesc(&code, None) {
        Ok(sd) => {
            let df = diff_fields(&c["s"], &sd);
            if !df.is_empty() {
                let f = &df[0];
                mm(0, "render", json!({f.as_str(): c["s"][f]}), json!({f.as_str(): sd[f]}));
                return (lines.into_inner(), 1);
            }
        }
        Err(e) => {
            mm(0, "render", json!("parsable"), json!(e));
            return (lines.into_inner(), 1);
        }
    }
    let v = c["v"].as_i64().unwrap();
    let (verdict, class, output, fexp) = validate(&code, v, c["d"]["bp"] != "norequire");
    let exp_verdict = if c["exp"] == "ok" { "ok" } else { "err" };
    if verdict != exp_verdict {
        mm(1, "verdict", c["exp"].clone(), json!({"verdict": verdict, "class": class}));
        return (lines.into_inner(), 1);
    }
    if verdict == "err" && c["exp"] != json!(class) {
        // informational (the statement does not fix error classes): reported separately
        lines.borrow_mut().push(json!({"classdiff": ci, "exp": c["exp"], "got": class}));
    }
    let mut steps = 1;
    if let Some(o) = output {
        steps += 1;
        match sdesc(&o, Some(c["s"]["nfuncs"].as_u64().unwrap())) {
            Ok(mut od) => {
                let mut fe = fexp.clone();
                fe.sort();
                od["funcExports"] = json!(fe);
                for f in diff_fields(&c["out"], &od) {
                    mm(2, &format!("output.{}", f), c["out"][&f].clone(), od[&f].clone());
                }
            }
            Err(e) => mm(2, "output", json!("parsable"), json!(e)),
        }
    }
    (lines.into_inner(), steps)
}

fn replay(args: &Args) {
    let mut out = Out::new();
    let cases = read_lines();
    let res = par_map(&cases, args.u64("threads", 4) as usize, |ci, c| replay_case(ci, c));
    let mut steps = 0;
    for (lines, st) in res {
        steps += st;
        for l in lines {
            if l.get("mismatch").is_some() {
                out.mismatches += 1;
            }
            out.emit(&l);
        }
    }
    out.done(cases.len(), steps);
}

// ---------------------------------------------------------------------------------------------
// totality: record verdicts for arbitrary bytes

fn leb(mut x: u64, pad: usize) -> Vec<u8> {
    let mut v = vec![];
    loop {
        let byte = (x & 0x7f) as u8;
        x >>= 7;
        if x == 0 && pad == 0 {
            v.push(byte);
            break;
        }
        v.push(byte | 0x80);
        if x == 0 {
            // over-long encoding: `pad` continuation bytes of zero payload
            for i in 0..pad {
                v.push(if i + 1 == pad { 0x00 } else { 0x80 });
            }
            break;
        }
    }
    v
}

/// (section id, start of section header, payload start, payload end)
fn sections(code: &[u8]) -> Vec<(u8, usize, usize, usize)> {
    let mut res = vec![];
    let mut p = 8;
    while p < code.len() {
        let id = code[p];
        let mut q = p + 1;
        let mut len: u64 = 0;
        let mut shift = 0;
        loop {
            if q >= code.len() || shift > 35 {
                return res;
            }
            let bt = code[q];
            q += 1;
            len |= ((bt & 0x7f) as u64) << shift;
            shift += 7;
            if bt & 0x80 == 0 {
                break;
            }
        }
        let end = q + len as usize;
        if end > code.len() {
            return res;
        }
        res.push((id, p, q, end));
        p = end;
    }
    res
}

fn mutate(rng: &mut StdRng, base: &[u8]) -> (Vec<u8>, &'static str) {
    let mut c = base.to_vec();
    let secs = sections(base);
    match rng.gen_range(0..9) {
        0 => {
            // byte flips
            for _ in 0..rng.gen_range(1..4) {
                let i = rng.gen_range(0..c.len());
                c[i] ^= 1 << rng.gen_range(0..8);
            }
            (c, "flip")
        }
        1 => {
            let i = rng.gen_range(0..c.len());
            c[i] = rng.gen();
            (c, "setbyte")
        }
        2 => {
            // truncate the file
            let i = rng.gen_range(0..c.len());
            c.truncate(i);
            (c, "truncate")
        }
        3 if !secs.is_empty() => {
            // truncate one section's payload but keep its declared length
            let (_, _, ps, pe) = secs[rng.gen_range(0..secs.len())];
            if pe > ps {
                let cut = rng.gen_range(ps..pe);
                c.drain(cut..pe);
            }
            (c, "sec-truncate")
        }
        4 if !secs.is_empty() => {
            // re-encode a section length as an over-long LEB128
            let (id, hs, ps, pe) = secs[rng.gen_range(0..secs.len())];
            let mut nc = c[..hs].to_vec();
            nc.push(id);
            nc.extend(leb((pe - ps) as u64, rng.gen_range(1..6)));
            nc.extend_from_slice(&c[ps..]);
            (nc, "leb-overlong")
        }
        5 if !secs.is_empty() => {
            // section length lies (too long / too short / huge)
            let (id, hs, ps, pe) = secs[rng.gen_range(0..secs.len())];
            let real = (pe - ps) as u64;
            let fake = match rng.gen_range(0..4) {
                0 => real + 1,
                1 => real.saturating_sub(1),
                2 => 0xffff_ffff,
                _ => rng.gen_range(0..real + 64),
            };
            let mut nc = c[..hs].to_vec();
            nc.push(id);
            nc.extend(leb(fake, 0));
            nc.extend_from_slice(&c[ps..]);
            (nc, "sec-len")
        }
        6 if secs.len() >= 2 => {
            // duplicate or swap sections
            let i = rng.gen_range(0..secs.len());
            let j = rng.gen_range(0..secs.len());
            let (_, hs, _, pe) = secs[i];
            let chunk = c[hs..pe].to_vec();
            let (_, hj, _, _) = secs[j];
            let mut nc = c[..hj].to_vec();
            nc.extend(chunk);
            nc.extend_from_slice(&c[hj..]);
            (nc, "sec-dup")
        }
        7 if !secs.is_empty() => {
            // overwrite a LEB-looking count at the start of a section payload with a huge value
            let (_, _, ps, _) = secs[rng.gen_range(0..secs.len())];
            let mut nc = c[..ps].to_vec();
            let huge: u64 = [0x7fu64, 0xffff, 0xffff_ffff, 0x1_0000_0000][rng.gen_range(0..4)];
            nc.extend(leb(huge, 0));
            nc.extend_from_slice(&c[(ps + 1).min(c.len())..]);
            (nc, "count-huge")
        }
        _ => {
            // insert random bytes
            let i = rng.gen_range(0..=c.len());
            let k = rng.gen_range(1..6);
            for _ in 0..k {
                c.insert(i, rng.gen());
            }
            (c, "insert")
        }
    }
}

fn nominal_bases() -> Vec<Vec<u8>> {
    let wats = [
        r#"(module (import "env" "sys_generate_ruid" (func $r (result i64)))
            (memory 1) (export "memory" (memory 0))
            (func $Test_f (export "Test_f") (param i64) (result i64) (local i32)
              (block $b (br_table $b $b (i32.const 0)))
              (if (i64.eqz (local.get 0)) (then (drop (call $r))))
              (local.get 0))
            (func $g (param i32 i32) (result i32) (i32.add (local.get 0) (local.get 1)))
            (table 2 funcref) (elem (i32.const 0) $g $Test_f)
            (global (mut i32) (i32.const 5))
            (data (i32.const 16) "hello"))"#,
        r#"(module (memory 1 2) (export "memory" (memory 0))
            (func (export "Test_f") (param i64) (result i64)
              (loop $l (br_if $l (i32.eqz (i32.const 1))))
              (i64.store (i32.const 0) (local.get 0))
              (i64.const 8)))"#,
    ];
    wats.iter().map(|w| wat::parse_str(w).unwrap()).collect()
}

fn record(src: &str, kind: &str, code: &[u8], v: i64, name: &str) -> Value {
    let (verdict, class, output, fexp) = validate(code, v, false);
    let mut ev = json!({"a": "validate", "src": src, "kind": kind, "v": v, "len": code.len(),
        "verdict": verdict, "cls": class, "name": name});
    if let Some(o) = output {
        match sdesc(code, None) {
            Ok(sd) => {
                let orig = sd["nfuncs"].as_u64().unwrap();
                ev["in"] = sd;
                match sdesc(&o, Some(orig)) {
                    Ok(mut od) => {
                        let mut fe = fexp.clone();
                        fe.sort();
                        od["funcExports"] = json!(fe);
                        ev["out"] = od;
                    }
                    Err(e) => ev["outErr"] = json!(e),
                }
            }
            Err(e) => ev["inErr"] = json!(e),
        }
    }
    // keep the trace small: bytes only for small inputs that were not plainly rejected
    // (rejected inputs are reproducible from the seed; blobs are identified by path)
    if code.len() <= 600 && verdict != "err" {
        ev["hex"] = json!(hex::encode(code));
    }
    ev
}

fn fuzz(args: &Args) {
    let seed = args.u64("seed", 1);
    let n_rand = args.u64("rand", 1000);
    let n_mut = args.u64("mut", 1000);
    let mut rng = StdRng::seed_from_u64(seed);
    let mut out = Out::new();
    let bases = nominal_bases();
    for (i, bs) in bases.iter().enumerate() {
        for v in 0..3 {
            out.emit(&record("mut", "base", bs, v, &format!("base{}", i)));
        }
    }
    for _ in 0..n_rand {
        let len = match rng.gen_range(0..4) {
            0 => rng.gen_range(0..12),
            1 => rng.gen_range(0..64),
            _ => rng.gen_range(0..400),
        };
        let mut c: Vec<u8> = (0..len).map(|_| rng.gen()).collect();
        let kind = if rng.gen_bool(0.7) {
            // plausible header so that the section parser is reached
            let h = [0x00, 0x61, 0x73, 0x6d, 0x01, 0x00, 0x00, 0x00];
            for (i, x) in h.iter().enumerate() {
                if i < c.len() {
                    c[i] = *x;
                }
            }
            // small section ids / lengths make deeper paths likelier
            if c.len() > 10 && rng.gen_bool(0.7) {
                c[8] = rng.gen_range(0..13);
                c[9] = rng.gen_range(0..(c.len() - 9).min(127)) as u8;
            }
            "rand-hdr"
        } else {
            "rand"
        };
        out.emit(&record("rand", kind, &c, rng.gen_range(0..3), ""));
    }
    for _ in 0..n_mut {
        let base = &bases[rng.gen_range(0..bases.len())];
        let (mut c, mut kind) = mutate(&mut rng, base);
        if rng.gen_bool(0.25) && !c.is_empty() {
            let (c2, k2) = mutate(&mut rng, &c.clone());
            if !c2.is_empty() {
                c = c2;
                kind = k2;
            }
        }
        out.emit(&record("mut", kind, &c, rng.gen_range(0..3), ""));
    }
    out.flush();
}

/// stdin: one JSON string (path) per line; optional mutants of every blob
fn blobs(args: &Args) {
    let seed = args.u64("seed", 1);
    let muts = args.u64("mut", 0);
    let mut out = Out::new();
    let paths = read_lines();
    let res = par_map(&paths, args.u64("threads", 4) as usize, |i, p| {
        let mut rng = StdRng::seed_from_u64(seed.wrapping_add(i as u64 * 7919));
        let path = p.as_str().unwrap();
        let code = std::fs::read(path).expect("blob");
        let mut evs = vec![];
        for v in [0i64, 2] {
            evs.push(record("blob", "blob", &code, v, path));
        }
        for _ in 0..muts {
            let (c, kind) = mutate(&mut rng, &code);
            evs.push(record("blobmut", kind, &c, 2, path));
        }
        evs
    });
    for evs in res {
        for e in evs {
            out.emit(&e);
        }
    }
    out.flush();
}

//! C01 — binding of spec/Determinism to execute_transaction.
//!
//! The run plan (points of the lattice diagnostic flags x code cache x threads x process) comes
//! from TLC (GenDeterminism).  For every run the harness executes the SAME transaction sequence
//! from a freshly bootstrapped in-memory ledger and records, for transaction i, the digest
//!   blake2b( SBOR( outcome ) ), ( state_updates ), ( application_events ), ( fee_summary ),
//!   ( fee_source ), ( fee_destination ), ( performed_nullifications )      [or the reject / abort reason]
//! i.e. what the statement names, and NOT fee_details / execution_trace / debug information,
//! which the diagnostic flags legitimately add.  Equality across runs is decided by
//! TraceDeterminism.tla.
//!
//! run = {"run": id, "diag": ["kernel_trace","cost_breakdown","execution_trace","debug_information"],
//!        "cache": "warm"|"cold", "threads": 1|4, "proc": "same"|"fresh"}
//!   warm  : one VmModules (WASM code cache) shared by all transactions (and threads) of the run
//!   cold  : a new VmModules for every transaction
//!   threads = N : N OS threads execute their own copy of the sequence on their own database
//!           concurrently (sharing the VmModules when warm); every thread reports its digests
//!   fresh : the harness re-executes itself as a child process for the run
//!
//! Workload: a consensus part on an own ledger (custom genesis with five staked validators, fee-paying
//! round changes with made and missed proposals, three epoch changes with emissions and rewards,
//! stake-to-all-validators transactions), then generated transactions that create many vaults / non-fungible ids / metadata
//! entries in ONE transaction, a failing, an unauthorised and a rejected transaction (first, so
//! that runs executing only a prefix cover them), then repository scenarios (given names, or
//! all that are valid at the latest protocol version).
use radix_engine::system::system_db_reader::SystemDatabaseReader;
use radix_engine::transaction::*;
use radix_engine::updates::{BabylonSettings, ProtocolBuilder};
use radix_engine::vm::DefaultVmModules;
use radix_engine::blueprints::consensus_manager::*;
use radix_substate_store_interface::interface::CommittableSubstateDatabase;
use radix_transaction_scenarios::scenario::*;
use radix_transaction_scenarios::scenarios::*;
use radix_transactions::model::*;
use radix_transactions::validation::TransactionValidator;
use scrypto_test::prelude::*;
use serde_json::{json, Value};
use std::io::Write;
use vh::util::*;
use vh::Args;

fn h<T: ScryptoEncode>(v: &T) -> String {
    hex::encode(&hash(scrypto_encode(v).expect("encodable")).0[..12])
}

/// the digest of a receipt: what must be equal across runs
pub fn digest(r: &TransactionReceipt) -> Value {
    match &r.result {
        TransactionResult::Commit(c) => json!([
            if c.outcome.is_success() { "CommitSuccess" } else { "CommitFailure" },
            h(&c.outcome),
            h(&c.state_updates),
            h(&c.application_events),
            h(&r.fee_summary),
            h(&c.fee_source),
            h(&c.fee_destination),
            h(&c.performed_nullifications),
        ]),
        TransactionResult::Reject(x) => json!(["Reject", h(&x.reason), "", "", h(&r.fee_summary), "", "", ""]),
        TransactionResult::Abort(x) => json!(["Abort", h(&format!("{:?}", x.reason)), "", "", h(&r.fee_summary), "", "", ""]),
    }
}

#[derive(Clone)]
struct RunCfg {
    id: String,
    kernel_trace: bool,
    cost_breakdown: bool,
    execution_trace: bool,
    debug_information: bool,
    cold: bool,
    threads: usize,
    fresh: bool,
    /// number of transactions of the sequence this run executes (expensive runs take a prefix)
    len: usize,
}

impl RunCfg {
    fn parse(v: &Value) -> RunCfg {
        let diag: Vec<&str> = v["diag"].as_array().map(|a| a.iter().map(|x| x.as_str().unwrap()).collect()).unwrap_or_default();
        RunCfg {
            id: v["run"].to_string().trim_matches('"').to_string(),
            kernel_trace: diag.contains(&"kernel_trace"),
            cost_breakdown: diag.contains(&"cost_breakdown"),
            execution_trace: diag.contains(&"execution_trace"),
            debug_information: diag.contains(&"debug_information"),
            cold: v["cache"] == "cold",
            threads: v["threads"].as_u64().unwrap_or(1) as usize,
            fresh: v["proc"] == "fresh",
            len: v["len"].as_u64().unwrap_or(u64::MAX).min(1 << 40) as usize,
        }
    }
    fn config(&self, base: ExecutionConfig) -> ExecutionConfig {
        let mut c = base;
        c.enable_kernel_trace = self.kernel_trace;
        c.enable_cost_breakdown = self.cost_breakdown;
        c.execution_trace = if self.execution_trace { Some(MAX_EXECUTION_TRACE_DEPTH) } else { None };
        c.enable_debug_information = self.debug_information;
        c
    }
}

/// executes one copy of the workload; returns (label, digest) per transaction
fn execute_copy(run: &RunCfg, shared: &DefaultVmModules, scen: &str, gen: u64) -> Vec<(String, Value)> {
    let mut out: Vec<(String, Value)> = vec![];
    let network = NetworkDefinition::simulator();
    let mut db = InMemorySubstateDatabase::standard();
    ProtocolBuilder::for_network(&network).from_bootstrap_to_latest().commit_each_protocol_update(&mut db);
    let validator = TransactionValidator::new(&db, &network);
    let mut exec = |db: &mut InMemorySubstateDatabase, label: String, base: ExecutionConfig, executable: ExecutableTransaction, out: &mut Vec<(String, Value)>| -> TransactionReceipt {
        let config = run.config(base);
        let cold_vm;
        let vm: &DefaultVmModules = if run.cold {
            cold_vm = DefaultVmModules::default();
            &cold_vm
        } else {
            shared
        };
        let receipt = execute_transaction(&*db, vm, &config, &executable);
        if let TransactionResult::Commit(c) = &receipt.result {
            db.commit(&c.state_updates.create_database_updates());
        }
        out.push((label, digest(&receipt)));
        receipt
    };
    // (0) consensus: an own ledger whose genesis has five validators with different stakes; fee-paying
    // round changes with proposals made and missed (so that emissions and rewards are non-zero and differ per
    // validator), three epoch changes, and transactions that touch all validators at once.  First in the
    // sequence: also the runs that execute only a prefix cover it.
    {
        let vkeys: Vec<Secp256k1PublicKey> = (0..5u64).map(|i| Secp256k1PrivateKey::from_u64(900 + i).unwrap().public_key()).collect();
        let staker_key = Secp256k1PrivateKey::from_u64(990).unwrap().public_key();
        let staker = ComponentAddress::preallocated_account_from_public_key(&staker_key);
        let config = ConsensusManagerConfig {
            max_validators: 10,
            epoch_change_condition: EpochChangeCondition { min_round_count: 4, max_round_count: 4, target_duration_millis: 0 },
            num_unstake_epochs: 1,
            total_emission_xrd_per_epoch: dec!(1000),
            min_validator_reliability: dec!("0.3"),
            num_owner_stake_units_unlock_epochs: 2,
            num_fee_increase_delay_epochs: 1,
            validator_creation_usd_cost: dec!(100),
        };
        let settings = BabylonSettings::validators_and_single_staker(
            vkeys.iter().enumerate().map(|(i, k)| (*k, dec!(1000) * Decimal::from(i as u32 + 1))).collect(),
            staker,
            dec!(100000),
            Epoch::of(1),
            config,
        );
        let mut cdb = InMemorySubstateDatabase::standard();
        ProtocolBuilder::for_network(&network).configure_babylon(|_| settings).from_bootstrap_to_latest().commit_each_protocol_update(&mut cdb);
        let cvalidator = TransactionValidator::new(&cdb, &network);
        let validators: Vec<ComponentAddress> = SystemDatabaseReader::new(&cdb)
            .read_object_field(CONSENSUS_MANAGER.as_node_id(), ModuleId::Main, ConsensusManagerField::CurrentValidatorSet.field_index())
            .expect("validator set")
            .as_typed::<VersionedConsensusManagerCurrentValidatorSet>()
            .unwrap()
            .fully_update_and_into_latest_version()
            .validator_set
            .validators_by_stake_desc
            .keys()
            .cloned()
            .collect();
        assert!(validators.len() >= 4, "custom genesis must have several validators");
        let mut n = 2_000_000u32;
        let staker_badge = NonFungibleGlobalId::from_public_key(&staker_key);
        let mut round_in_epoch = 0u64;
        let mut time_ms = 1i64;
        for step in 0..14u64 {
            n += 1;
            // one round change per step; every third one skips a round (its leader missed the proposal)
            let gap: Vec<ValidatorIndex> = if step % 3 == 1 { vec![((step + 2) % 5) as ValidatorIndex] } else { vec![] };
            let round = round_in_epoch + 1 + gap.len() as u64;
            time_ms += 1000;
            let m = ManifestBuilder::new()
                .lock_fee_from_faucet()
                .call_method(
                    CONSENSUS_MANAGER,
                    CONSENSUS_MANAGER_NEXT_ROUND_IDENT,
                    ConsensusManagerNextRoundInput {
                        round: Round::of(round),
                        proposer_timestamp_ms: time_ms,
                        leader_proposal_history: LeaderProposalHistory { gap_round_leaders: gap, current_leader: (step % 5) as ValidatorIndex, is_fallback: false },
                    },
                )
                .build();
            let executable = TestTransaction::new_v1_from_nonce(m, n, btreeset![system_execution(SystemExecution::Validator)])
                .into_executable(&cvalidator)
                .expect("round change");
            let receipt = exec(&mut cdb, format!("consensus:round{}", step), ExecutionConfig::for_test_transaction(), executable, &mut out);
            if out.len() >= run.len {
                return out;
            }
            // the epoch changed when the consensus manager says so (EpochChangeEvent); rounds restart
            let changed = match &receipt.result {
                TransactionResult::Commit(c) => c.application_events.iter().any(|(id, _)| id.1 == "EpochChangeEvent"),
                _ => false,
            };
            round_in_epoch = if changed { 0 } else { round };
            // between the rounds: a transaction that touches every validator (stake to all of them at once)
            if step % 4 == 2 {
                n += 1;
                let mut mb = ManifestBuilder::new().lock_fee_from_faucet().get_free_xrd_from_faucet();
                for (i, v) in validators.iter().enumerate() {
                    let name = format!("s{}", i);
                    mb = mb.take_from_worktop(XRD, dec!(50), &name).stake_validator(*v, &name);
                }
                let m = mb.try_deposit_entire_worktop_or_abort(staker, None).build();
                let executable = TestTransaction::new_v1_from_nonce(m, n, btreeset![staker_badge.clone()]).into_executable(&cvalidator).expect("stake");
                exec(&mut cdb, format!("consensus:stake-all{}", step), ExecutionConfig::for_test_transaction(), executable, &mut out);
                if out.len() >= run.len {
                    return out;
                }
            }
        }
    }
    // (i) generated transactions FIRST: the runs that execute only a prefix of the sequence (debug
    // information) must cover the transactions that create many vaults / ids / entries at once
    if gen > 0 {
        let pk = Secp256k1PrivateKey::from_u64(77).unwrap().public_key();
        let badge = NonFungibleGlobalId::from_public_key(&pk);
        let mut n = 1_000_000u32;
        let mut run_manifest = |db: &mut InMemorySubstateDatabase, label: &str, m: TransactionManifestV1, signed: bool, out: &mut Vec<(String, Value)>| -> TransactionReceipt {
            n += 1;
            let proofs = if signed { btreeset![badge.clone()] } else { btreeset![] };
            let executable = TestTransaction::new_v1_from_nonce(m, n, proofs).into_executable(&validator).expect("generated transaction");
            exec(db, format!("gen:{}", label), ExecutionConfig::for_test_transaction(), executable, out)
        };
        macro_rules! stop {
            () => {
                if out.len() >= run.len {
                    return out;
                }
            };
        }
        let mut accounts = vec![];
        for i in 0..2 {
            let m = ManifestBuilder::new().lock_fee_from_faucet().new_account_advanced(OwnerRole::Fixed(rule!(require(signature(&pk)))), None).build();
            let r = run_manifest(&mut db, &format!("account{}", i), m, true, &mut out);
            accounts.push(r.expect_commit(true).new_component_addresses()[0]);
            stop!();
        }
        let (a, b) = (accounts[0], accounts[1]);
        let mut resources: Vec<ResourceAddress> = vec![];
        for round in 0..gen {
            // many resources + vaults in one transaction
            let mut mb = ManifestBuilder::new().lock_fee_from_faucet();
            for j in 0..12 {
                mb = mb.create_fungible_resource(
                    OwnerRole::None,
                    true,
                    (j % 19) as u8,
                    FungibleResourceRoles::single_locked_rule(rule!(allow_all)),
                    metadata!(init { "name" => format!("r{}-{}", round, j), locked; }),
                    Some(dec!(1000)),
                );
            }
            let m = mb.try_deposit_entire_worktop_or_abort(a, None).build();
            let r = run_manifest(&mut db, &format!("resources{}", round), m, true, &mut out);
            resources.extend(r.expect_commit(true).new_resource_addresses().iter().cloned());
            stop!();
            // many non-fungible ids in one transaction
            let ids: Vec<(NonFungibleLocalId, crate::world::NfEmpty)> = (0..60u64).map(|i| (NonFungibleLocalId::integer(i * 7 + round), crate::world::NfEmpty {})).collect();
            let m = ManifestBuilder::new()
                .lock_fee_from_faucet()
                .create_non_fungible_resource(OwnerRole::None, NonFungibleIdType::Integer, true, NonFungibleResourceRoles::single_locked_rule(rule!(allow_all)), metadata!(), Some(ids))
                .try_deposit_entire_worktop_or_abort(a, None)
                .build();
            run_manifest(&mut db, &format!("nfids{}", round), m, true, &mut out);
            stop!();
            // many metadata (key-value) entries in one transaction
            let mut mb = ManifestBuilder::new().lock_fee_from_faucet();
            for j in 0..40 {
                mb = mb.set_metadata(a, format!("key-{}-{}", round, j), MetadataValue::String(format!("value {}", j)));
            }
            run_manifest(&mut db, &format!("metadata{}", round), mb.build(), true, &mut out);
            stop!();
            // many withdrawals / deposits (vault creation on the receiving side), many events
            let mut mb = ManifestBuilder::new().lock_fee_from_faucet();
            for r in resources.iter().rev().take(12) {
                mb = mb.withdraw_from_account(a, *r, dec!(3));
            }
            let m = mb.try_deposit_entire_worktop_or_abort(b, None).build();
            run_manifest(&mut db, &format!("transfer{}", round), m, true, &mut out);
            stop!();
            // a failing transaction (fee is paid, nothing else happens)
            let m = ManifestBuilder::new().lock_fee_from_faucet().withdraw_from_account(a, XRD, dec!(1000000000)).try_deposit_entire_worktop_or_abort(b, None).build();
            run_manifest(&mut db, &format!("failing{}", round), m, true, &mut out);
            stop!();
            // unauthorised (fails in the auth module)
            let m = ManifestBuilder::new().lock_fee_from_faucet().withdraw_from_account(a, XRD, dec!(1)).try_deposit_entire_worktop_or_abort(b, None).build();
            run_manifest(&mut db, &format!("unauthorised{}", round), m, false, &mut out);
            stop!();
            // a rejected transaction (no fee lock)
            let m = ManifestBuilder::new().get_free_xrd_from_faucet().try_deposit_entire_worktop_or_abort(b, None).build();
            run_manifest(&mut db, &format!("rejected{}", round), m, true, &mut out);
            stop!();
            // WASM execution (faucet) with many calls
            let mut mb = ManifestBuilder::new().lock_fee_from_faucet();
            for _ in 0..5 {
                mb = mb.get_free_xrd_from_faucet();
            }
            let m = mb.try_deposit_entire_worktop_or_abort(b, None).build();
            run_manifest(&mut db, &format!("faucet{}", round), m, true, &mut out);
            stop!();
        }
    }
    // (ii) repository scenarios
    let mut nonce = 0u32;
    let wanted: Vec<&str> = scen.split(',').filter(|s| !s.is_empty()).collect();
    for creator in all_scenarios_iter() {
        let md = creator.metadata();
        let at_latest = ProtocolVersion::LATEST >= md.protocol_min_requirement && ProtocolVersion::LATEST <= md.protocol_max_requirement;
        if !at_latest || !(wanted.contains(&"all") || wanted.contains(&md.logical_name)) {
            continue;
        }
        let epoch = SystemDatabaseReader::new(&db)
            .read_object_field(CONSENSUS_MANAGER.as_node_id(), ModuleId::Main, ConsensusManagerField::State.field_index())
            .expect("consensus manager")
            .as_typed::<VersionedConsensusManagerState>()
            .unwrap()
            .fully_update_and_into_latest_version()
            .epoch;
        let mut scenario = creator.create(ScenarioCore::new(network.clone(), epoch, nonce));
        let mut previous: Option<TransactionReceipt> = None;
        loop {
            let next = scenario.next(previous.as_ref()).map_err(|e| e.into_full(scenario.as_ref())).expect("scenario step");
            match next {
                NextAction::Transaction(tx) => {
                    let validated = tx.raw_transaction.validate(&validator).expect("scenario transaction validates");
                    let receipt = exec(
                        &mut db,
                        format!("{}:{}", md.logical_name, tx.logical_name),
                        ExecutionConfig::for_notarized_transaction(network.clone()),
                        validated.create_executable(),
                        &mut out,
                    );
                    previous = Some(receipt);
                    if out.len() >= run.len {
                        return out;
                    }
                }
                NextAction::Completed(end) => {
                    nonce = end.next_unused_nonce;
                    break;
                }
            }
        }
    }
    out
}

/// one run of the plan in this process: N threads, each its own copy
fn execute_run(run: &RunCfg, scen: &str, gen: u64) -> Vec<Value> {
    let shared = DefaultVmModules::default();
    let copies: Vec<Vec<(String, Value)>> = std::thread::scope(|sc| {
        let hs: Vec<_> = (0..run.threads.max(1)).map(|_| sc.spawn(|| execute_copy(run, &shared, scen, gen))).collect();
        hs.into_iter().map(|h| h.join().expect("copy")).collect()
    });
    let mut evs = vec![];
    for (t, copy) in copies.iter().enumerate() {
        for (i, (label, d)) in copy.iter().enumerate() {
            evs.push(json!({"a": "Exec", "run": run.id, "thread": t, "i": i + 1, "label": label, "digest": d}));
        }
    }
    evs
}

pub fn run(mode: &str, args: &Args) {
    match mode {
        // stdin: the run plan; out=<file>: events (stdout is left to the kernel trace)
        "exec" | "child" => {
            let scen = args.str("scen", "");
            let gen = args.u64("gen", 1);
            let outp = args.str("out", "/dev/stdout");
            let par = args.u64("par", 4) as usize;
            let plan: Vec<RunCfg> = read_lines().iter().map(RunCfg::parse).collect();
            let results = crate::crash::par_runs(&plan, par, |run| {
                if run.fresh && mode == "exec" {
                    // re-execute this binary for the run
                    let tmp = format!("{}.child-{}", outp, run.id);
                    let exe = std::env::current_exe().expect("own path");
                    let mut child = std::process::Command::new(exe)
                        .args(["determinism", "child", &format!("scen={}", scen), &format!("gen={}", gen), &format!("out={}", tmp), "par=1"])
                        .stdin(std::process::Stdio::piped())
                        .stdout(std::process::Stdio::null())
                        .spawn()
                        .expect("child process");
                    let line = json!({"run": run.id, "diag": diag_list(run), "cache": if run.cold {"cold"} else {"warm"}, "threads": run.threads, "proc": "same", "len": run.len});
                    child.stdin.take().unwrap().write_all(format!("{}\n", line).as_bytes()).unwrap();
                    let st = child.wait().expect("child");
                    assert!(st.success(), "child run failed");
                    let text = std::fs::read_to_string(&tmp).expect("child output");
                    let _ = std::fs::remove_file(&tmp);
                    text.lines().filter(|l| !l.trim().is_empty()).map(|l| serde_json::from_str(l).unwrap()).collect()
                } else {
                    execute_run(run, &scen, gen)
                }
            });
            let mut f = std::io::BufWriter::new(std::fs::File::create(&outp).expect("out file"));
            for evs in results {
                for e in evs {
                    serde_json::to_writer(&mut f, &e).unwrap();
                    f.write_all(b"\n").unwrap();
                }
            }
            f.flush().unwrap();
        }
        _ => panic!("mode"),
    }
}

fn diag_list(run: &RunCfg) -> Vec<&'static str> {
    let mut v = vec![];
    if run.kernel_trace {
        v.push("kernel_trace");
    }
    if run.cost_breakdown {
        v.push("cost_breakdown");
    }
    if run.execution_trace {
        v.push("execution_trace");
    }
    if run.debug_information {
        v.push("debug_information");
    }
    v
}

//! The ledger fixture shared by the crash exploration (C11) and the determinism runs (C01):
//! a LedgerSimulator (in-memory DB, genesis) optionally enriched with accounts, resources,
//! a staked validator, pools, an access controller, an identity and an account locker, so that
//! every native blueprint has at least one live instance ("rich" state class).
use radix_engine::system::system_db_reader::SystemDatabaseReader;
use radix_engine::vm::{OverridePackageCode, VmApi, VmInvoke};
use radix_engine_interface::blueprints::package::*;
use radix_native_sdk::resource::*;
use scrypto_test::prelude::*;
use std::collections::BTreeMap;

pub type Ledger = LedgerSimulator<OverridePackageCode<Probe>, InMemorySubstateDatabase>;

/// Native test blueprint "Probe" (no WASM build: OverridePackageCode + publish_native_package).
/// `call_on(kind, method, args, target)` forwards `method(args)` to an INTERNAL object that a
/// manifest cannot address: the bucket handed in (kind 0), a proof of it (1), a fresh vault
/// holding it (2) or the caller's auth zone (3).  It contains no decision logic and never
/// panics itself (every failure is returned with `?`).
#[derive(Clone)]
pub struct Probe;
pub const PROBE_CODE_ID: u64 = 2048;
pub const PROBE_BLUEPRINT: &str = "Probe";

impl VmInvoke for Probe {
    fn invoke<Y: SystemApi<RuntimeError> + KernelNodeApi + KernelSubstateApi<SystemLockData>, V: VmApi>(
        &mut self,
        export_name: &str,
        input: &IndexedScryptoValue,
        api: &mut Y,
        _vm_api: &V,
    ) -> Result<IndexedScryptoValue, RuntimeError> {
        let decode_err = |e| RuntimeError::ApplicationError(ApplicationError::InputDecodeError(e));
        match export_name {
            "call_on" => {
                let (kind, method, args, target): (u8, String, ScryptoValue, Bucket) = input.as_typed().map_err(decode_err)?;
                let arg_bytes = scrypto_encode(&args).map_err(|_| RuntimeError::SystemError(SystemError::InvalidGenericArgs))?;
                let mut keep: Vec<Bucket> = vec![];
                let result = match kind {
                    0 => {
                        let node = *target.0.as_node_id();
                        let r = api.call_method(&node, &method, arg_bytes)?;
                        if api.get_blueprint_id(&node).is_ok() {
                            keep.push(target);
                        }
                        r
                    }
                    1 => {
                        let proof = target.create_proof_of_all(api)?;
                        let node = *proof.0.as_node_id();
                        let r = api.call_method(&node, &method, arg_bytes)?;
                        if api.get_blueprint_id(&node).is_ok() {
                            proof.drop(api)?;
                        }
                        keep.push(target);
                        r
                    }
                    2 => {
                        let res = target.resource_address(api)?;
                        let vault = ResourceManager(res).new_empty_vault(api)?;
                        let mut vault = Vault(vault);
                        vault.put(target, api)?;
                        let node = *vault.0.as_node_id();
                        // the vault stays in this frame: the transaction will fail with OrphanedNodes
                        // after the method body has run, which is an orderly outcome
                        api.call_method(&node, &method, arg_bytes)?
                    }
                    _ => {
                        keep.push(target);
                        let az = api.actor_get_node_id(ACTOR_REF_AUTH_ZONE)?;
                        api.call_method(&az, &method, arg_bytes)?
                    }
                };
                let value: ScryptoValue = scrypto_decode(&result).map_err(decode_err)?;
                Ok(IndexedScryptoValue::from_typed(&(value, keep)))
            }
            _ => Err(RuntimeError::SystemUpstreamError(SystemUpstreamError::FnNotFound(export_name.to_string()))),
        }
    }
}

pub struct World {
    pub ledger: Ledger,
    pub rich: bool,
    pub owner_pk: Secp256k1PublicKey,
    pub owner: ComponentAddress,
    pub other_pk: Secp256k1PublicKey,
    pub other: ComponentAddress,
    /// freely mintable/burnable fungible resource (anyone can mint), divisibility 2
    pub fres: ResourceAddress,
    /// freely mintable/burnable fungible resource of divisibility 0
    pub res0: ResourceAddress,
    /// freely mintable/burnable non-fungible resource (integer ids)
    pub nfres: ResourceAddress,
    /// blueprint name -> live global instances (sorted)
    pub instances: BTreeMap<String, Vec<GlobalAddress>>,
    pub probe: PackageAddress,
    /// vaults of the owner account / of the other account
    pub own_vaults: Vec<InternalAddress>,
    pub foreign_vaults: Vec<InternalAddress>,
}

#[derive(ScryptoSbor, ManifestSbor, Clone, Debug)]
pub struct NfEmpty {}
impl NonFungibleData for NfEmpty {
    const MUTABLE_FIELDS: &'static [&'static str] = &[];
}

fn vaults_of(ledger: &Ledger, c: ComponentAddress) -> Vec<InternalAddress> {
    let mut v: Vec<InternalAddress> = vec![];
    for (_res, nodes) in ledger.get_component_vaults_all(c) {
        for n in nodes {
            if let Ok(a) = InternalAddress::try_from(n) {
                v.push(a);
            }
        }
    }
    v.sort();
    v
}

trait VaultsAll {
    fn get_component_vaults_all(&self, c: ComponentAddress) -> Vec<(ResourceAddress, Vec<NodeId>)>;
}
impl VaultsAll for Ledger {
    fn get_component_vaults_all(&self, c: ComponentAddress) -> Vec<(ResourceAddress, Vec<NodeId>)> {
        let finder = SubtreeVaults::new(self.substate_db());
        finder.get_all(c.as_node_id()).into_iter().collect()
    }
}

impl World {
    pub fn new(rich: bool) -> World {
        let mut ledger = LedgerSimulatorBuilder::new()
            .with_custom_extension(OverridePackageCode::new(PROBE_CODE_ID, Probe))
            .without_kernel_trace()
            .build();
        let probe = ledger.publish_native_package(
            PROBE_CODE_ID,
            PackageDefinition::new_functions_only_test_definition(PROBE_BLUEPRINT, vec![("call_on", "call_on", false)]),
        );
        let (owner_pk, _, owner) = ledger.new_account(false);
        let (other_pk, _, other) = ledger.new_account(false);
        // low divisibilities: amounts near Decimal::MAX cannot be rounded to them (overflow paths)
        let fres = ledger.create_freely_mintable_and_burnable_fungible_resource(OwnerRole::None, Some(dec!(1000)), 2, owner);
        let res0 = ledger.create_freely_mintable_and_burnable_fungible_resource(OwnerRole::None, Some(dec!(1000)), 0, owner);
        let nfres = ledger.create_freely_mintable_and_burnable_non_fungible_resource(
            OwnerRole::None,
            NonFungibleIdType::Integer,
            Some(vec![
                (NonFungibleLocalId::integer(1), NfEmpty {}),
                (NonFungibleLocalId::integer(2), NfEmpty {}),
                (NonFungibleLocalId::integer(3), NfEmpty {}),
            ]),
            owner,
        );
        if rich {
            // second holder of the resources (foreign vaults)
            let m = ManifestBuilder::new()
                .lock_fee_from_faucet()
                .mint_fungible(fres, dec!(50))
                .get_free_xrd_from_faucet()
                .try_deposit_entire_worktop_or_abort(other, None)
                .build();
            ledger.execute_manifest(m, vec![]).expect_commit_success();
            // validator with stake, owned by `owner`
            let _validator = ledger.new_staked_validator_with_pub_key(owner_pk, owner);
            // pools
            let rule = rule!(require(signature(&owner_pk)));
            let m = ManifestBuilder::new()
                .lock_fee_from_faucet()
                .call_function(
                    POOL_PACKAGE,
                    ONE_RESOURCE_POOL_BLUEPRINT,
                    ONE_RESOURCE_POOL_INSTANTIATE_IDENT,
                    OneResourcePoolInstantiateManifestInput {
                        resource_address: fres.into(),
                        pool_manager_rule: rule.clone().into(),
                        owner_role: OwnerRole::None.into(),
                        address_reservation: None,
                    },
                )
                .call_function(
                    POOL_PACKAGE,
                    TWO_RESOURCE_POOL_BLUEPRINT,
                    TWO_RESOURCE_POOL_INSTANTIATE_IDENT,
                    TwoResourcePoolInstantiateManifestInput {
                        resource_addresses: (fres.into(), res0.into()),
                        pool_manager_rule: rule.clone().into(),
                        owner_role: OwnerRole::None.into(),
                        address_reservation: None,
                    },
                )
                .call_function(
                    POOL_PACKAGE,
                    MULTI_RESOURCE_POOL_BLUEPRINT,
                    MULTI_RESOURCE_POOL_INSTANTIATE_IDENT,
                    MultiResourcePoolInstantiateManifestInput {
                        resource_addresses: indexset![fres.into(), res0.into(), XRD.into()],
                        pool_manager_rule: rule.clone().into(),
                        owner_role: OwnerRole::None.into(),
                        address_reservation: None,
                    },
                )
                .build();
            let receipt = ledger.execute_manifest(m, vec![]);
            let pools = receipt.expect_commit_success().new_component_addresses().clone();
            // liquidity in every pool (the owner key is the pool manager)
            let m = ManifestBuilder::new()
                .lock_fee_from_faucet()
                .mint_fungible(fres, dec!(300))
                .mint_fungible(res0, dec!(200))
                .get_free_xrd_from_faucet()
                .take_from_worktop(fres, dec!(100), "f1")
                .take_from_worktop(fres, dec!(100), "f2")
                .take_from_worktop(fres, dec!(100), "f3")
                .take_from_worktop(res0, dec!(100), "z2")
                .take_from_worktop(res0, dec!(100), "z3")
                .take_from_worktop(XRD, dec!(100), "x3")
                .with_name_lookup(|b, l| {
                    b.call_method(pools[0], ONE_RESOURCE_POOL_CONTRIBUTE_IDENT, OneResourcePoolContributeManifestInput { bucket: l.bucket("f1") })
                        .call_method(pools[1], TWO_RESOURCE_POOL_CONTRIBUTE_IDENT, TwoResourcePoolContributeManifestInput { buckets: (l.bucket("f2"), l.bucket("z2")) })
                        .call_method(
                            pools[2],
                            MULTI_RESOURCE_POOL_CONTRIBUTE_IDENT,
                            MultiResourcePoolContributeManifestInput { buckets: ManifestBucketBatch::ManifestBuckets(vec![l.bucket("f3"), l.bucket("z3"), l.bucket("x3")]) },
                        )
                })
                .try_deposit_entire_worktop_or_abort(owner, None)
                .build();
            ledger.execute_manifest(m, vec![NonFungibleGlobalId::from_public_key(&owner_pk)]).expect_commit_success();
            // identity, account locker, access controller
            let _ = ledger.new_identity(owner_pk.clone(), false);
            let m = ManifestBuilder::new()
                .lock_fee_from_faucet()
                .call_function(
                    LOCKER_PACKAGE,
                    ACCOUNT_LOCKER_BLUEPRINT,
                    ACCOUNT_LOCKER_INSTANTIATE_SIMPLE_IDENT,
                    AccountLockerInstantiateSimpleManifestInput { allow_recover: true },
                )
                .try_deposit_entire_worktop_or_abort(owner, None)
                .build();
            let receipt = ledger.execute_manifest(m, vec![]);
            let commit = receipt.expect_commit_success();
            let (locker, locker_badge) = (commit.new_component_addresses()[0], commit.new_resource_addresses()[0]);
            // funds stored in the locker for the other account
            let m = ManifestBuilder::new()
                .lock_fee_from_faucet()
                .create_proof_from_account_of_amount(owner, locker_badge, dec!(1))
                .mint_fungible(fres, dec!(25))
                .take_all_from_worktop(fres, "s")
                .with_name_lookup(|b, l| {
                    b.call_method(locker, ACCOUNT_LOCKER_STORE_IDENT, AccountLockerStoreManifestInput { claimant: other.into(), bucket: l.bucket("s"), try_direct_send: false })
                })
                .build();
            ledger.execute_manifest(m, vec![NonFungibleGlobalId::from_public_key(&owner_pk)]).expect_commit_success();
            let m = ManifestBuilder::new()
                .lock_fee_from_faucet()
                .mint_fungible(fres, dec!(1))
                .take_all_from_worktop(fres, "b")
                .with_name_lookup(|builder, lookup| {
                    builder.call_function(
                        ACCESS_CONTROLLER_PACKAGE,
                        ACCESS_CONTROLLER_BLUEPRINT,
                        ACCESS_CONTROLLER_CREATE_IDENT,
                        AccessControllerCreateManifestInput {
                            controlled_asset: lookup.bucket("b"),
                            rule_set: RuleSet {
                                primary_role: rule.clone(),
                                recovery_role: rule.clone(),
                                confirmation_role: rule.clone(),
                            }
                            .into(),
                            timed_recovery_delay_in_minutes: Some(1),
                            address_reservation: None,
                        },
                    )
                })
                .build();
            ledger.execute_manifest(m, vec![]).expect_commit_success();
        }
        let mut w = World {
            ledger,
            rich,
            owner_pk,
            owner,
            other_pk,
            other,
            fres,
            res0,
            nfres,
            probe,
            instances: BTreeMap::new(),
            own_vaults: vec![],
            foreign_vaults: vec![],
        };
        w.index();
        w
    }

    /// blueprint name -> global instances, read from the database
    fn index(&mut self) {
        let mut inst: BTreeMap<String, Vec<GlobalAddress>> = BTreeMap::new();
        let mut globals: Vec<GlobalAddress> = vec![];
        globals.extend(self.ledger.find_all_components().into_iter().map(GlobalAddress::from));
        globals.extend(self.ledger.find_all_resources().into_iter().map(GlobalAddress::from));
        globals.extend(self.ledger.find_all_packages().into_iter().map(GlobalAddress::from));
        globals.sort();
        {
            let reader = SystemDatabaseReader::new(self.ledger.substate_db());
            for g in globals {
                if let Ok(bid) = reader.get_blueprint_id(g.as_node_id(), ModuleId::Main) {
                    inst.entry(bid.blueprint_name.clone()).or_default().push(g);
                }
            }
        }
        // prefer the fixture's own objects: put them first
        for (bp, first) in [
            ("Account", GlobalAddress::from(self.owner)),
            ("FungibleResourceManager", GlobalAddress::from(self.fres)),
            ("NonFungibleResourceManager", GlobalAddress::from(self.nfres)),
        ] {
            if let Some(v) = inst.get_mut(bp) {
                v.retain(|x| *x != first);
                v.insert(0, first);
            }
        }
        if self.rich {
            // the fixture's validator (created last) before the genesis validators
            if let Some(v) = inst.get_mut("Validator") {
                v.reverse();
            }
        }
        self.instances = inst;
        self.own_vaults = vaults_of(&self.ledger, self.owner);
        self.foreign_vaults = vaults_of(&self.ledger, self.other);
    }

    pub fn owner_badge(&self) -> NonFungibleGlobalId {
        NonFungibleGlobalId::from_public_key(&self.owner_pk)
    }
}

//! C11 — binding of spec/TxLifecycle (TxLifecycle.tla, NativeCalls.tla) to the real engine.
//!
//! mode `catalog`: builds the fixture ledgers and prints ONE JSON object: every function / method
//!   of every package found in the database (function list and input schemas are read from the
//!   package definitions through SystemDatabaseReader), with the paths of its input type tree and
//!   their kinds, and the state classes in which a receiver exists.  NativeCalls.tla enumerates
//!   test purposes over this catalog.
//! mode `run`: test purposes on stdin ({"id","f","op","k","path","state","auth"}); every purpose is
//!   concretised by the schema-directed value builder below into a manifest
//!   (lock_fee from the faucet; supply of buckets / proofs / reservations; the CALL_FUNCTION /
//!   CALL_METHOD / CALL_DIRECT_VAULT_METHOD / CALL_*_MODULE_METHOD under test; clean-up) and
//!   executed WITHOUT commit under catch_unwind.  Output: Submit / Receipt / Panic events.
//! mode `random`: seeded random manifests (sequences of valid instructions with hostile
//!   arguments) and mutated repository-scenario manifests, same event output.
//! The classification of outcomes into allowed / forbidden is TxLifecycle.tla's; the harness only
//! projects the receipt to a class and the facts "trap" / "panic".
use crate::world::*;
use radix_blueprint_schema_init::RefTypes;
use radix_engine::blueprints::package::*;
use radix_engine::errors::*;
use radix_engine::system::system_db_reader::SystemDatabaseReader;
use radix_engine::transaction::*;
use radix_transactions::manifest::*;
use radix_transaction_scenarios::executor::*;
use radix_transactions::model::*;
use radix_transactions::validation::TransactionValidator;
use rand::prelude::*;
use scrypto_test::prelude::*;
use serde_json::{json, Value};
use std::collections::BTreeMap;
use vh::util::*;
use vh::Args;

// ---------------------------------------------------------------------------------------------
// catalog

#[derive(Clone)]
pub struct FnEntry {
    pub pkg: PackageAddress,
    pub bp: String,
    pub ident: String,
    /// "function" | "method" | "direct" (direct-access vault method) | "module" (object module method)
    pub recv: String,
    pub schema: std::rc::Rc<VersionedScryptoSchema>,
    pub input: LocalTypeId,
    pub internal: bool, // blueprint whose instances are internal objects (not reachable from a manifest)
    /// accessibility from the blueprint's auth template: "public" | "role" | "ownpkg" | "outer" | "root" (root call frame only)
    pub access: String,
}

const MODULE_BLUEPRINTS: [&str; 3] = ["Metadata", "RoleAssignment", "ComponentRoyalty"];

pub fn catalog(w: &World) -> Vec<FnEntry> {
    let mut res = vec![];
    let mut pkgs = w.ledger.find_all_packages();
    pkgs.sort();
    for pkg in pkgs {
        let schemas = w.ledger.get_package_radix_blueprint_schema_inits(&pkg);
        let schemas: BTreeMap<SchemaHash, std::rc::Rc<VersionedScryptoSchema>> =
            schemas.into_iter().map(|(h, s)| (h, std::rc::Rc::new(s))).collect();
        // auth templates of the package's blueprints
        let mut auth: BTreeMap<String, AuthConfig> = BTreeMap::new();
        {
            let reader = SystemDatabaseReader::new(w.ledger.substate_db());
            let entries: Vec<_> = match reader.collection_iter(pkg.as_node_id(), ModuleId::Main, PackageCollection::BlueprintVersionAuthConfigKeyValue.collection_index()) {
                Ok(it) => it.collect(),
                Err(_) => vec![],
            };
            for (key, value) in entries {
                let k: BlueprintVersionKey = scrypto_decode(&key.into_map()).unwrap();
                let v: PackageBlueprintVersionAuthConfigEntryPayload = scrypto_decode(&value).unwrap();
                auth.insert(k.blueprint.clone(), v.fully_update_and_into_latest_version());
            }
        }
        let mut defs: Vec<(BlueprintVersionKey, BlueprintDefinition)> = w.ledger.get_package_blueprint_definitions(&pkg).into_iter().collect();
        defs.sort_by(|a, b| a.0.blueprint.cmp(&b.0.blueprint));
        for (key, def) in defs {
            let mut fns: Vec<(&String, &FunctionSchema)> = def.interface.functions.iter().collect();
            fns.sort_by(|a, b| a.0.cmp(b.0));
            for (ident, fs) in fns {
                let (hash, tid) = match &fs.input {
                    BlueprintPayloadDef::Static(ScopedTypeId(h, t)) => (*h, *t),
                    BlueprintPayloadDef::Generic(_) => continue,
                };
                let Some(schema) = schemas.get(&hash) else { continue };
                let is_module = MODULE_BLUEPRINTS.contains(&key.blueprint.as_str());
                let recv = match &fs.receiver {
                    None => "function",
                    Some(info) => {
                        if is_module {
                            "module"
                        } else if info.ref_types.contains(RefTypes::DIRECT_ACCESS) && !info.ref_types.contains(RefTypes::NORMAL) {
                            "direct"
                        } else if info.ref_types.contains(RefTypes::DIRECT_ACCESS) {
                            "direct"
                        } else {
                            "method"
                        }
                    }
                };
                let internal = matches!(
                    key.blueprint.as_str(),
                    "FungibleBucket" | "NonFungibleBucket" | "FungibleProof" | "NonFungibleProof" | "Worktop" | "AuthZone" | "TransactionProcessor"
                ) || (key.blueprint.ends_with("Vault") && recv == "method");
                let access = match (auth.get(&key.blueprint), &fs.receiver) {
                    (Some(a), None) => match &a.function_auth {
                        FunctionAuth::RootOnly => "root",
                        FunctionAuth::AccessRules(r) => match r.get(ident) {
                            Some(AccessRule::AllowAll) => "public",
                            _ => "role",
                        },
                        FunctionAuth::AllowAll => "public",
                    },
                    (Some(a), Some(_)) => match &a.method_auth {
                        MethodAuthTemplate::AllowAll => "public",
                        MethodAuthTemplate::StaticRoleDefinition(d) => match d.methods.get(&MethodKey::new(ident)) {
                            Some(MethodAccessibility::Public) => "public",
                            Some(MethodAccessibility::OuterObjectOnly) => "outer",
                            Some(MethodAccessibility::OwnPackageOnly) => "ownpkg",
                            Some(MethodAccessibility::RoleProtected(_)) => "role",
                            None => "role",
                        },
                    },
                    (None, _) => "public",
                }
                .to_string();
                res.push(FnEntry {
                    access,
                    pkg,
                    bp: key.blueprint.clone(),
                    ident: ident.clone(),
                    recv: recv.to_string(),
                    schema: schema.clone(),
                    input: tid,
                    internal,
                });
            }
        }
    }
    res
}

fn kind_label(schema: &VersionedScryptoSchema, t: LocalTypeId) -> String {
    let s = schema.v1();
    let Some(kind) = s.resolve_type_kind(t) else { return "unknown".into() };
    match kind {
        TypeKind::Any => "any".into(),
        TypeKind::Bool => "bool".into(),
        TypeKind::I8 | TypeKind::I16 | TypeKind::I32 | TypeKind::I64 | TypeKind::I128 => "sint".into(),
        TypeKind::U8 | TypeKind::U16 | TypeKind::U32 | TypeKind::U64 | TypeKind::U128 => "uint".into(),
        TypeKind::String => "string".into(),
        TypeKind::Array { element_type } => {
            if matches!(s.resolve_type_kind(*element_type), Some(TypeKind::U8)) {
                "bytes".into()
            } else {
                "array".into()
            }
        }
        TypeKind::Tuple { .. } => "tuple".into(),
        TypeKind::Enum { .. } => "enum".into(),
        TypeKind::Map { .. } => "map".into(),
        TypeKind::Custom(c) => match c {
            ScryptoCustomTypeKind::Decimal => "decimal".into(),
            ScryptoCustomTypeKind::PreciseDecimal => "pdecimal".into(),
            ScryptoCustomTypeKind::NonFungibleLocalId => "nflid".into(),
            ScryptoCustomTypeKind::Reference => "ref".into(),
            ScryptoCustomTypeKind::Own => match s.resolve_type_validation(t) {
                Some(TypeValidation::Custom(ScryptoCustomTypeValidation::Own(o))) => match o {
                    OwnValidation::IsBucket => "bucket".into(),
                    OwnValidation::IsProof => "proof".into(),
                    OwnValidation::IsGlobalAddressReservation => "reservation".into(),
                    OwnValidation::IsTypedObject(_, name) if name.ends_with("Bucket") => "bucket".into(),
                    OwnValidation::IsTypedObject(_, name) if name.ends_with("Proof") => "proof".into(),
                    _ => "own".into(),
                },
                _ => "own".into(),
            },
        },
    }
}

/// paths of the input type tree (pre-order, bounded), with the kind at each path
fn paths(schema: &VersionedScryptoSchema, root: LocalTypeId) -> Vec<(Vec<u32>, String)> {
    fn go(schema: &VersionedScryptoSchema, t: LocalTypeId, path: Vec<u32>, depth: usize, out: &mut Vec<(Vec<u32>, String)>) {
        if out.len() >= 24 {
            return;
        }
        out.push((path.clone(), kind_label(schema, t)));
        if depth >= 4 {
            return;
        }
        let s = schema.v1();
        match s.resolve_type_kind(t) {
            Some(TypeKind::Tuple { field_types }) => {
                for (i, f) in field_types.iter().enumerate().take(8) {
                    let mut p = path.clone();
                    p.push(i as u32);
                    go(schema, *f, p, depth + 1, out);
                }
            }
            Some(TypeKind::Array { element_type }) => {
                if !matches!(s.resolve_type_kind(*element_type), Some(TypeKind::U8)) {
                    let mut p = path.clone();
                    p.push(0);
                    go(schema, *element_type, p, depth + 1, out);
                }
            }
            Some(TypeKind::Map { key_type, value_type }) => {
                for (i, f) in [key_type, value_type].iter().enumerate() {
                    let mut p = path.clone();
                    p.push(i as u32);
                    go(schema, **f, p, depth + 1, out);
                }
            }
            Some(TypeKind::Enum { variants }) => {
                // descend into the first two variants that carry fields
                for (vid, fields) in variants.iter().filter(|(_, f)| !f.is_empty()).take(2) {
                    for (i, f) in fields.iter().enumerate().take(3) {
                        let mut p = path.clone();
                        p.push(*vid as u32);
                        p.push(i as u32);
                        go(schema, *f, p, depth + 1, out);
                    }
                }
            }
            _ => {}
        }
    }
    let mut out = vec![];
    go(schema, root, vec![], 0, &mut out);
    out
}

/// internal objects reachable through the Probe blueprint: (probe kind, bucket flavour)
fn probe_kind(e: &FnEntry) -> Option<(u8, &'static str)> {
    if !e.internal || e.recv != "method" {
        return None;
    }
    match e.bp.as_str() {
        "FungibleBucket" => Some((0, "fres")),
        "NonFungibleBucket" => Some((0, "nf")),
        "FungibleProof" => Some((1, "fres")),
        "NonFungibleProof" => Some((1, "nf")),
        "FungibleVault" => Some((2, "fres")),
        "NonFungibleVault" => Some((2, "nf")),
        "AuthZone" => Some((3, "xrd")),
        _ => None,
    }
}

/// for the type at `path`: (number of enum variants, all variants field-less) - (0, false) for other kinds
fn enum_shape(schema: &VersionedScryptoSchema, root: LocalTypeId, path: &[u32]) -> (usize, bool) {
    let s = schema.v1();
    let mut t = root;
    let mut i = 0;
    while i < path.len() {
        match s.resolve_type_kind(t) {
            Some(TypeKind::Tuple { field_types }) => {
                t = field_types[path[i] as usize];
                i += 1;
            }
            Some(TypeKind::Array { element_type }) => {
                t = *element_type;
                i += 1;
            }
            Some(TypeKind::Map { key_type, value_type }) => {
                t = if path[i] == 0 { *key_type } else { *value_type };
                i += 1;
            }
            Some(TypeKind::Enum { variants }) => {
                t = variants[&(path[i] as u8)][path[i + 1] as usize];
                i += 2;
            }
            _ => return (0, false),
        }
    }
    match s.resolve_type_kind(t) {
        Some(TypeKind::Enum { variants }) => (variants.len(), variants.values().all(|f| f.is_empty())),
        _ => (0, false),
    }
}

fn has_receiver(w: &World, e: &FnEntry) -> bool {
    if e.bp == PROBE_BLUEPRINT {
        return false; // the probe itself is not a subject
    }
    match e.recv.as_str() {
        "function" => true,
        "method" if e.internal => probe_kind(e).is_some(),
        "method" => w.instances.get(&e.bp).map(|v| !v.is_empty()).unwrap_or(false),
        "direct" => !w.own_vaults.is_empty(),
        "module" => true,
        _ => false,
    }
}

fn dump_catalog() {
    let poor = World::new(false);
    let rich = World::new(true);
    let cat_rich = catalog(&rich);
    let cat_poor = catalog(&poor);
    assert_eq!(cat_rich.len(), cat_poor.len(), "catalog must not depend on the fixture");
    let mut fns = vec![];
    for (i, e) in cat_rich.iter().enumerate() {
        let mut states = vec![];
        if has_receiver(&poor, &cat_poor[i]) {
            states.push("genesis");
        }
        if has_receiver(&rich, e) {
            states.push("rich");
        }
        let ps: Vec<Value> = paths(&e.schema, e.input)
            .into_iter()
            .map(|(p, k)| {
                let (n, unit_like) = enum_shape(&e.schema, e.input, &p);
                json!({"p": p, "k": k, "n": n, "unit": unit_like})
            })
            .collect();
        fns.push(json!({"f": i + 1, "pkg": hex::encode(e.pkg.as_node_id().0), "bp": e.bp, "ident": e.ident, "recv": e.recv,
            "internal": e.internal, "access": e.access, "states": states, "paths": ps}));
    }
    println!("{}", json!({"fns": fns}));
}

// ---------------------------------------------------------------------------------------------
// schema-directed value builder

pub struct Mutation<'a> {
    pub op: &'a str,
    pub k: u64,
}

/// supply of manifest objects created by prelude instructions
pub struct Supply<'w> {
    pub w: &'w World,
    pub prelude: Vec<InstructionV1>,
    pub buckets: u32,
    pub proofs: u32,
    pub reservations: u32,
    pub named: u32,
    pub rng: StdRng,
}

impl<'w> Supply<'w> {
    pub fn new(w: &'w World, seed: u64) -> Self {
        Supply { w, prelude: vec![], buckets: 0, proofs: 0, reservations: 0, named: 0, rng: StdRng::seed_from_u64(seed) }
    }
    fn call(&mut self, addr: GlobalAddress, method: &str, args: ManifestValue) {
        self.prelude.push(InstructionV1::CallMethod(CallMethod { address: ManifestGlobalAddress::Static(addr), method_name: method.to_string(), args }));
    }
    /// a bucket of the given flavour; returns its manifest id
    pub fn bucket(&mut self, flavour: &str) -> ManifestBucket {
        let w = self.w;
        match flavour {
            "fres" => {
                self.call(w.fres.into(), "mint", manifest_args!(dec!(5)).into());
                self.prelude.push(InstructionV1::TakeFromWorktop(TakeFromWorktop { resource_address: w.fres, amount: dec!(5) }));
            }
            "nf" => {
                let id = NonFungibleLocalId::integer(1000 + self.buckets as u64 + self.rng.gen_range(0..1_000_000u64) * 1000);
                let entries: IndexMap<NonFungibleLocalId, (ManifestValue,)> = indexmap!(id => (manifest_decode::<ManifestValue>(&manifest_encode(&NfEmpty {}).unwrap()).unwrap(),));
                self.call(w.nfres.into(), "mint", manifest_args!(entries).into());
                self.prelude.push(InstructionV1::TakeAllFromWorktop(TakeAllFromWorktop { resource_address: w.nfres }));
            }
            "empty" => {
                self.prelude.push(InstructionV1::TakeFromWorktop(TakeFromWorktop { resource_address: XRD, amount: dec!(0) }));
            }
            _ => {
                self.call(FAUCET.into(), "free", manifest_args!().into());
                self.prelude.push(InstructionV1::TakeFromWorktop(TakeFromWorktop { resource_address: XRD, amount: dec!(100) }));
            }
        }
        self.buckets += 1;
        ManifestBucket(self.buckets - 1)
    }
    pub fn proof(&mut self, flavour: &str) -> ManifestProof {
        let b = self.bucket(flavour);
        self.prelude.push(InstructionV1::CreateProofFromBucketOfAll(CreateProofFromBucketOfAll { bucket_id: b }));
        self.proofs += 1;
        ManifestProof(self.proofs - 1)
    }
    pub fn reservation(&mut self) -> ManifestAddressReservation {
        self.prelude.push(InstructionV1::AllocateGlobalAddress(AllocateGlobalAddress {
            package_address: ACCOUNT_PACKAGE,
            blueprint_name: ACCOUNT_BLUEPRINT.to_string(),
        }));
        self.reservations += 1;
        self.named += 1;
        ManifestAddressReservation(self.reservations - 1)
    }
}

fn mv<T: ManifestEncode>(v: &T) -> ManifestValue {
    manifest_decode::<ManifestValue>(&manifest_encode(v).unwrap()).unwrap()
}
fn addr_value(n: NodeId) -> ManifestValue {
    ManifestValue::Custom { value: ManifestCustomValue::Address(ManifestAddress::Static(n)) }
}
fn unit() -> ManifestValue {
    ManifestValue::Tuple { fields: vec![] }
}

fn fake_node(entity: EntityType, tag: u8) -> NodeId {
    let mut b = [tag; 30];
    b[0] = entity as u8;
    NodeId(b)
}

/// an address satisfying (or, for the hostile variants, violating) a reference validation
fn reference(sup: &mut Supply, validation: Option<&ReferenceValidation>, hostile: Option<u64>) -> ManifestValue {
    let w = sup.w;
    let pick = |bp: &str| -> Option<NodeId> { w.instances.get(bp).and_then(|v| v.first()).map(|g| *g.as_node_id()) };
    let good: NodeId = match validation {
        Some(ReferenceValidation::IsGlobalPackage) => *PACKAGE_PACKAGE.as_node_id(),
        Some(ReferenceValidation::IsGlobalResourceManager) => *w.fres.as_node_id(),
        Some(ReferenceValidation::IsGlobalComponent) => *w.owner.as_node_id(),
        Some(ReferenceValidation::IsGlobalTyped(_, bp)) => pick(bp).unwrap_or(*w.owner.as_node_id()),
        Some(ReferenceValidation::IsInternal) | Some(ReferenceValidation::IsInternalTyped(..)) => {
            w.own_vaults.first().map(|a| *a.as_node_id()).unwrap_or(fake_node(EntityType::InternalFungibleVault, 7))
        }
        _ => *w.owner.as_node_id(),
    };
    match hostile {
        None => addr_value(good),
        // an address of the right entity type that does not exist
        Some(0) => addr_value(fake_node(EntityType::from_repr(good.0[0]).unwrap_or(EntityType::GlobalGenericComponent), 0x5a)),
        // an existing address of another entity type
        Some(1) => addr_value(if good == *w.fres.as_node_id() { *w.owner.as_node_id() } else { *w.fres.as_node_id() }),
        // somebody else's object of the same kind
        Some(2) => addr_value(match validation {
            Some(ReferenceValidation::IsGlobalResourceManager) => *w.nfres.as_node_id(),
            Some(ReferenceValidation::IsInternal) | Some(ReferenceValidation::IsInternalTyped(..)) => {
                w.foreign_vaults.first().map(|a| *a.as_node_id()).unwrap_or(good)
            }
            _ => *w.other.as_node_id(),
        }),
        // an internal node where a global one is expected (and vice versa)
        Some(3) => addr_value(if good.is_global() {
            w.foreign_vaults.first().map(|a| *a.as_node_id()).unwrap_or(fake_node(EntityType::InternalFungibleVault, 9))
        } else {
            *w.owner.as_node_id()
        }),
        // a named address that was never allocated
        _ => ManifestValue::Custom { value: ManifestCustomValue::Address(ManifestAddress::Named(ManifestNamedAddress(4242))) },
    }
}

fn big_string(n: usize) -> String {
    "a".repeat(n)
}

fn nested(depth: usize) -> ManifestValue {
    let mut v = unit();
    for _ in 0..depth {
        v = ManifestValue::Tuple { fields: vec![v] };
    }
    v
}

/// the hostile value for a position of the given type
fn hostile(sup: &mut Supply, schema: &VersionedScryptoSchema, t: LocalTypeId, m: &Mutation) -> ManifestValue {
    let s = schema.v1();
    let kind = s.resolve_type_kind(t).cloned().unwrap_or(TypeKind::Any);
    let label = kind_label(schema, t);
    let k = m.k;
    match m.op {
        "wrongkind" => match k % 7 {
            0 => unit(),
            1 => ManifestValue::String { value: "not what you expect".into() },
            2 => ManifestValue::U8 { value: 255 },
            3 => mv(&Decimal::MAX),
            4 => ManifestValue::Enum { discriminator: 255, fields: vec![] },
            5 => ManifestValue::Array { element_value_kind: ManifestValueKind::Array, elements: vec![ManifestValue::Array { element_value_kind: ManifestValueKind::U8, elements: vec![] }] },
            _ => ManifestValue::Map { key_value_kind: ManifestValueKind::String, value_value_kind: ManifestValueKind::Tuple, entries: vec![] },
        },
        "arity" => match &kind {
            TypeKind::Tuple { field_types } => {
                let mut fields: Vec<ManifestValue> = field_types.iter().map(|f| build(sup, schema, *f, &[], 0)).collect();
                if k % 2 == 0 && !fields.is_empty() {
                    fields.pop();
                } else {
                    fields.push(ManifestValue::U32 { value: 7 });
                }
                ManifestValue::Tuple { fields }
            }
            TypeKind::Enum { variants } => {
                let (vid, fs) = variants.iter().max_by_key(|(_, f)| f.len()).map(|(a, b)| (*a, b.clone())).unwrap_or((0, vec![]));
                let mut fields: Vec<ManifestValue> = fs.iter().map(|f| build(sup, schema, *f, &[], 0)).collect();
                if k % 2 == 0 && !fields.is_empty() {
                    fields.pop();
                } else {
                    fields.push(unit());
                }
                ManifestValue::Enum { discriminator: vid, fields }
            }
            _ => unit(),
        },
        "dangling" => match label.as_str() {
            "bucket" => match k % 3 {
                0 => ManifestValue::Custom { value: ManifestCustomValue::Bucket(ManifestBucket(9999)) },
                1 => {
                    // a bucket that was already returned to the worktop
                    let b = sup.bucket("xrd");
                    sup.prelude.push(InstructionV1::ReturnToWorktop(ReturnToWorktop { bucket_id: b }));
                    ManifestValue::Custom { value: ManifestCustomValue::Bucket(b) }
                }
                _ => ManifestValue::Custom { value: ManifestCustomValue::Expression(ManifestExpression::EntireWorktop) },
            },
            "proof" => match k % 3 {
                0 => ManifestValue::Custom { value: ManifestCustomValue::Proof(ManifestProof(9999)) },
                1 => {
                    let p = sup.proof("xrd");
                    sup.prelude.push(InstructionV1::DropProof(DropProof { proof_id: p }));
                    ManifestValue::Custom { value: ManifestCustomValue::Proof(p) }
                }
                _ => ManifestValue::Custom { value: ManifestCustomValue::Expression(ManifestExpression::EntireAuthZone) },
            },
            "reservation" => match k % 2 {
                0 => ManifestValue::Custom { value: ManifestCustomValue::AddressReservation(ManifestAddressReservation(9999)) },
                _ => {
                    // a reservation for another blueprint than the callee expects, used twice
                    let r = sup.reservation();
                    ManifestValue::Custom { value: ManifestCustomValue::AddressReservation(r) }
                }
            },
            "ref" => {
                let v = match s.resolve_type_validation(t) {
                    Some(TypeValidation::Custom(ScryptoCustomTypeValidation::Reference(r))) => Some(r.clone()),
                    _ => None,
                };
                reference(sup, v.as_ref(), Some(k % 5))
            }
            "own" => addr_value(sup.w.foreign_vaults.first().map(|a| *a.as_node_id()).unwrap_or(fake_node(EntityType::InternalFungibleVault, 3))),
            _ => unit(),
        },
        "wrongres" => match label.as_str() {
            "bucket" => {
                let fl = ["nf", "empty", "fres", "xrd"][(k % 4) as usize];
                let b = sup.bucket(fl);
                ManifestValue::Custom { value: ManifestCustomValue::Bucket(b) }
            }
            "proof" => {
                let fl = ["nf", "fres", "xrd"][(k % 3) as usize];
                let p = sup.proof(fl);
                ManifestValue::Custom { value: ManifestCustomValue::Proof(p) }
            }
            _ => unit(),
        },
        // "boundary"
        _ => match &kind {
            TypeKind::Bool => ManifestValue::Bool { value: k % 2 == 0 },
            TypeKind::I8 => ManifestValue::I8 { value: [0, -1, i8::MAX, i8::MIN][(k % 4) as usize] },
            TypeKind::I16 => ManifestValue::I16 { value: [0, -1, i16::MAX, i16::MIN][(k % 4) as usize] },
            TypeKind::I32 => ManifestValue::I32 { value: [0, -1, i32::MAX, i32::MIN][(k % 4) as usize] },
            TypeKind::I64 => ManifestValue::I64 { value: [0, -1, i64::MAX, i64::MIN][(k % 4) as usize] },
            TypeKind::I128 => ManifestValue::I128 { value: [0, -1, i128::MAX, i128::MIN][(k % 4) as usize] },
            TypeKind::U8 => ManifestValue::U8 { value: [0, 1, u8::MAX, 128][(k % 4) as usize] },
            TypeKind::U16 => ManifestValue::U16 { value: [0, 1, u16::MAX, 1 << 15][(k % 4) as usize] },
            TypeKind::U32 => ManifestValue::U32 { value: [0, 1, u32::MAX, 1 << 31][(k % 4) as usize] },
            TypeKind::U64 => ManifestValue::U64 { value: [0, 1, u64::MAX, 1 << 63][(k % 4) as usize] },
            TypeKind::U128 => ManifestValue::U128 { value: [0, 1, u128::MAX, 1 << 127][(k % 4) as usize] },
            TypeKind::String => ManifestValue::String {
                value: match k % 5 {
                    0 => String::new(),
                    1 => big_string(300),
                    2 => big_string(70_000),
                    3 => "\u{0}\u{202e}\u{1F600}%s{}..//".to_string(),
                    _ => "a/b:c d\n".to_string(),
                },
            },
            TypeKind::Array { element_type } => {
                let ek = s.resolve_type_kind(*element_type).cloned().unwrap_or(TypeKind::Any);
                if matches!(ek, TypeKind::U8) {
                    let n = [0usize, 1, 33, 70_000][(k % 4) as usize];
                    ManifestValue::Array { element_value_kind: ManifestValueKind::U8, elements: (0..n).map(|i| ManifestValue::U8 { value: i as u8 }).collect() }
                } else {
                    let n = [0usize, 2, 300][(k % 3) as usize];
                    // duplicates: the same nominal element n times (objects are created once per element)
                    let elems: Vec<ManifestValue> = if matches!(kind_label(schema, *element_type).as_str(), "bucket" | "proof" | "reservation") {
                        (0..n.min(3)).map(|_| build(sup, schema, *element_type, &[], 0)).collect()
                    } else {
                        let e = build(sup, schema, *element_type, &[], 0);
                        (0..n).map(|_| e.clone()).collect()
                    };
                    let evk = value_kind_of(schema, *element_type);
                    ManifestValue::Array { element_value_kind: evk, elements: elems }
                }
            }
            TypeKind::Map { key_type, value_type } => {
                let kk = value_kind_of(schema, *key_type);
                let vk = value_kind_of(schema, *value_type);
                let key = build(sup, schema, *key_type, &[], 0);
                let val = build(sup, schema, *value_type, &[], 0);
                let entries = match k % 3 {
                    0 => vec![],
                    1 => vec![(key.clone(), val.clone()), (key, val)], // duplicate keys
                    _ => (0..200).map(|_| (key.clone(), val.clone())).collect(),
                };
                ManifestValue::Map { key_value_kind: kk, value_value_kind: vk, entries }
            }
            TypeKind::Enum { variants } => {
                // every variant in turn (k selects), nominal fields
                let n = variants.len().max(1);
                let (vid, fs) = variants.iter().nth((k as usize) % n).map(|(a, b)| (*a, b.clone())).unwrap_or((0, vec![]));
                ManifestValue::Enum { discriminator: vid, fields: fs.iter().map(|f| build(sup, schema, *f, &[], 0)).collect() }
            }
            TypeKind::Tuple { .. } => build(sup, schema, t, &[], 0),
            TypeKind::Any => match k % 4 {
                0 => nested(60), // beyond the transport depth limit: cannot even be encoded
                1 => nested(18), // just inside
                2 => unit(),
                _ => ManifestValue::Array { element_value_kind: ManifestValueKind::U8, elements: (0..70_000).map(|i| ManifestValue::U8 { value: i as u8 }).collect() },
            },
            TypeKind::Custom(c) => match c {
                ScryptoCustomTypeKind::Decimal => mv(&match k % 16 {
                    0 => Decimal::ZERO,
                    1 => Decimal::from_attos(I192::ONE),
                    2 => Decimal::MAX,
                    3 => dec!(-1),
                    4 => Decimal::MIN,
                    5 => dec!("0.000000000000000001") * dec!(3),
                    6 => Decimal::MAX / dec!(2),
                    // within one unit of divisibility 18 / 2 / 0 of the ends of the range
                    7 => Decimal::MAX - Decimal::from_attos(I192::ONE),
                    8 => Decimal::MAX - dec!("0.01"),
                    9 => Decimal::MAX - dec!(1),
                    10 => Decimal::MIN + Decimal::from_attos(I192::ONE),
                    11 => Decimal::MIN + dec!(1),
                    // +-10^k near the ends (MAX is about 3.138 * 10^39)
                    12 => dec!("1000000000000000000000000000000000000000"),
                    13 => dec!("-1000000000000000000000000000000000000000"),
                    14 => dec!("3138550867693340381917894711603833208051"),
                    _ => dec!("0.5"),
                }),
                ScryptoCustomTypeKind::PreciseDecimal => mv(&match k % 4 {
                    0 => PreciseDecimal::ZERO,
                    1 => PreciseDecimal::MAX,
                    2 => PreciseDecimal::MIN,
                    _ => pdec!(-1),
                }),
                ScryptoCustomTypeKind::NonFungibleLocalId => mv(&match k % 5 {
                    0 => NonFungibleLocalId::integer(0),
                    1 => NonFungibleLocalId::integer(u64::MAX),
                    2 => NonFungibleLocalId::string(big_string(64)).unwrap(),
                    3 => NonFungibleLocalId::bytes(vec![0u8; 64]).unwrap(),
                    _ => NonFungibleLocalId::ruid([0xff; 32]),
                }),
                ScryptoCustomTypeKind::Reference => {
                    let v = match s.resolve_type_validation(t) {
                        Some(TypeValidation::Custom(ScryptoCustomTypeValidation::Reference(r))) => Some(r.clone()),
                        _ => None,
                    };
                    reference(sup, v.as_ref(), Some(2))
                }
                ScryptoCustomTypeKind::Own => match label.as_str() {
                    "bucket" => {
                        let b = sup.bucket("empty");
                        ManifestValue::Custom { value: ManifestCustomValue::Bucket(b) }
                    }
                    _ => build(sup, schema, t, &[], 0),
                },
            },
        },
    }
}

fn value_kind_of(schema: &VersionedScryptoSchema, t: LocalTypeId) -> ManifestValueKind {
    match schema.v1().resolve_type_kind(t) {
        Some(TypeKind::Bool) => ManifestValueKind::Bool,
        Some(TypeKind::I8) => ManifestValueKind::I8,
        Some(TypeKind::I16) => ManifestValueKind::I16,
        Some(TypeKind::I32) => ManifestValueKind::I32,
        Some(TypeKind::I64) => ManifestValueKind::I64,
        Some(TypeKind::I128) => ManifestValueKind::I128,
        Some(TypeKind::U8) => ManifestValueKind::U8,
        Some(TypeKind::U16) => ManifestValueKind::U16,
        Some(TypeKind::U32) => ManifestValueKind::U32,
        Some(TypeKind::U64) => ManifestValueKind::U64,
        Some(TypeKind::U128) => ManifestValueKind::U128,
        Some(TypeKind::String) => ManifestValueKind::String,
        Some(TypeKind::Array { .. }) => ManifestValueKind::Array,
        Some(TypeKind::Tuple { .. }) | Some(TypeKind::Any) | None => ManifestValueKind::Tuple,
        Some(TypeKind::Enum { .. }) => ManifestValueKind::Enum,
        Some(TypeKind::Map { .. }) => ManifestValueKind::Map,
        Some(TypeKind::Custom(c)) => match c {
            ScryptoCustomTypeKind::Decimal => ManifestValueKind::Custom(ManifestCustomValueKind::Decimal),
            ScryptoCustomTypeKind::PreciseDecimal => ManifestValueKind::Custom(ManifestCustomValueKind::PreciseDecimal),
            ScryptoCustomTypeKind::NonFungibleLocalId => ManifestValueKind::Custom(ManifestCustomValueKind::NonFungibleLocalId),
            ScryptoCustomTypeKind::Reference => ManifestValueKind::Custom(ManifestCustomValueKind::Address),
            ScryptoCustomTypeKind::Own => match kind_label(schema, t).as_str() {
                "bucket" => ManifestValueKind::Custom(ManifestCustomValueKind::Bucket),
                "proof" => ManifestValueKind::Custom(ManifestCustomValueKind::Proof),
                "reservation" => ManifestValueKind::Custom(ManifestCustomValueKind::AddressReservation),
                _ => ManifestValueKind::Custom(ManifestCustomValueKind::Address),
            },
        },
    }
}

pub type Muts<'a> = [(&'a [u32], &'a Mutation<'a>)];

/// builds a value of type `t`; every (path, mutation) of `muts` puts a hostile value at the position its path names
pub fn build(sup: &mut Supply, schema: &VersionedScryptoSchema, t: LocalTypeId, muts: &Muts, depth: usize) -> ManifestValue {
    if let Some((_, m)) = muts.iter().find(|(p, _)| p.is_empty()) {
        return hostile(sup, schema, t, m);
    }
    if depth > 12 {
        return unit();
    }
    let s = schema.v1();
    let kind = s.resolve_type_kind(t).cloned().unwrap_or(TypeKind::Any);
    // the mutations that continue into child i
    let next = |i: usize| -> Vec<(&[u32], &Mutation)> { muts.iter().filter(|(p, _)| p[0] as usize == i).map(|(p, m)| (&p[1..], *m)).collect() };
    match &kind {
        TypeKind::Any => unit(),
        TypeKind::Bool => ManifestValue::Bool { value: true },
        TypeKind::I8 => ManifestValue::I8 { value: 1 },
        TypeKind::I16 => ManifestValue::I16 { value: 1 },
        TypeKind::I32 => ManifestValue::I32 { value: 1 },
        TypeKind::I64 => ManifestValue::I64 { value: 1 },
        TypeKind::I128 => ManifestValue::I128 { value: 1 },
        TypeKind::U8 => ManifestValue::U8 { value: 1 },
        TypeKind::U16 => ManifestValue::U16 { value: 1 },
        TypeKind::U32 => ManifestValue::U32 { value: 1 },
        TypeKind::U64 => ManifestValue::U64 { value: 1 },
        TypeKind::U128 => ManifestValue::U128 { value: 1 },
        TypeKind::String => ManifestValue::String { value: "name".into() },
        TypeKind::Array { element_type } => {
            let evk = value_kind_of(schema, *element_type);
            if evk == ManifestValueKind::U8 {
                ManifestValue::Array { element_value_kind: evk, elements: vec![ManifestValue::U8 { value: 1 }; 3] }
            } else {
                ManifestValue::Array { element_value_kind: evk, elements: vec![build(sup, schema, *element_type, &next(0), depth + 1)] }
            }
        }
        TypeKind::Tuple { field_types } => ManifestValue::Tuple {
            fields: field_types.iter().enumerate().map(|(i, f)| build(sup, schema, *f, &next(i), depth + 1)).collect(),
        },
        TypeKind::Enum { variants } => {
            // the variant the (first) path goes through, else the first variant (fewest surprises)
            let chosen: u8 = muts
                .iter()
                .find(|(p, _)| p.len() >= 2 && variants.contains_key(&(p[0] as u8)))
                .map(|(p, _)| p[0] as u8)
                .unwrap_or(*variants.keys().next().unwrap_or(&0));
            let fs = variants.get(&chosen).cloned().unwrap_or_default();
            let sub: Vec<(&[u32], &Mutation)> = muts.iter().filter(|(p, _)| p.len() >= 2 && p[0] as u8 == chosen).map(|(p, m)| (&p[1..], *m)).collect();
            ManifestValue::Enum {
                discriminator: chosen,
                fields: fs
                    .iter()
                    .enumerate()
                    .map(|(i, f)| {
                        let nx: Vec<(&[u32], &Mutation)> = sub.iter().filter(|(sp, _)| sp[0] as usize == i).map(|(sp, m)| (&sp[1..], *m)).collect();
                        build(sup, schema, *f, &nx, depth + 1)
                    })
                    .collect(),
            }
        }
        TypeKind::Map { key_type, value_type } => ManifestValue::Map {
            key_value_kind: value_kind_of(schema, *key_type),
            value_value_kind: value_kind_of(schema, *value_type),
            entries: vec![(build(sup, schema, *key_type, &next(0), depth + 1), build(sup, schema, *value_type, &next(1), depth + 1))],
        },
        TypeKind::Custom(c) => match c {
            ScryptoCustomTypeKind::Decimal => mv(&dec!(1)),
            ScryptoCustomTypeKind::PreciseDecimal => mv(&pdec!(1)),
            ScryptoCustomTypeKind::NonFungibleLocalId => mv(&NonFungibleLocalId::integer(1)),
            ScryptoCustomTypeKind::Reference => {
                let v = match s.resolve_type_validation(t) {
                    Some(TypeValidation::Custom(ScryptoCustomTypeValidation::Reference(r))) => Some(r.clone()),
                    _ => None,
                };
                reference(sup, v.as_ref(), None)
            }
            ScryptoCustomTypeKind::Own => match kind_label(schema, t).as_str() {
                "bucket" => {
                    let b = sup.bucket("xrd");
                    ManifestValue::Custom { value: ManifestCustomValue::Bucket(b) }
                }
                "proof" => {
                    let p = sup.proof("xrd");
                    ManifestValue::Custom { value: ManifestCustomValue::Proof(p) }
                }
                "reservation" => {
                    let r = sup.reservation();
                    ManifestValue::Custom { value: ManifestCustomValue::AddressReservation(r) }
                }
                _ => addr_value(sup.w.own_vaults.first().map(|a| *a.as_node_id()).unwrap_or(fake_node(EntityType::InternalFungibleVault, 1))),
            },
        },
    }
}

// ---------------------------------------------------------------------------------------------
// manifests and execution

fn lock_fee() -> InstructionV1 {
    InstructionV1::CallMethod(CallMethod { address: ManifestGlobalAddress::Static(FAUCET.into()), method_name: "lock_fee".into(), args: manifest_args!(dec!(5000)).into() })
}
fn cleanup(w: &World) -> Vec<InstructionV1> {
    vec![
        InstructionV1::DropAllProofs(DropAllProofs),
        InstructionV1::CallMethod(CallMethod {
            address: ManifestGlobalAddress::Static(w.other.into()),
            method_name: "try_deposit_batch_or_abort".into(),
            args: manifest_args!(ManifestExpression::EntireWorktop, Option::<ResourceOrNonFungible>::None).into(),
        }),
    ]
}

/// the instruction under test for catalog entry `e`
fn target(sup: &mut Supply, e: &FnEntry, args: ManifestValue, variant: u64) -> Option<InstructionV1> {
    let w = sup.w;
    if let Some((kind, flavour)) = probe_kind(e) {
        // internal object: through the Probe blueprint, on a bucket of the matching resource kind
        // (every third variant: of another kind)
        let fl = if variant % 3 == 2 { "xrd" } else { flavour };
        let b = sup.bucket(fl);
        return Some(InstructionV1::CallFunction(CallFunction {
            package_address: ManifestPackageAddress::Static(w.probe),
            blueprint_name: PROBE_BLUEPRINT.to_string(),
            function_name: "call_on".to_string(),
            args: ManifestValue::Tuple {
                fields: vec![
                    ManifestValue::U8 { value: kind },
                    ManifestValue::String { value: e.ident.clone() },
                    args,
                    ManifestValue::Custom { value: ManifestCustomValue::Bucket(b) },
                ],
            },
        }));
    }
    match e.recv.as_str() {
        "function" => Some(InstructionV1::CallFunction(CallFunction {
            package_address: ManifestPackageAddress::Static(e.pkg),
            blueprint_name: e.bp.clone(),
            function_name: e.ident.clone(),
            args,
        })),
        "method" => {
            let insts = w.instances.get(&e.bp)?;
            let a = insts.get((variant as usize) % insts.len().min(2))?;
            Some(InstructionV1::CallMethod(CallMethod { address: ManifestGlobalAddress::Static(*a), method_name: e.ident.clone(), args }))
        }
        "direct" => {
            let vs = if variant % 2 == 0 { &w.own_vaults } else { &w.foreign_vaults };
            // a vault of the matching kind if there is one
            let want_nf = e.bp.starts_with("NonFungible");
            let v = vs
                .iter()
                .find(|a| (a.as_node_id().entity_type() == Some(EntityType::InternalNonFungibleVault)) == want_nf)
                .or(vs.first())?;
            Some(InstructionV1::CallDirectVaultMethod(CallDirectVaultMethod { address: *v, method_name: e.ident.clone(), args }))
        }
        "module" => {
            // object modules are attached to every global object: use the owner account / a resource
            let a: GlobalAddress = if variant % 2 == 0 { w.owner.into() } else { w.fres.into() };
            let address = ManifestGlobalAddress::Static(a);
            Some(match e.bp.as_str() {
                "Metadata" => InstructionV1::CallMetadataMethod(CallMetadataMethod { address, method_name: e.ident.clone(), args }),
                "RoleAssignment" => InstructionV1::CallRoleAssignmentMethod(CallRoleAssignmentMethod { address, method_name: e.ident.clone(), args }),
                _ => InstructionV1::CallRoyaltyMethod(CallRoyaltyMethod { address, method_name: e.ident.clone(), args }),
            })
        }
        _ => None,
    }
}

fn proofs_for(w: &World, auth: &str) -> BTreeSet<NonFungibleGlobalId> {
    let mut s = BTreeSet::new();
    match auth {
        "owner" | "noauth" => {
            s.insert(w.owner_badge());
        }
        "system" => {
            s.insert(w.owner_badge());
            s.insert(system_execution(SystemExecution::Protocol));
            s.insert(system_execution(SystemExecution::Validator));
        }
        _ => {}
    }
    s
}

fn has_trap(e: &RuntimeError) -> bool {
    matches!(e, RuntimeError::VmError(VmError::Native(NativeRuntimeError::Trap { .. })))
}
fn trap_export(e: &RuntimeError) -> String {
    match e {
        RuntimeError::VmError(VmError::Native(NativeRuntimeError::Trap { export_name, .. })) => export_name.clone(),
        _ => String::new(),
    }
}

fn err_class(e: &RuntimeError) -> String {
    // two levels of variant names: e.g. ApplicationError.AccountError, SystemModuleError.AuthError
    let d = format!("{:?}", e);
    let mut parts = d.split(|c: char| !c.is_alphanumeric() && c != '_').filter(|x| !x.is_empty());
    let a = parts.next().unwrap_or("");
    let b = parts.next().unwrap_or("");
    format!("{}.{}", a, b)
}

/// executes without commit; returns the Receipt / Panic event body
pub fn execute(w: &mut World, manifest: TransactionManifestV1, nonce: u32, proofs: BTreeSet<NonFungibleGlobalId>, noauth: bool) -> Value {
    // stage 1: the test-transaction builder (TestTransaction::prepare re-encodes the manifest and
    // unwraps: a value beyond the transport depth limit cannot be turned into a transaction at all;
    // real transactions arrive as bytes and are refused by the decoder) - not part of the engine
    let prepared = catch(|| {
        let tx = TestTransaction::new_v1_from_nonce(manifest, nonce, proofs);
        tx.into_executable(w.ledger.transaction_validator()).map_err(|e| format!("{:?}", e))
    });
    let executable = match prepared {
        Ok(Ok(x)) => x,
        Ok(Err(e)) => return json!({"a": "Receipt", "cls": "NotExecutable", "err": e.chars().take(80).collect::<String>(), "trap": false, "export": ""}),
        Err(msg) => return json!({"a": "Receipt", "cls": "NotExecutable", "err": format!("builder panic: {}", msg).chars().take(80).collect::<String>(), "trap": false, "export": ""}),
    };
    // stage 2: the engine
    let r: Result<Result<TransactionReceipt, String>, String> =
        catch(|| {
            // "noauth": the auth module switched off (as preview with disable_auth does): what any holder of
            // the right badges could reach
            let config = ExecutionConfig::for_test_transaction().update_system_overrides(|mut o| {
                o.disable_auth = noauth;
                o
            });
            Ok(w.ledger.execute_transaction_no_commit(executable, config))
        });
    match r {
        Err(msg) => json!({"a": "Panic", "msg": msg.chars().take(300).collect::<String>()}),
        Ok(Err(e)) => json!({"a": "Receipt", "cls": "NotExecutable", "err": e.chars().take(80).collect::<String>(), "trap": false, "export": ""}),
        Ok(Ok(receipt)) => match &receipt.result {
            TransactionResult::Commit(c) => match &c.outcome {
                TransactionOutcome::Success(_) => json!({"a": "Receipt", "cls": "CommitSuccess", "err": "", "trap": false, "export": ""}),
                TransactionOutcome::Failure(e) => {
                    let mut v = json!({"a": "Receipt", "cls": "CommitFailure", "err": err_class(e), "trap": has_trap(e), "export": trap_export(e)});
                    if has_trap(e) {
                        v["detail"] = json!(format!("{:?}", e).chars().take(600).collect::<String>());
                    }
                    v
                }
            },
            TransactionResult::Reject(r) => {
                let (trap, err, export) = match &r.reason {
                    RejectionReason::ErrorBeforeLoanAndDeferredCostsRepaid(e) => (has_trap(e), err_class(e), trap_export(e)),
                    other => (false, format!("{:?}", other).split(|c: char| !c.is_alphanumeric()).next().unwrap_or("").to_string(), String::new()),
                };
                let mut v = json!({"a": "Receipt", "cls": "Reject", "err": err, "trap": trap, "export": export});
                if trap {
                    v["detail"] = json!(format!("{:?}", r.reason).chars().take(600).collect::<String>());
                }
                v
            }
            TransactionResult::Abort(a) => json!({"a": "Receipt", "cls": "Abort", "err": format!("{:?}", a.reason).chars().take(60).collect::<String>(), "trap": false, "export": ""}),
        },
    }
}

/// manifest of a test purpose; None if it cannot be concretised in this world (no receiver)
pub fn purpose_manifest(w: &World, cat: &[FnEntry], p: &Value) -> Option<TransactionManifestV1> {
    let f = p["f"].as_u64()? as usize;
    let e = cat.get(f - 1)?;
    let op = p["op"].as_str()?;
    let k = p["k"].as_u64().unwrap_or(0);
    let path: Vec<u32> = p["path"].as_array().map(|a| a.iter().map(|x| x.as_u64().unwrap() as u32).collect()).unwrap_or_default();
    let mut sup = Supply::new(w, p["id"].as_u64().unwrap_or(0));
    let m = Mutation { op, k };
    let args = match op {
        "nominal" | "twice" | "proofthenuse" => build(&mut sup, &e.schema, e.input, &[], 0),
        "cross" => {
            // a boundary amount at `path` crossed with variant k2 of the mode-like enum at `path2`
            let path2: Vec<u32> = p["path2"].as_array().map(|a| a.iter().map(|x| x.as_u64().unwrap() as u32).collect()).unwrap_or_default();
            let m1 = Mutation { op: "boundary", k };
            let m2 = Mutation { op: "boundary", k: p["k2"].as_u64().unwrap_or(0) };
            build(&mut sup, &e.schema, e.input, &[(&path2[..], &m2), (&path[..], &m1)], 0)
        }
        _ => build(&mut sup, &e.schema, e.input, &[(&path[..], &m)], 0),
    };
    let mut ins = vec![lock_fee()];
    let call = target(&mut sup, e, args.clone(), k)?;
    match op {
        // reentrancy-ish sequences
        "twice" => {
            ins.extend(sup.prelude.drain(..));
            ins.push(call.clone());
            ins.push(call); // the second call re-uses ids the first one consumed
        }
        "proofthenuse" => {
            // a live proof of every bucket that is about to be passed (and possibly burnt / deposited)
            let nb = sup.buckets;
            ins.extend(sup.prelude.drain(..));
            for b in 0..nb {
                ins.push(InstructionV1::CreateProofFromBucketOfAll(CreateProofFromBucketOfAll { bucket_id: ManifestBucket(b) }));
            }
            ins.push(call);
        }
        _ => {
            ins.extend(sup.prelude.drain(..));
            ins.push(call);
        }
    }
    ins.extend(cleanup(w));
    Some(TransactionManifestV1 { instructions: ins, blobs: Default::default(), object_names: Default::default() })
}

pub fn run(mode: &str, args: &Args) {
    match mode {
        "catalog" => dump_catalog(),
        "run" => run_purposes(args),
        "random" => run_random(args),
        "scenarios" => run_scenarios(args),
        "show" => {
            // decompile the manifest of one purpose (debugging / replay)
            let w = World::new(args.str("state", "rich") == "rich");
            let cat = catalog(&w);
            for p in read_lines() {
                match purpose_manifest(&w, &cat, &p) {
                    Some(m) => println!("{}", decompile(&m, &NetworkDefinition::simulator()).unwrap_or_else(|e| format!("{:?}", e))),
                    None => println!("(no receiver)"),
                }
            }
        }
        _ => panic!("mode"),
    }
}

fn run_purposes(args: &Args) {
    let purposes = read_lines();
    let threads = args.u64("threads", 4) as usize;
    let chunks: Vec<Vec<&Value>> = (0..threads).map(|t| purposes.iter().skip(t).step_by(threads).collect()).collect();
    let results: Vec<Vec<(u64, Vec<Value>)>> = std::thread::scope(|sc| {
        let hs: Vec<_> = chunks
            .iter()
            .map(|chunk| {
                sc.spawn(move || {
                    let mut worlds: BTreeMap<String, (World, Vec<FnEntry>)> = BTreeMap::new();
                    let mut out = vec![];
                    for p in chunk {
                        let state = p["state"].as_str().unwrap_or("rich").to_string();
                        let (w, cat) = worlds.entry(state.clone()).or_insert_with(|| {
                            let w = World::new(state == "rich");
                            let c = catalog(&w);
                            (w, c)
                        });
                        let id = p["id"].as_u64().unwrap();
                        let mut evs = vec![];
                        let built = catch(|| purpose_manifest(w, cat, p));
                        match built {
                            Ok(Some(m)) => {
                                evs.push(json!({"a": "Submit", "id": id}));
                                let auth = p["auth"].as_str().unwrap_or("owner");
                                let proofs = proofs_for(w, auth);
                                let mut r = execute(w, m, id as u32, proofs, auth == "noauth");
                                r["id"] = json!(id);
                                evs.push(r);
                            }
                            Ok(None) => evs.push(json!({"a": "Skip", "id": id, "why": "no receiver"})),
                            Err(msg) => evs.push(json!({"a": "Skip", "id": id, "why": format!("builder: {}", msg)})),
                        }
                        out.push((id, evs));
                    }
                    out
                })
            })
            .collect();
        hs.into_iter().map(|h| h.join().expect("worker")).collect()
    });
    let mut all: Vec<(u64, Vec<Value>)> = results.into_iter().flatten().collect();
    all.sort_by_key(|x| x.0);
    let mut out = Out::new();
    for (_, evs) in all {
        for e in evs {
            out.emit(&e);
        }
    }
    out.flush();
}

// ---------------------------------------------------------------------------------------------
// seeded random manifests

fn random_manifest(w: &World, cat: &[FnEntry], rng: &mut StdRng, seed: u64, noauth: bool) -> TransactionManifestV1 {
    let mut sup = Supply::new(w, seed);
    let mut ins = vec![lock_fee()];
    let n = rng.gen_range(2..7);
    let ops = ["boundary", "wrongkind", "arity", "dangling", "wrongres", "nominal", "nominal", "nominal", "nominal", "boundary"];
    for _ in 0..n {
        match rng.gen_range(0..10) {
            0 => {
                sup.bucket(["xrd", "fres", "nf", "empty"][rng.gen_range(0..4)]);
            }
            1 => {
                sup.proof(["xrd", "fres", "nf"][rng.gen_range(0..3)]);
            }
            2 if sup.buckets > 0 => {
                let b = ManifestBucket(rng.gen_range(0..sup.buckets));
                let i = match rng.gen_range(0..3) {
                    0 => InstructionV1::ReturnToWorktop(ReturnToWorktop { bucket_id: b }),
                    1 => InstructionV1::BurnResource(BurnResource { bucket_id: b }),
                    _ => InstructionV1::CreateProofFromBucketOfAll(CreateProofFromBucketOfAll { bucket_id: b }),
                };
                sup.prelude.push(i);
            }
            3 => {
                let i = match rng.gen_range(0..4) {
                    0 => InstructionV1::PopFromAuthZone(PopFromAuthZone),
                    1 => InstructionV1::DropAuthZoneProofs(DropAuthZoneProofs),
                    2 => InstructionV1::AssertWorktopContains(AssertWorktopContains { resource_address: XRD, amount: [dec!(0), dec!(1), Decimal::MAX, dec!(-1)][rng.gen_range(0..4)] }),
                    _ => InstructionV1::TakeNonFungiblesFromWorktop(TakeNonFungiblesFromWorktop { resource_address: [w.nfres, w.fres, XRD][rng.gen_range(0..3)], ids: vec![NonFungibleLocalId::integer(rng.gen_range(0..5))] }),
                };
                sup.prelude.push(i);
            }
            _ => {
                // a call of a random catalog entry with a random mutation at a random path
                for _ in 0..20 {
                    let e = &cat[rng.gen_range(0..cat.len())];
                    // with the auth module off, package-private methods have no possible caller
                    if e.bp == PROBE_BLUEPRINT || (noauth && matches!(e.access.as_str(), "ownpkg" | "outer" | "root")) {
                        continue;
                    }
                    let ps = paths(&e.schema, e.input);
                    let (path, _) = &ps[rng.gen_range(0..ps.len())];
                    let op = ops[rng.gen_range(0..ops.len())];
                    let m = Mutation { op, k: rng.gen_range(0..12) };
                    let args = if op == "nominal" { build(&mut sup, &e.schema, e.input, &[], 0) } else { build(&mut sup, &e.schema, e.input, &[(&path[..], &m)], 0) };
                    if let Some(call) = target(&mut sup, e, args, rng.gen_range(0..4)) {
                        sup.prelude.push(call);
                        break;
                    }
                }
            }
        }
    }
    ins.extend(sup.prelude.drain(..));
    if rng.gen_bool(0.8) {
        ins.extend(cleanup(w));
    }
    TransactionManifestV1 { instructions: ins, blobs: Default::default(), object_names: Default::default() }
}

fn run_random(args: &Args) {
    let seed = args.u64("seed", 1);
    let n = args.u64("n", 1000);
    let base = args.u64("base", 1_000_000);
    let threads = args.u64("threads", 4);
    let results: Vec<Vec<(u64, Vec<Value>)>> = std::thread::scope(|sc| {
        let hs: Vec<_> = (0..threads)
            .map(|t| {
                sc.spawn(move || {
                    let mut w = World::new(true);
                    let cat = catalog(&w);
                    let mut out = vec![];
                    let mut i = t;
                    while i < n {
                        let id = base + i;
                        let mut rng = StdRng::seed_from_u64(seed.wrapping_mul(0x9e3779b97f4a7c15) ^ i);
                        let auth = ["none", "owner", "system", "noauth", "noauth"][rng.gen_range(0..5)];
                        let mut evs = vec![];
                        match catch(|| random_manifest(&w, &cat, &mut rng, id, auth == "noauth")) {
                            Ok(m) => {
                                evs.push(json!({"a": "Submit", "id": id}));
                                let proofs = proofs_for(&w, auth);
                                let mut r = execute(&mut w, m, id as u32, proofs, auth == "noauth");
                                r["id"] = json!(id);
                                r["src"] = json!("random");
                                r["seed"] = json!(i);
                                r["auth"] = json!(auth);
                                evs.push(r);
                            }
                            Err(msg) => evs.push(json!({"a": "Skip", "id": id, "why": format!("builder: {}", msg)})),
                        }
                        out.push((id, evs));
                        i += threads;
                    }
                    out
                })
            })
            .collect();
        hs.into_iter().map(|h| h.join().expect("worker")).collect()
    });
    let mut all: Vec<(u64, Vec<Value>)> = results.into_iter().flatten().collect();
    all.sort_by_key(|x| x.0);
    let mut out = Out::new();
    for (_, evs) in all {
        for e in evs {
            out.emit(&e);
        }
    }
    out.flush();
}

// ---------------------------------------------------------------------------------------------
// mutants of the repository's scenario transactions, executed (without commit) on the ledger
// state the scenario has reached

fn count_nodes(v: &ManifestValue) -> usize {
    1 + match v {
        ManifestValue::Array { elements, .. } => elements.iter().map(count_nodes).sum(),
        ManifestValue::Tuple { fields } | ManifestValue::Enum { fields, .. } => fields.iter().map(count_nodes).sum(),
        ManifestValue::Map { entries, .. } => entries.iter().map(|(k, v)| count_nodes(k) + count_nodes(v)).sum(),
        _ => 0,
    }
}

fn hostile_like(v: &ManifestValue, rng: &mut StdRng) -> ManifestValue {
    let k = rng.gen_range(0..8u64);
    match v {
        ManifestValue::Bool { value } => ManifestValue::Bool { value: !*value },
        ManifestValue::U8 { .. } => ManifestValue::U8 { value: [0, 255, 128][(k % 3) as usize] },
        ManifestValue::U32 { .. } => ManifestValue::U32 { value: [0, u32::MAX, 1][(k % 3) as usize] },
        ManifestValue::U64 { .. } => ManifestValue::U64 { value: [0, u64::MAX, 1][(k % 3) as usize] },
        ManifestValue::I64 { .. } => ManifestValue::I64 { value: [0, i64::MAX, i64::MIN, -1][(k % 4) as usize] },
        ManifestValue::String { .. } => ManifestValue::String { value: [String::new(), big_string(3000), "\u{0}".to_string()][(k % 3) as usize].clone() },
        ManifestValue::Custom { value } => match value {
            ManifestCustomValue::Decimal(_) => mv(&[Decimal::ZERO, Decimal::MAX, dec!(-1), Decimal::MIN, Decimal::from_attos(I192::ONE)][(k % 5) as usize]),
            ManifestCustomValue::Bucket(b) => ManifestValue::Custom { value: ManifestCustomValue::Bucket(ManifestBucket([b.0 + 1, 0, 999][(k % 3) as usize])) },
            ManifestCustomValue::Proof(b) => ManifestValue::Custom { value: ManifestCustomValue::Proof(ManifestProof([b.0 + 1, 0, 999][(k % 3) as usize])) },
            ManifestCustomValue::Address(_) => addr_value(fake_node(EntityType::GlobalAccount, rng.gen())),
            ManifestCustomValue::NonFungibleLocalId(_) => mv(&NonFungibleLocalId::integer(rng.gen_range(0..3))),
            ManifestCustomValue::Expression(_) => ManifestValue::Custom {
                value: ManifestCustomValue::Expression(if k % 2 == 0 { ManifestExpression::EntireAuthZone } else { ManifestExpression::EntireWorktop }),
            },
            _ => unit(),
        },
        ManifestValue::Array { element_value_kind, elements } => {
            let mut e = elements.clone();
            match k % 3 {
                0 => e.clear(),
                1 if !e.is_empty() => {
                    let x = e[0].clone();
                    e.push(x);
                }
                _ => {
                    e.truncate(1);
                }
            }
            ManifestValue::Array { element_value_kind: *element_value_kind, elements: e }
        }
        ManifestValue::Tuple { fields } => {
            let mut f = fields.clone();
            if k % 2 == 0 && !f.is_empty() {
                f.pop();
            } else {
                f.push(unit());
            }
            ManifestValue::Tuple { fields: f }
        }
        ManifestValue::Enum { discriminator, fields } => ManifestValue::Enum { discriminator: discriminator.wrapping_add(1 + (k % 3) as u8), fields: fields.clone() },
        ManifestValue::Map { key_value_kind, value_value_kind, entries } => {
            let mut e = entries.clone();
            if k % 2 == 0 {
                e.clear();
            } else if let Some(x) = e.first().cloned() {
                e.push(x);
            }
            ManifestValue::Map { key_value_kind: *key_value_kind, value_value_kind: *value_value_kind, entries: e }
        }
        other => other.clone(),
    }
}

/// replaces the n-th node (pre-order) of the value tree by a hostile look-alike
fn mutate_nth(v: &ManifestValue, n: &mut usize, rng: &mut StdRng) -> ManifestValue {
    if *n == 0 {
        *n = usize::MAX;
        return hostile_like(v, rng);
    }
    if *n != usize::MAX {
        *n -= 1;
    }
    match v {
        ManifestValue::Array { element_value_kind, elements } => ManifestValue::Array { element_value_kind: *element_value_kind, elements: elements.iter().map(|e| mutate_nth(e, n, rng)).collect() },
        ManifestValue::Tuple { fields } => ManifestValue::Tuple { fields: fields.iter().map(|e| mutate_nth(e, n, rng)).collect() },
        ManifestValue::Enum { discriminator, fields } => ManifestValue::Enum { discriminator: *discriminator, fields: fields.iter().map(|e| mutate_nth(e, n, rng)).collect() },
        ManifestValue::Map { key_value_kind, value_value_kind, entries } => ManifestValue::Map {
            key_value_kind: *key_value_kind,
            value_value_kind: *value_value_kind,
            entries: entries.iter().map(|(a, b)| (mutate_nth(a, n, rng), mutate_nth(b, n, rng))).collect(),
        },
        other => other.clone(),
    }
}

fn mutate_manifest(m: &TransactionManifestV1, rng: &mut StdRng) -> (TransactionManifestV1, &'static str) {
    let mut ins = m.instructions.clone();
    let n = ins.len();
    let kind = match rng.gen_range(0..10) {
        0 if n > 1 => {
            ins.remove(rng.gen_range(1..n));
            "drop-instruction"
        }
        1 if n > 1 => {
            let i = rng.gen_range(1..n);
            let x = ins[i].clone();
            ins.insert(i, x);
            "duplicate-instruction"
        }
        2 if n > 2 => {
            let i = rng.gen_range(1..n);
            let j = rng.gen_range(1..n);
            ins.swap(i, j);
            "swap-instructions"
        }
        _ => {
            // a hostile value somewhere in the arguments of a call
            let calls: Vec<usize> = ins
                .iter()
                .enumerate()
                .filter(|(_, i)| matches!(i, InstructionV1::CallMethod(_) | InstructionV1::CallFunction(_)))
                .map(|(i, _)| i)
                .collect();
            if let Some(ci) = calls.get(rng.gen_range(0..calls.len().max(1))).cloned() {
                match &mut ins[ci] {
                    InstructionV1::CallMethod(c) => {
                        let mut k = rng.gen_range(0..count_nodes(&c.args));
                        c.args = mutate_nth(&c.args.clone(), &mut k, rng);
                    }
                    InstructionV1::CallFunction(c) => {
                        let mut k = rng.gen_range(0..count_nodes(&c.args));
                        c.args = mutate_nth(&c.args.clone(), &mut k, rng);
                    }
                    _ => {}
                }
            }
            "hostile-argument"
        }
    };
    (TransactionManifestV1 { instructions: ins, blobs: m.blobs.clone(), object_names: Default::default() }, kind)
}

fn receipt_event(receipt: &TransactionReceipt) -> Value {
    match &receipt.result {
        TransactionResult::Commit(c) => match &c.outcome {
            TransactionOutcome::Success(_) => json!({"a": "Receipt", "cls": "CommitSuccess", "err": "", "trap": false, "export": ""}),
            TransactionOutcome::Failure(e) => json!({"a": "Receipt", "cls": "CommitFailure", "err": err_class(e), "trap": has_trap(e), "export": trap_export(e),
                "detail": if has_trap(e) { format!("{:?}", e).chars().take(600).collect::<String>() } else { String::new() }}),
        },
        TransactionResult::Reject(r) => {
            let (trap, err, export) = match &r.reason {
                RejectionReason::ErrorBeforeLoanAndDeferredCostsRepaid(e) => (has_trap(e), err_class(e), trap_export(e)),
                other => (false, format!("{:?}", other).split(|c: char| !c.is_alphanumeric()).next().unwrap_or("").to_string(), String::new()),
            };
            json!({"a": "Receipt", "cls": "Reject", "err": err, "trap": trap, "export": export})
        }
        TransactionResult::Abort(a) => json!({"a": "Receipt", "cls": "Abort", "err": format!("{:?}", a.reason).chars().take(60).collect::<String>(), "trap": false, "export": ""}),
    }
}

struct MutantHooks {
    rng: StdRng,
    mutants: u64,
    max: u64,
    next_id: u64,
    vm: DefaultVmModules,
    events: Vec<Value>,
    done: u64,
}

impl ScenarioExecutionHooks<InMemorySubstateDatabase> for MutantHooks {
    fn on_transaction_executed(&mut self, ev: OnScenarioTransactionExecuted<InMemorySubstateDatabase>) {
        // the scenario transaction itself is a sample too
        let id = self.next_id;
        self.next_id += 1;
        self.events.push(json!({"a": "Submit", "id": id}));
        let mut r = receipt_event(ev.receipt);
        r["id"] = json!(id);
        r["src"] = json!("scenarios");
        r["seed"] = json!(format!("{}:{}", ev.metadata.logical_name, ev.transaction.logical_name));
        self.events.push(r);
        if self.done >= self.max {
            return;
        }
        let UserTransactionManifest::V1(manifest) = &ev.transaction.transaction_manifest else { return };
        let validator = TransactionValidator::new(ev.database, ev.network_definition);
        let proofs: BTreeSet<NonFungibleGlobalId> = match ev.transaction.raw_transaction.validate(&validator) {
            Ok(v) => v.create_executable().transaction_intent().auth_zone_init.initial_non_fungible_id_proofs.clone(),
            Err(_) => BTreeSet::new(),
        };
        for _ in 0..self.mutants {
            if self.done >= self.max {
                break;
            }
            self.done += 1;
            let id = self.next_id;
            self.next_id += 1;
            let (mutant, kind) = mutate_manifest(manifest, &mut self.rng);
            let text = decompile(&mutant, ev.network_definition).unwrap_or_default();
            self.events.push(json!({"a": "Submit", "id": id}));
            let db: &InMemorySubstateDatabase = ev.database;
            let vm = &self.vm;
            let prepared = catch(|| {
                TestTransaction::new_v1_from_nonce(mutant, id as u32, proofs.clone()).into_executable(&validator).map_err(|e| format!("{:?}", e))
            });
            let mut r = match prepared {
                Ok(Ok(executable)) => match catch(|| execute_transaction(db, vm, &ExecutionConfig::for_test_transaction(), executable)) {
                    Ok(receipt) => receipt_event(&receipt),
                    Err(msg) => json!({"a": "Panic", "msg": msg.chars().take(300).collect::<String>(), "manifest": text.chars().take(4000).collect::<String>()}),
                },
                Ok(Err(e)) => json!({"a": "Receipt", "cls": "NotExecutable", "err": e.chars().take(80).collect::<String>(), "trap": false, "export": ""}),
                Err(msg) => json!({"a": "Receipt", "cls": "NotExecutable", "err": format!("builder panic: {}", msg).chars().take(80).collect::<String>(), "trap": false, "export": ""}),
            };
            if r["trap"] == json!(true) {
                r["manifest"] = json!(text.chars().take(4000).collect::<String>());
            }
            r["id"] = json!(id);
            r["src"] = json!("scenarios");
            r["kind"] = json!(kind);
            r["seed"] = json!(format!("{}:{}", ev.metadata.logical_name, ev.transaction.logical_name));
            self.events.push(r);
        }
    }
}

fn run_scenarios(args: &Args) {
    let mut hooks = MutantHooks {
        rng: StdRng::seed_from_u64(args.u64("seed", 1)),
        mutants: args.u64("mutants", 2),
        max: args.u64("max", 300),
        next_id: args.u64("base", 20_000_000),
        vm: DefaultVmModules::default(),
        events: vec![],
        done: 0,
    };
    let db = InMemorySubstateDatabase::standard();
    let mut executor = TransactionScenarioExecutor::new(db, NetworkDefinition::simulator());
    run_scenario_set(&mut executor, &args.str("scen", ""), &mut hooks);
    let mut out = Out::new();
    for e in &hooks.events {
        out.emit(e);
    }
    out.flush();
}

/// all scenarios at the protocol version where they first become valid (`names` empty), or the
/// named ones once after all protocol updates
pub fn run_scenario_set<H: ScenarioExecutionHooks<InMemorySubstateDatabase>>(
    executor: &mut TransactionScenarioExecutor<InMemorySubstateDatabase>,
    names: &str,
    hooks: &mut H,
) {
    if names.is_empty() {
        executor.execute_every_protocol_update_and_scenario(hooks).expect("scenarios must run");
    } else {
        let set: BTreeSet<String> = names.split(',').map(|s| s.to_string()).collect();
        executor
            .execute_protocol_updates_and_scenarios(
                |builder| builder.from_bootstrap_to_latest(),
                ScenarioTrigger::AfterCompletionOfAllProtocolUpdates,
                ScenarioFilter::SpecificScenariosByName(set),
                hooks,
                &mut (),
                &DefaultVmModules::default(),
            )
            .expect("scenarios must run");
    }
}

/// runs `f(item)` over all items on `threads` worker threads, results in input order
pub fn par_runs<T: Sync, R: Send>(items: &[T], threads: usize, f: impl Fn(&T) -> R + Sync) -> Vec<R> {
    let next = std::sync::atomic::AtomicUsize::new(0);
    let mut slots: Vec<Option<R>> = (0..items.len()).map(|_| None).collect();
    let results = std::sync::Mutex::new(&mut slots);
    std::thread::scope(|sc| {
        for _ in 0..threads.max(1) {
            sc.spawn(|| loop {
                let i = next.fetch_add(1, std::sync::atomic::Ordering::SeqCst);
                if i >= items.len() {
                    break;
                }
                let r = f(&items[i]);
                results.lock().unwrap()[i] = Some(r);
            });
        }
    });
    slots.into_iter().map(|x| x.expect("worker result")).collect()
}

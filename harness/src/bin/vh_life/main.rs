//! vh_life — ledger-level life-cycle checks: TxLifecycle / NativeCalls (C11 "no transaction can
//! crash the engine") and Determinism (C01), both on scrypto_test::LedgerSimulator.
#![allow(clippy::all)]
mod crash;
mod determinism;
mod world;

fn main() {
    let (module, mode, args) = vh::start();
    match module.as_str() {
        "crash" => crash::run(&mode, &args),
        "determinism" => determinism::run(&mode, &args),
        m => vh::unknown(m),
    }
}

//! vh_subint — X01 (extension): binding of spec/Subintents (V2 multi-intent transaction processor,
//! subintent yield / resume / VERIFY_PARENT) to real notarized V2 transactions on a LedgerSimulator.
#![allow(clippy::all)]
mod subint;

fn main() {
    let (module, mode, args) = vh::start();
    match module.as_str() {
        "subint" => subint::run(&mode, &args),
        m => vh::unknown(m),
    }
}

//! mode `replay`: behaviours printed by spec/Subintents/MCSubintents.tla (scenario, one program per
//! intent, the model's verdicts for three rounds) on stdin.  Each behaviour becomes real transactions:
//!   round 1: a notarized V2 transaction (root locks the fee from the faucet; every subintent is a
//!            signed partial transaction added with add_signed_child), statically validated with the
//!            ledger's TransactionValidator, then executed;
//!   round 3: the identical notarized transaction again;
//!   round 2: the same signed subintents under a fresh root intent with the same manifest.
//! Observed: outcome class (success / failed:<error class> / rejected:<class>) and the balances of
//! all accounts read from the database after every round.  The harness compares them with the
//! model's prediction and reports every difference; it contains no rule of the processor.
use radix_common::prelude::*;
use radix_engine::errors::*;
use radix_engine::transaction::*;
use radix_engine_interface::prelude::*;
use radix_transactions::prelude::*;
use scrypto_test::prelude::LedgerSimulatorBuilder;
use serde_json::{json, Value};
use vh::util::*;
use vh::Args;

type Ledger = scrypto_test::prelude::DefaultLedgerSimulator;

struct World {
    ledger: Ledger,
    keys: Vec<(Secp256k1PublicKey, Secp256k1PrivateKey)>,
    accounts: Vec<ComponentAddress>,
    treasury: ComponentAddress,
    treasury_pk: Secp256k1PublicKey,
    res: Vec<ResourceAddress>,
    epoch: Epoch,
    nonce: u64,
    notary: Ed25519PrivateKey,
}

const MAXN: usize = 4;

impl World {
    fn new(nres: usize) -> Self {
        let mut ledger = LedgerSimulatorBuilder::new().build();
        let mut keys = vec![];
        let mut accounts = vec![];
        for _ in 0..MAXN {
            let (pk, sk, acc) = ledger.new_allocated_account();
            keys.push((pk, sk));
            accounts.push(acc);
        }
        let (tpk, _tsk, treasury) = ledger.new_allocated_account();
        let res = (0..nres).map(|_| ledger.create_fungible_resource(dec!(1000000), 18, treasury)).collect();
        let epoch = ledger.get_current_epoch();
        let notary = ledger.default_notary();
        World { ledger, keys, accounts, treasury, treasury_pk: tpk, res, epoch, nonce: 1000, notary }
    }
    fn header(&mut self) -> IntentHeaderV2 {
        self.nonce += 1;
        IntentHeaderV2 {
            network_id: NetworkDefinition::simulator().id,
            start_epoch_inclusive: self.epoch,
            end_epoch_exclusive: self.epoch.next().unwrap(),
            min_proposer_timestamp_inclusive: None,
            max_proposer_timestamp_exclusive: None,
            intent_discriminator: self.nonce,
        }
    }
    fn balances(&mut self, n: usize) -> Vec<Vec<i64>> {
        (0..n)
            .map(|i| {
                self.res
                    .clone()
                    .iter()
                    .map(|r| {
                        let d = self.ledger.get_component_balance(self.accounts[i], *r);
                        // whole units expected; anything else is reported as -1
                        let whole = d.checked_floor().unwrap();
                        if whole == d { i64::try_from(whole).unwrap_or(-1) } else { -1 }
                    })
                    .collect()
            })
            .collect()
    }
    /// brings the first n accounts to `target` units of every resource (one transaction, only if needed)
    fn reset(&mut self, n: usize, target: i64) {
        let cur = self.balances(n);
        if cur.iter().all(|a| a.iter().all(|v| *v == target)) {
            return;
        }
        let mut b = ManifestBuilder::new().lock_fee_from_faucet();
        let mut k = 0;
        for (ri, r) in self.res.clone().iter().enumerate() {
            let mut need = 0i64;
            for i in 0..n {
                let c = cur[i][ri];
                if c > target {
                    b = b.withdraw_from_account(self.accounts[i], *r, Decimal::from(c - target));
                } else {
                    need += target - c;
                }
            }
            if need > 0 {
                b = b.withdraw_from_account(self.treasury, *r, Decimal::from(need));
            }
            for i in 0..n {
                let c = cur[i][ri];
                if c < target {
                    k += 1;
                    let name = format!("t{}", k);
                    b = b.take_from_worktop(*r, Decimal::from(target - c), &name).deposit(self.accounts[i], &name);
                }
            }
        }
        let manifest = b.deposit_entire_worktop(self.treasury).build();
        let mut proofs: Vec<NonFungibleGlobalId> = self.keys.iter().map(|(pk, _)| NonFungibleGlobalId::from_public_key(pk)).collect();
        proofs.push(NonFungibleGlobalId::from_public_key(&self.treasury_pk));
        let receipt = self.ledger.execute_manifest(manifest, proofs);
        receipt.expect_commit_success();
        let after = self.balances(n);
        assert!(after.iter().all(|a| a.iter().all(|v| *v == target)), "reset failed: {:?}", after);
    }
}

fn ints(v: &Value) -> Vec<i64> {
    v.as_array().map(|a| a.iter().map(|x| x.as_i64().unwrap()).collect()).unwrap_or_default()
}

/// the instructions every intent may contain
macro_rules! common_instruction {
    ($b:expr, $x:expr, $w:expr, $own:expr, $nb:expr) => {{
        let x = $x;
        let b = $b;
        let op = x["op"].as_str().unwrap();
        let res = |x: &Value| $w.res[(x["r"].as_i64().unwrap() - 1) as usize];
        match op {
            "W" => Some(b.withdraw_from_account($w.accounts[(x["acc"].as_i64().unwrap() - 1) as usize], res(x), Decimal::from(x["a"].as_i64().unwrap()))),
            "T" => {
                *$nb += 1;
                Some(b.take_from_worktop(res(x), Decimal::from(x["a"].as_i64().unwrap()), format!("b{}", *$nb)))
            }
            "TA" => {
                *$nb += 1;
                Some(b.take_all_from_worktop(res(x), format!("b{}", *$nb)))
            }
            "R" => Some(b.return_to_worktop(format!("b{}", x["b"].as_i64().unwrap()))),
            "DB" => Some(b.deposit($own, format!("b{}", x["b"].as_i64().unwrap()))),
            "D" => Some(b.deposit_entire_worktop($own)),
            "AW" => Some(b.assert_worktop_contains(res(x), Decimal::from(x["a"].as_i64().unwrap()))),
            "YC" => {
                let names: Vec<String> = ints(&x["bs"]).iter().map(|k| format!("b{}", k)).collect();
                Some(b.yield_to_child_with_name_lookup(format!("c{}", x["c"].as_i64().unwrap()), |l| {
                    (names.iter().map(|n| l.bucket(n)).collect::<Vec<ManifestBucket>>(),)
                }))
            }
            _ => {
                let _ = b;
                None
            }
        }
    }};
}

fn build_partial(w: &mut World, beh: &Value, i: usize) -> DetailedSignedPartialTransactionV2 {
    let par = ints(&beh["par"]);
    let children: Vec<usize> = (0..par.len()).filter(|j| par[*j] as usize == i + 1).collect();
    let mut builder = PartialTransactionV2Builder::new().intent_header(w.header());
    for (ci, c) in children.iter().enumerate() {
        let child = build_partial(w, beh, *c);
        builder = builder.add_signed_child(format!("c{}", ci + 1), child);
    }
    let prog = beh["prog"][i].as_array().unwrap().clone();
    let own = w.accounts[i];
    let keys: Vec<Secp256k1PublicKey> = w.keys.iter().map(|k| k.0).collect();
    let wr = &*w;
    builder = builder.manifest_builder(|mut b| {
        let mut nb = 0;
        for x in &prog {
            let op = x["op"].as_str().unwrap();
            b = match op {
                "YP" => {
                    let names: Vec<String> = ints(&x["bs"]).iter().map(|k| format!("b{}", k)).collect();
                    b.yield_to_parent_with_name_lookup(|l| (names.iter().map(|n| l.bucket(n)).collect::<Vec<ManifestBucket>>(),))
                }
                "VP" => {
                    let pk = keys[(x["k"].as_i64().unwrap() - 1) as usize];
                    b.verify_parent(rule!(require(signature(pk))))
                }
                _ => common_instruction!(b, x, wr, own, &mut nb).expect("instruction"),
            };
        }
        b
    });
    for k in ints(&beh["sig"][i]) {
        builder = builder.sign(&w.keys[(k - 1) as usize].1);
    }
    builder.build()
}

fn build_root(w: &mut World, beh: &Value, children: &[DetailedSignedPartialTransactionV2]) -> NotarizedTransactionV2 {
    let mut builder = TransactionV2Builder::new().intent_header(w.header()).transaction_header(TransactionHeaderV2 {
        notary_public_key: w.notary.public_key().into(),
        notary_is_signatory: false,
        tip_basis_points: 0,
    });
    for (ci, c) in children.iter().enumerate() {
        builder = builder.add_signed_child(format!("c{}", ci + 1), c.clone());
    }
    let prog = beh["prog"][0].as_array().unwrap().clone();
    let own = w.accounts[0];
    let wr = &*w;
    builder = builder.manifest_builder(|b| {
        let mut b = b.lock_fee_from_faucet();
        let mut nb = 0;
        for x in &prog {
            b = common_instruction!(b, x, wr, own, &mut nb).expect("instruction not allowed in the root");
        }
        b
    });
    for k in ints(&beh["sig"][0]) {
        builder = builder.sign(&w.keys[(k - 1) as usize].1);
    }
    let notary = w.ledger.default_notary();
    builder.notarize(&notary).build_minimal_no_validate()
}

fn class_of_error(e: &RuntimeError) -> String {
    let s = format!("{:?}", e);
    for (pat, name) in [
        ("AuthError(Unauthorized", "Unauthorized"),
        ("VerifyParentFailed", "VerifyParentFailed"),
        ("WorktopError(InsufficientBalance", "WorktopInsufficientBalance"),
        ("WorktopError(AssertionFailed", "WorktopAssertionFailed"),
        ("DropNonEmptyBucket", "DropNonEmptyWorktop"),
        ("VaultError(ResourceError(InsufficientBalance", "VaultInsufficientBalance"),
    ] {
        if s.contains(pat) {
            return name.to_string();
        }
    }
    s.chars().take(120).collect()
}
fn class_of_rejection(s: &str) -> String {
    for (pat, name) in [
        ("MismatchingYieldChildAndYieldParentCountsForSubintent", "MismatchingYieldChildAndYieldParentCounts"),
        ("SubintentDoesNotEndWithYieldToParent", "SubintentDoesNotEndWithYieldToParent"),
        ("IntentHashPreviouslyCommitted", "IntentHashPreviouslyCommitted"),
    ] {
        if s.contains(pat) {
            return name.to_string();
        }
    }
    s.chars().take(120).collect()
}

/// validate + execute one notarized transaction; (status, error class)
fn submit(w: &mut World, tx: &NotarizedTransactionV2) -> (String, String) {
    let r = catch(|| {
        match tx.prepare_and_validate(w.ledger.transaction_validator()) {
            Err(e) => return ("rejected".to_string(), class_of_rejection(&format!("{:?}", e))),
            Ok(_) => {}
        }
        let raw = tx.to_raw().unwrap();
        let receipt = w.ledger.execute_notarized_transaction(&raw);
        match &receipt.result {
            TransactionResult::Commit(c) => match &c.outcome {
                TransactionOutcome::Success(_) => ("success".to_string(), "".to_string()),
                TransactionOutcome::Failure(e) => ("failed".to_string(), class_of_error(e)),
            },
            TransactionResult::Reject(r) => ("rejected".to_string(), class_of_rejection(&format!("{:?}", r.reason))),
            TransactionResult::Abort(a) => ("aborted".to_string(), format!("{:?}", a.reason)),
        }
    });
    match r {
        Ok(x) => x,
        Err(e) => ("panic".to_string(), e.chars().take(160).collect()),
    }
}

fn observed(w: &mut World, n: usize, st: (String, String)) -> Value {
    json!({"st": st.0, "err": st.1, "bal": w.balances(n)})
}

pub fn run(mode: &str, args: &Args) {
    match mode {
        "replay" => replay(args),
        "probe" => probe(),
        _ => panic!("mode"),
    }
}

fn replay(args: &Args) {
    let nres = args.u64("res", 2) as usize;
    let initbal = args.u64("initbal", 2) as i64;
    let verbose = args.u64("observe", 0) == 1;
    let mut w = World::new(nres);
    let mut out = Out::new();
    let behaviours = read_lines();
    let mut steps = 0;
    for (bi, beh) in behaviours.iter().enumerate() {
        let n = beh["par"].as_array().unwrap().len();
        w.reset(n, initbal);
        // the signed subintents are built once and used by round 1 and round 2
        let par = ints(&beh["par"]);
        let built = catch(|| {
            let top: Vec<usize> = (0..n).filter(|j| par[*j] == 1).collect();
            let children: Vec<DetailedSignedPartialTransactionV2> = top.iter().map(|c| build_partial(&mut w, beh, *c)).collect();
            let tx1 = build_root(&mut w, beh, &children);
            let tx2 = build_root(&mut w, beh, &children);
            (tx1, tx2)
        });
        let (tx1, tx2) = match built {
            Ok(x) => x,
            Err(e) => {
                out.mismatch(bi, 0, "build", json!("transaction"), json!(e));
                continue;
            }
        };
        let o1 = submit(&mut w, &tx1);
        let g1 = observed(&mut w, n, o1);
        let o3 = submit(&mut w, &tx1);
        let g3 = observed(&mut w, n, o3);
        let o2 = submit(&mut w, &tx2);
        let g2 = observed(&mut w, n, o2);
        steps += 3;
        for (round, exp, got) in [(1, &beh["r1"], &g1), (3, &beh["r3"], &g3), (2, &beh["r2"], &g2)] {
            if exp["st"] != got["st"] {
                out.mismatch(bi, round, "outcome", exp.clone(), got.clone());
            } else if exp["err"] != got["err"] {
                out.mismatch(bi, round, "error class", exp.clone(), got.clone());
            }
            // balances: round 3 changes nothing, so it must show the balances of round 1
            let eb = if round == 3 { &beh["r1"]["bal"] } else { &exp["bal"] };
            if *eb != got["bal"] {
                out.mismatch(bi, round, "balances", eb.clone(), got["bal"].clone());
            }
        }
        if verbose {
            out.emit(&json!({"obs": bi, "r1": g1, "r2": g2, "r3": g3}));
        }
    }
    out.done(behaviours.len(), steps);
}

/// Outside the validated input space (informational, not part of the check): what the ENGINE does
/// with yield structures the validator rejects, using TestTransaction (which skips validation).
fn probe() {
    use radix_transactions::model::TestTransaction;
    let mut out = Out::new();
    let mut ledger = LedgerSimulatorBuilder::new().build();
    let (pk, _, account) = ledger.new_allocated_account();
    // (a) a child that is never yielded to
    let r = catch(|| {
        let mut builder = TestTransaction::new_v2_builder(ledger.next_transaction_nonce());
        let child = builder.add_subintent(ManifestBuilder::new_subintent_v2().yield_to_parent(()).build(), []);
        let tx = builder.finish_with_root_intent(
            ManifestBuilder::new_v2().use_child("child", child).lock_standard_test_fee(account).build(),
            [pk.signature_proof()],
        );
        let receipt = ledger.execute_test_transaction(tx);
        format!("{:?}", receipt.result).chars().take(200).collect::<String>()
    });
    out.emit(&json!({"probe": "child never yielded to", "result": format!("{:?}", r).chars().take(260).collect::<String>()}));
    // (b) a second yield to a child that has ended
    let r = catch(|| {
        let mut builder = TestTransaction::new_v2_builder(ledger.next_transaction_nonce());
        let child = builder.add_subintent(ManifestBuilder::new_subintent_v2().yield_to_parent(()).build(), []);
        let tx = builder.finish_with_root_intent(
            ManifestBuilder::new_v2().use_child("child", child).lock_standard_test_fee(account).yield_to_child("child", ()).yield_to_child("child", ()).build(),
            [pk.signature_proof()],
        );
        let receipt = ledger.execute_test_transaction(tx);
        format!("{:?}", receipt.result).chars().take(200).collect::<String>()
    });
    out.emit(&json!({"probe": "yield to an ended child", "result": format!("{:?}", r).chars().take(260).collect::<String>()}));
    // (c) the root ends while the child is suspended after a non-final yield
    let r = catch(|| {
        let mut builder = TestTransaction::new_v2_builder(ledger.next_transaction_nonce());
        let child = builder.add_subintent(ManifestBuilder::new_subintent_v2().yield_to_parent(()).yield_to_parent(()).build(), []);
        let tx = builder.finish_with_root_intent(
            ManifestBuilder::new_v2().use_child("child", child).lock_standard_test_fee(account).yield_to_child("child", ()).build(),
            [pk.signature_proof()],
        );
        let receipt = ledger.execute_test_transaction(tx);
        format!("{:?}", receipt.result).chars().take(200).collect::<String>()
    });
    out.emit(&json!({"probe": "root ends while child suspended", "result": format!("{:?}", r).chars().take(260).collect::<String>()}));
    out.flush();
}

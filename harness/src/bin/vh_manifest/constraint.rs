//! C37 — binding of spec/Constraint to the real ManifestResourceConstraint(s): unit level
//! (validate_fungible / validate_non_fungible / is_valid_for / normalize /
//! ManifestResourceConstraints::validate) and ledger level (ASSERT_WORKTOP_RESOURCES_*,
//! ASSERT_NEXT_CALL_RETURNS_*, ASSERT_BUCKET_CONTENTS in V2 manifests on a LedgerSimulator).
//! Expected verdicts come from TLC (GenConstraint); the harness builds, drives and projects.
use scrypto_test::prelude::*;
use serde_json::{json, Value as J};
use vh::util::*;
use vh::Args;

/// model amount -> Decimal: 1 = one atto, every other m = m/4 (order preserving, whole stays whole)
pub fn dec_of(m: i64) -> Decimal {
    if m == 1 {
        Decimal::from_attos(I192::ONE)
    } else {
        Decimal::from(m) / Decimal::from(4)
    }
}
pub fn ids_of(j: &J) -> IndexSet<NonFungibleLocalId> {
    j.as_array().unwrap().iter().map(|x| NonFungibleLocalId::integer(x.as_u64().unwrap())).collect()
}

pub fn constraint_of(c: &J) -> ManifestResourceConstraint {
    match c["t"].as_str().unwrap() {
        "nonzero" => ManifestResourceConstraint::NonZeroAmount,
        "exact" => ManifestResourceConstraint::ExactAmount(dec_of(c["a"].as_i64().unwrap())),
        "atleast" => ManifestResourceConstraint::AtLeastAmount(dec_of(c["a"].as_i64().unwrap())),
        "exactnf" => ManifestResourceConstraint::ExactNonFungibles(ids_of(&c["ids"])),
        "atleastnf" => ManifestResourceConstraint::AtLeastNonFungibles(ids_of(&c["ids"])),
        "general" => ManifestResourceConstraint::General(GeneralResourceConstraint {
            required_ids: ids_of(&c["req"]),
            lower_bound: match c["lo"]["k"].as_str().unwrap() {
                "nonzero" => LowerBound::NonZero,
                _ => LowerBound::Inclusive(dec_of(c["lo"]["a"].as_i64().unwrap())),
            },
            upper_bound: match c["hi"]["k"].as_str().unwrap() {
                "unb" => UpperBound::Unbounded,
                _ => UpperBound::Inclusive(dec_of(c["hi"]["a"].as_i64().unwrap())),
            },
            allowed_ids: match c["allow"]["k"].as_str().unwrap() {
                "any" => AllowedIds::Any,
                _ => AllowedIds::Allowlist(ids_of(&c["allow"]["ids"])),
            },
        }),
        _ => panic!("constraint"),
    }
}

fn normalized(c: &ManifestResourceConstraint) -> ManifestResourceConstraint {
    match c {
        ManifestResourceConstraint::General(g) => {
            let mut g = g.clone();
            g.normalize();
            ManifestResourceConstraint::General(g)
        }
        other => other.clone(),
    }
}

/// the run-time check of one balance: Ok(accepted) or Err(panic)
fn validate(c: &ManifestResourceConstraint, b: &J) -> Result<bool, String> {
    let c = c.clone();
    if b["kind"] == "f" {
        let a = dec_of(b["a"].as_i64().unwrap());
        catch(|| c.validate_fungible(a).is_ok())
    } else {
        let ids = ids_of(&b["ids"]);
        catch(|| c.validate_non_fungible(&ids).is_ok())
    }
}

fn fungible_addr(i: u8) -> ResourceAddress {
    if i == 1 {
        XRD
    } else {
        let mut b = [7u8; 30];
        b[0] = EntityType::GlobalFungibleResourceManager as u8;
        ResourceAddress::new_or_panic(b)
    }
}
fn nf_addr() -> ResourceAddress {
    let mut b = [9u8; 30];
    b[0] = EntityType::GlobalNonFungibleResourceManager as u8;
    ResourceAddress::new_or_panic(b)
}

pub fn run(mode: &str, args: &Args) {
    match mode {
        "replay" => replay(),
        "ledger" => ledger(args),
        _ => panic!("mode"),
    }
}

fn replay() {
    let cases = read_lines();
    let mut out = Out::new();
    let mut steps = 0usize;
    let mut counts: std::collections::BTreeMap<String, usize> = Default::default();
    let mut mm = |out: &mut Out, i: usize, what: &str, exp: J, got: J| {
        let n = counts.entry(what.to_string()).or_insert(0);
        *n += 1;
        if *n <= 25 {
            out.mismatch(i, 0, what, exp, got);
        }
    };
    for (i, case) in cases.iter().enumerate() {
        match case["m"].as_str().unwrap() {
            "constraint" => {
                let c = constraint_of(&case["c"]);
                steps += 2;
                match catch(|| (c.is_valid_for(&XRD), c.is_valid_for(&nf_addr()))) {
                    Ok((vf, vnf)) => {
                        if json!(vf) != case["validf"] {
                            mm(&mut out, i, "is_valid_for (fungible)", case["validf"].clone(), json!(vf));
                        }
                        if json!(vnf) != case["validnf"] {
                            mm(&mut out, i, "is_valid_for (non-fungible)", case["validnf"].clone(), json!(vnf));
                        }
                    }
                    Err(e) => mm(&mut out, i, "panic", json!("no panic"), json!(e)),
                }
            }
            "pair" => {
                let c = constraint_of(&case["c"]);
                let b = &case["b"];
                let spec_valid = case["valid"].as_bool().unwrap();
                let sat = case["sat"].as_bool().unwrap();
                steps += 1;
                match validate(&c, b) {
                    Err(e) => mm(&mut out, i, "panic", json!("no panic"), json!(e)),
                    Ok(got) => {
                        // the statement speaks about constraints that are valid for the resource kind
                        if spec_valid && got != sat {
                            mm(&mut out, i, "validate verdict", json!(sat), json!(got));
                        }
                    }
                }
                // normalising a constraint THE CODE declares valid must not change the accepted balances
                let code_valid = if b["kind"] == "f" { c.is_valid_for(&XRD) } else { c.is_valid_for(&nf_addr()) };
                if code_valid {
                    steps += 1;
                    match catch(|| normalized(&c)).and_then(|n| validate(&n, b)) {
                        Err(e) => mm(&mut out, i, "panic", json!("no panic"), json!(e)),
                        Ok(got) => {
                            if got != sat {
                                mm(&mut out, i, "validate verdict after normalize", json!(sat), json!(got));
                            }
                        }
                    }
                }
            }
            "multi" => {
                steps += 1;
                let addrs = [fungible_addr(1), fungible_addr(2), nf_addr()];
                let mut cs = ManifestResourceConstraints::new();
                for (r, slot) in case["cs"].as_array().unwrap().iter().enumerate() {
                    if let Some(c) = slot.as_array().unwrap().first() {
                        cs = cs.with_unchecked(addrs[r], constraint_of(c));
                    }
                }
                let mut bal = AggregateResourceBalances::new();
                for (r, b) in case["bal"].as_array().unwrap().iter().enumerate() {
                    if b["kind"] == "f" {
                        bal.add_fungible(addrs[r], dec_of(b["a"].as_i64().unwrap()));
                    } else {
                        bal.add_non_fungible(addrs[r], ids_of(&b["ids"]));
                    }
                }
                let only = case["only"].as_bool().unwrap();
                match catch(|| if only { bal.validate_only(cs).is_ok() } else { bal.validate_includes(cs).is_ok() }) {
                    Err(e) => mm(&mut out, i, "panic", json!("no panic"), json!(e)),
                    Ok(got) => {
                        if json!(got) != case["sat"] {
                            mm(&mut out, i, if only { "validate_only verdict" } else { "validate_includes verdict" }, case["sat"].clone(), json!(got));
                        }
                    }
                }
            }
            "buckets" => {
                // what a call returned, bucket by bucket, through AggregateResourceBalances::add_fungible / add_non_fungible
                steps += 1;
                let addrs = [fungible_addr(1), fungible_addr(2), nf_addr()];
                let mut cs = ManifestResourceConstraints::new();
                for (r, slot) in case["cs"].as_array().unwrap().iter().enumerate() {
                    if let Some(c) = slot.as_array().unwrap().first() {
                        cs = cs.with_unchecked(addrs[r], constraint_of(c));
                    }
                }
                let only = case["only"].as_bool().unwrap();
                let buckets = case["bseq"].as_array().unwrap().clone();
                match catch(|| {
                    let mut bal = AggregateResourceBalances::new();
                    for bk in buckets.iter() {
                        let r = bk["r"].as_u64().unwrap() as usize - 1;
                        if bk["bal"]["kind"] == "f" {
                            bal.add_fungible(addrs[r], dec_of(bk["bal"]["a"].as_i64().unwrap()));
                        } else {
                            bal.add_non_fungible(addrs[r], ids_of(&bk["bal"]["ids"]));
                        }
                    }
                    if only { bal.validate_only(cs).is_ok() } else { bal.validate_includes(cs).is_ok() }
                }) {
                    Err(e) => mm(&mut out, i, "panic", json!("no panic"), json!(e)),
                    Ok(got) => {
                        if json!(got) != case["sat"] {
                            mm(&mut out, i, if only { "returned buckets: validate_only verdict" } else { "returned buckets: validate_includes verdict" }, case["sat"].clone(), json!(got));
                        }
                    }
                }
            }
            _ => panic!("case kind"),
        }
    }
    let counts = json!(counts);
    out.emit(&json!({"counts": counts}));
    out.done(cases.len(), steps);
}

// ---------------------------------------------------------------------------------------------
// ledger level

struct World {
    ledger: DefaultLedgerSimulator,
    pk: Secp256k1PublicKey,
    account: ComponentAddress,
    f1: ResourceAddress,
    f2: ResourceAddress,
    nf: ResourceAddress,
}

fn world() -> World {
    let mut ledger = LedgerSimulatorBuilder::new().build();
    let (pk, _, account) = ledger.new_allocated_account();
    let f1 = ledger.create_fungible_resource(dec!(1000000), DIVISIBILITY_MAXIMUM, account);
    let f2 = ledger.create_fungible_resource(dec!(1000000), DIVISIBILITY_MAXIMUM, account);
    let nf = ledger.create_non_fungible_resource(account); // ids #1#, #2#, #3#
    World { ledger, pk, account, f1, f2, nf }
}

fn classify(receipt: &TransactionReceipt) -> String {
    match &receipt.result {
        TransactionResult::Commit(c) => match &c.outcome {
            TransactionOutcome::Success(_) => "commit".to_string(),
            TransactionOutcome::Failure(e) => match e {
                RuntimeError::ApplicationError(ApplicationError::WorktopError(WorktopError::AssertionFailed(_))) => "assertion".to_string(),
                RuntimeError::SystemError(SystemError::IntentError(IntentError::AssertNextCallReturnsFailed(_))) => "assertion".to_string(),
                RuntimeError::SystemError(SystemError::IntentError(IntentError::AssertBucketContentsFailed(_))) => "assertion".to_string(),
                other => format!("other:{:?}", other).chars().take(160).collect(),
            },
        },
        TransactionResult::Reject(r) => format!("reject:{:?}", r.reason).chars().take(160).collect(),
        TransactionResult::Abort(_) => "abort".to_string(),
    }
}

/// puts the balance of one resource on the worktop (nothing for a zero balance)
fn withdraw(b: ManifestBuilder<TransactionManifestV2>, w: &World, res: ResourceAddress, bal: &J) -> ManifestBuilder<TransactionManifestV2> {
    if bal["kind"] == "f" {
        let a = dec_of(bal["a"].as_i64().unwrap());
        if a.is_zero() { b } else { b.withdraw_from_account(w.account, res, a) }
    } else {
        let ids = ids_of(&bal["ids"]);
        if ids.is_empty() { b } else { b.withdraw_non_fungibles_from_account(w.account, res, ids) }
    }
}

fn execute(w: &mut World, manifest: TransactionManifestV2) -> String {
    let nonce = w.ledger.next_transaction_nonce();
    let pk = w.pk;
    match catch(|| {
        let tx = TestTransaction::new_v2_builder(nonce).finish_with_root_intent(manifest, [pk.signature_proof()]);
        w.ledger.execute_test_transaction(tx)
    }) {
        Ok(receipt) => classify(&receipt),
        Err(e) => format!("panic:{}", e).chars().take(160).collect(),
    }
}

fn ledger(_args: &Args) {
    let cases = read_lines();
    let mut out = Out::new();
    let mut w = world();
    let mut steps = 0usize;
    let mut counts: std::collections::BTreeMap<String, usize> = Default::default();
    for (i, case) in cases.iter().enumerate() {
        let sat = case["sat"].as_bool().unwrap();
        let mut runs: Vec<(String, String)> = vec![];
        if case["m"] == "pair" {
            let b = &case["b"];
            let res = if b["kind"] == "f" { w.f1 } else { w.nf };
            let c = constraint_of(&case["c"]);
            for form in ["worktop_only", "worktop_include", "next_call_only", "next_call_include", "bucket"] {
                let cs = ManifestResourceConstraints::new().with_unchecked(res, c.clone());
                let mb = ManifestBuilder::new_v2().lock_fee_from_faucet();
                let mb = match form {
                    "worktop_only" => withdraw(mb, &w, res, b).assert_worktop_resources_only(cs),
                    "worktop_include" => withdraw(mb, &w, res, b).assert_worktop_resources_include(cs),
                    "next_call_only" | "next_call_include" => {
                        let mb = if form == "next_call_only" { mb.assert_next_call_returns_only(cs) } else { mb.assert_next_call_returns_include(cs) };
                        // the next call returns exactly the balance (also when it is zero / empty)
                        if b["kind"] == "f" {
                            mb.withdraw_from_account(w.account, res, dec_of(b["a"].as_i64().unwrap()))
                        } else {
                            mb.withdraw_non_fungibles_from_account(w.account, res, ids_of(&b["ids"]))
                        }
                    }
                    _ => withdraw(mb, &w, res, b).take_all_from_worktop(res, "bucket").assert_bucket_contents("bucket", c.clone()).return_to_worktop("bucket"),
                };
                let manifest = mb.deposit_entire_worktop(w.account).build();
                runs.push((form.to_string(), execute(&mut w, manifest)));
            }
        } else {
            let addrs = [w.f1, w.f2, w.nf];
            let mut cs = ManifestResourceConstraints::new();
            for (r, slot) in case["cs"].as_array().unwrap().iter().enumerate() {
                if let Some(c) = slot.as_array().unwrap().first() {
                    cs = cs.with_unchecked(addrs[r], constraint_of(c));
                }
            }
            let mut mb = ManifestBuilder::new_v2().lock_fee_from_faucet();
            for (r, b) in case["bal"].as_array().unwrap().iter().enumerate() {
                mb = withdraw(mb, &w, addrs[r], b);
            }
            let only = case["only"].as_bool().unwrap();
            let mb = if only { mb.assert_worktop_resources_only(cs) } else { mb.assert_worktop_resources_include(cs) };
            let manifest = mb.deposit_entire_worktop(w.account).build();
            runs.push((if only { "multi_only" } else { "multi_include" }.to_string(), execute(&mut w, manifest)));
        }
        for (form, got) in runs {
            steps += 1;
            let exp = if sat { "commit" } else { "assertion" };
            *counts.entry(format!("{}:{}", form, got.split(':').next().unwrap())).or_insert(0) += 1;
            if got != exp {
                out.mismatch(i, 0, &format!("ledger verdict ({})", form), json!(exp), json!(got));
            }
        }
    }
    let counts = json!(counts);
    out.emit(&json!({"counts": counts}));
    out.done(cases.len(), steps);
}

//! vh_manifest — manifest column: Constraint (C37), ManifestLifecycle (C36), Movements (C38).
#![allow(clippy::all)]
mod constraint;
mod lifecycle;
mod movements;

fn main() {
    let (module, mode, args) = vh::start();
    match module.as_str() {
        "constraint" => constraint::run(&mode, &args),
        "lifecycle" => lifecycle::run(&mode, &args),
        "movements" => movements::run(&mode, &args),
        m => vh::unknown(m),
    }
}

//! C36 — binding of spec/ManifestLifecycle to StaticManifestInterpreter::validate (every rule set x
//! every manifest kind) and to the run-time id handling of the transaction / intent processor.
//! Manifests are built from direct instruction structs, so ill-formed ones are expressible.
//! The harness reports verdicts and the run-time error class; StaticOK and the set of lifecycle
//! error classes come from TLA+.
use rand::prelude::*;
use radix_transactions::manifest::*;
use scrypto_test::prelude::*;
use serde_json::{json, Value as J};
use vh::util::*;
use vh::Args;

fn u32s(j: &J) -> Vec<u32> {
    j.as_array().map(|a| a.iter().map(|x| x.as_u64().unwrap() as u32).collect()).unwrap_or_default()
}

pub struct World {
    pub ledger: DefaultLedgerSimulator,
    pub pk: Secp256k1PublicKey,
    pub account: ComponentAddress,
    pub blob: Vec<u8>,
    counter: u64,
}

pub fn world() -> World {
    let mut ledger = LedgerSimulatorBuilder::new().build();
    let (pk, _, account) = ledger.new_allocated_account();
    World { ledger, pk, account, blob: b"verif blob".to_vec(), counter: 0 }
}

/// one abstract instruction -> the concrete instruction
fn concrete(w: &World, i: &J) -> InstructionV2 {
    let b = |k: &str| ManifestBucket(i[k].as_u64().unwrap() as u32);
    let p = |k: &str| ManifestProof(i[k].as_u64().unwrap() as u32);
    let buckets = |i: &J| -> Vec<ManifestBucket> { u32s(&i["bs"]).into_iter().map(ManifestBucket).collect() };
    let proofs = |i: &J| -> Vec<ManifestProof> { u32s(&i["ps"]).into_iter().map(ManifestProof).collect() };
    match i["op"].as_str().unwrap() {
        "take" => TakeFromWorktop { resource_address: XRD, amount: dec!(1) }.into(), // several takes must all be non-empty
        "return" => ReturnToWorktop { bucket_id: b("b") }.into(),
        "burn" => BurnResource { bucket_id: b("b") }.into(),
        "proof_b" => CreateProofFromBucketOfAll { bucket_id: b("b") }.into(),
        "proof_az" => CreateProofFromAuthZoneOfAll { resource_address: XRD }.into(),
        "pop" => PopFromAuthZone.into(),
        "push" => PushToAuthZone { proof_id: p("p") }.into(),
        "clone" => CloneProof { proof_id: p("p") }.into(),
        "drop" => DropProof { proof_id: p("p") }.into(),
        "drop_all" => DropAllProofs.into(),
        "drop_named" => DropNamedProofs.into(),
        "drop_az" => DropAuthZoneProofs.into(),
        "drop_az_regular" => DropAuthZoneRegularProofs.into(),
        "drop_az_sig" => DropAuthZoneSignatureProofs.into(),
        "alloc" => AllocateGlobalAddress { package_address: ACCOUNT_PACKAGE, blueprint_name: "Account".to_string() }.into(),
        "assert_next" => AssertNextCallReturnsInclude { constraints: ManifestResourceConstraints::new() }.into(),
        "assert_bucket" => AssertBucketContents { bucket_id: b("b"), constraint: ManifestResourceConstraint::AtLeastAmount(Decimal::ZERO) }.into(),
        "verify_parent" => VerifyParent { access_rule: AccessRule::AllowAll }.into(),
        "yield_parent" => {
            let args = if proofs(i).is_empty() { manifest_args!(buckets(i)) } else { manifest_args!(buckets(i), proofs(i)) };
            YieldToParent { args: args.into() }.into()
        }
        "yield_child" => {
            let args = if proofs(i).is_empty() { manifest_args!(buckets(i)) } else { manifest_args!(buckets(i), proofs(i)) };
            YieldToChild { child_index: ManifestNamedIntentIndex(i["child"].as_u64().unwrap() as u32), args: args.into() }.into()
        }
        "call" => {
            let bs = buckets(i);
            let ps = proofs(i);
            let rs: Vec<ManifestAddressReservation> = u32s(&i["rs"]).into_iter().map(ManifestAddressReservation).collect();
            let named: Vec<ManifestAddress> = u32s(&i["as"]).into_iter().map(|a| ManifestAddress::Named(ManifestNamedAddress(a))).collect();
            let blob = i["blob"].as_u64().unwrap();
            let tgt = i["tgt"].as_i64().unwrap();
            let address = if tgt >= 0 { ManifestGlobalAddress::Named(ManifestNamedAddress(tgt as u32)) } else { ManifestGlobalAddress::Static(w.account.into()) };
            if ps.is_empty() && rs.is_empty() && named.is_empty() && blob == 0 {
                // only buckets: a call that succeeds at run time
                CallMethod { address, method_name: "deposit_batch".to_string(), args: manifest_args!(bs).into() }.into()
            } else if bs.is_empty() && ps.is_empty() && rs.len() == 1 && named.is_empty() && blob == 0 && tgt < 0 {
                // exactly one reservation: its proper use
                CallFunction {
                    package_address: ManifestPackageAddress::Static(ACCOUNT_PACKAGE),
                    blueprint_name: "Account".to_string(),
                    function_name: "create_advanced".to_string(),
                    args: manifest_args!(OwnerRole::None, Some(rs[0])).into(),
                }
                .into()
            } else {
                // anything else: ids are resolved by the processor before the callee refuses the arguments
                let blobs: Vec<ManifestBlobRef> = match blob {
                    1 => vec![ManifestBlobRef(hash(&w.blob).0)],
                    2 => vec![ManifestBlobRef([0xab; 32])],
                    _ => vec![],
                };
                CallMethod { address, method_name: "deposit_batch".to_string(), args: manifest_args!(bs, ps, rs, named, blobs).into() }.into()
            }
        }
        other => panic!("unknown op {}", other),
    }
}

fn lifecycle_class(err: &str) -> String {
    for name in ["BucketNotFound", "ProofNotFound", "AddressReservationNotFound", "AddressNotFound", "BlobNotFound", "InvalidIntentIndex"] {
        if err.contains(name) {
            return name.to_string();
        }
    }
    "other".to_string()
}

fn outcome(receipt: &TransactionReceipt) -> (String, String) {
    match &receipt.result {
        TransactionResult::Commit(c) => match &c.outcome {
            TransactionOutcome::Success(_) => ("commit".to_string(), String::new()),
            TransactionOutcome::Failure(e) => {
                let s = format!("{:?}", e);
                (lifecycle_class(&s), s.chars().take(200).collect())
            }
        },
        TransactionResult::Reject(r) => {
            let s = format!("{:?}", r.reason);
            let c = lifecycle_class(&s);
            (if c == "other" { "rejected".to_string() } else { c }, s.chars().take(200).collect())
        }
        TransactionResult::Abort(a) => ("abort".to_string(), format!("{:?}", a.reason).chars().take(200).collect()),
    }
}

fn verdict<M: ReadableManifest + ?Sized>(m: &M, rules: ValidationRuleset) -> String {
    match catch(|| StaticManifestInterpreter::new(rules, m).validate()) {
        Ok(Ok(())) => "ok".to_string(),
        Ok(Err(e)) => {
            let s = format!("{:?}", e);
            format!("err:{}", s.split(|c: char| !c.is_alphanumeric()).next().unwrap_or(""))
        }
        Err(_) => "panic".to_string(),
    }
}

fn verdicts<M: ReadableManifest + ?Sized>(m: &M) -> J {
    json!({"all": verdict(m, ValidationRuleset::all()), "cuttlefish": verdict(m, ValidationRuleset::cuttlefish()),
           "babylon": verdict(m, ValidationRuleset::babylon_equivalent())})
}

/// validates the manifest under every rule set; executes it when `all` (v2/sub) or any rule set (v1/system) accepts
pub fn eval(w: &mut World, m: &J) -> J {
    let kind = m["kind"].as_str().unwrap();
    let pre = m["pre"].as_u64().unwrap();
    let nc = m["nc"].as_u64().unwrap();
    let abstract_ins = m["ins"].as_array().unwrap();
    let ins: Vec<InstructionV2> = abstract_ins.iter().map(|i| concrete(w, i)).collect();
    let mut blobs: IndexMap<Hash, Vec<u8>> = IndexMap::new();
    blobs.insert(hash(&w.blob), w.blob.clone());
    w.counter += 1;
    let n = w.counter;
    let proofs = vec![NonFungibleGlobalId::from_public_key(&w.pk)];
    // run-time environment around the manifest under test: fee, some XRD on the worktop, an XRD proof in the auth zone
    let prefix: Vec<InstructionV2> = vec![
        CallMethod { address: ManifestGlobalAddress::Static(FAUCET.into()), method_name: "lock_fee".to_string(), args: manifest_args!(dec!(5000)).into() }.into(),
        CallMethod { address: ManifestGlobalAddress::Static(FAUCET.into()), method_name: "free".to_string(), args: manifest_args!().into() }.into(),
        CallMethod { address: ManifestGlobalAddress::Static(w.account.into()), method_name: "create_proof_of_amount".to_string(), args: manifest_args!(XRD, dec!(1)).into() }.into(),
    ];
    let suffix: Vec<InstructionV2> = vec![CallMethod {
        address: ManifestGlobalAddress::Static(w.account.into()),
        method_name: "deposit_batch".to_string(),
        args: manifest_args!(ManifestExpression::EntireWorktop).into(),
    }
    .into()];
    let account = w.account;
    let simple_child = |b: &mut TestTransactionV2Builder| b.add_simple_subintent([], []);
    match kind {
        "v1" | "system" => {
            let v1: Result<Vec<InstructionV1>, _> = ins.iter().cloned().map(InstructionV1::try_from).collect();
            let Ok(v1) = v1 else { return json!({"skip": "not expressible in the V1 instruction set"}) };
            let around = |body: &Vec<InstructionV1>, with_fee: bool| -> Vec<InstructionV1> {
                let mut all: Vec<InstructionV1> = prefix.iter().skip(if with_fee { 0 } else { 1 }).cloned().map(|i| InstructionV1::try_from(i).unwrap()).collect();
                all.extend(body.iter().cloned());
                all.extend(suffix.iter().cloned().map(|i| InstructionV1::try_from(i).unwrap()));
                all
            };
            if kind == "v1" {
                let manifest = TransactionManifestV1 { instructions: v1.clone(), blobs: blobs.clone(), object_names: Default::default() };
                let st = verdicts(&manifest);
                let run = if st["all"] == "ok" || st["babylon"] == "ok" {
                    let exec = TransactionManifestV1 { instructions: around(&v1, true), blobs, object_names: Default::default() };
                    match catch(|| w.ledger.execute_manifest(exec, proofs)) {
                        Ok(r) => { let (c, e) = outcome(&r); json!({"cls": c, "err": e}) }
                        Err(e) => json!({"cls": "panic", "err": e}),
                    }
                } else { json!({"cls": "not-run", "err": ""}) };
                json!({"static": st, "run": run})
            } else {
                let mut addr = [0u8; 30];
                addr[0] = EntityType::GlobalAccount as u8;
                addr[1..9].copy_from_slice(&n.to_be_bytes());
                let pre_allocated: Vec<PreAllocatedAddress> = (0..pre).map(|k| {
                    let mut a = addr;
                    a[29] = k as u8;
                    PreAllocatedAddress { blueprint_id: BlueprintId::new(&ACCOUNT_PACKAGE, "Account"), address: GlobalAddress::new_or_panic(a) }
                }).collect();
                let manifest = SystemTransactionManifestV1 { instructions: v1.clone(), blobs: blobs.clone(), preallocated_addresses: pre_allocated.clone(), object_names: Default::default() };
                let st = verdicts(&manifest);
                let run = if st["all"] == "ok" || st["babylon"] == "ok" {
                    let exec = SystemTransactionManifestV1 { instructions: around(&v1, false), blobs, preallocated_addresses: pre_allocated, object_names: Default::default() };
                    let mut sys_proofs = proofs.clone();
                    sys_proofs.push(system_execution(SystemExecution::Protocol));
                    match catch(|| w.ledger.execute_system_transaction(exec, sys_proofs)) {
                        Ok(r) => { let (c, e) = outcome(&r); json!({"cls": c, "err": e}) }
                        Err(e) => json!({"cls": "panic", "err": e}),
                    }
                } else { json!({"cls": "not-run", "err": ""}) };
                json!({"static": st, "run": run})
            }
        }
        "v2" => {
            // children are declared with the hash the test builder will give the first subintent of this transaction
            let mut probe = TestTransaction::new_v2_builder(n as u32);
            let child_hashes: Vec<SubintentHash> = (0..nc).map(|_| simple_child(&mut probe)).collect();
            let children: IndexSet<ChildSubintentSpecifier> = child_hashes.iter().map(|h| ChildSubintentSpecifier { hash: *h }).collect();
            let manifest = TransactionManifestV2 { instructions: ins.clone(), blobs: blobs.clone(), children: children.clone(), object_names: Default::default() };
            let st = verdicts(&manifest);
            let run = if st["all"] == "ok" {
                let mut all = prefix.clone();
                all.extend(ins.iter().cloned());
                // a transaction is only well-structured if every declared child is yielded to (TransactionValidator
                // checks that, the manifest interpreter does not): do it after the manifest under test if it did not
                if nc > 0 && !abstract_ins.iter().any(|i| i["op"] == "yield_child") {
                    all.push(YieldToChild { child_index: ManifestNamedIntentIndex(0), args: manifest_args!().into() }.into());
                }
                all.extend(suffix.iter().cloned());
                let exec = TransactionManifestV2 { instructions: all, blobs, children, object_names: Default::default() };
                match catch(|| {
                    let mut b = TestTransaction::new_v2_builder(n as u32);
                    for _ in 0..nc { simple_child(&mut b); }
                    let tx = b.finish_with_root_intent(exec, proofs);
                    w.ledger.execute_test_transaction(tx)
                }) {
                    Ok(r) => { let (c, e) = outcome(&r); json!({"cls": c, "err": e}) }
                    Err(e) => json!({"cls": "panic", "err": e}),
                }
            } else { json!({"cls": "not-run", "err": ""}) };
            json!({"static": st, "run": run})
        }
        "sub" => {
            let mut probe = TestTransaction::new_v2_builder(n as u32);
            let grand: Vec<SubintentHash> = (0..nc).map(|_| simple_child(&mut probe)).collect();
            let children: IndexSet<ChildSubintentSpecifier> = grand.iter().map(|h| ChildSubintentSpecifier { hash: *h }).collect();
            let manifest = SubintentManifestV2 { instructions: ins.clone(), blobs: blobs.clone(), children: children.clone(), object_names: Default::default() };
            let st = verdicts(&manifest);
            let run = if st["all"] == "ok" && nc > 0 && !abstract_ins.iter().any(|i| i["op"] == "yield_child") {
                // a declared child that is never yielded to is refused by the TransactionValidator: not a runnable transaction
                json!({"cls": "not-run", "err": "declared child never used"})
            } else if st["all"] == "ok" {
                let yields = abstract_ins.iter().filter(|i| i["op"] == "yield_parent").count();
                match catch(|| {
                    let mut b = TestTransaction::new_v2_builder(n as u32);
                    for _ in 0..nc { simple_child(&mut b); }
                    let sub = b.add_subintent(manifest, proofs.clone());
                    // the root funds the subintent's worktop with the first yield and resumes it after every YIELD_TO_PARENT
                    let mut root = ManifestBuilder::new_v2().lock_fee_from_faucet().get_free_xrd_from_faucet().use_child("sub", sub);
                    root = root.take_all_from_worktop(XRD, "funds").yield_to_child("sub", manifest_args!(ManifestBucket(0)));
                    for _ in 1..yields.max(1) {
                        root = root.yield_to_child("sub", ());
                    }
                    let root = root.deposit_entire_worktop(account).build();
                    let tx = b.finish_with_root_intent(root, proofs);
                    w.ledger.execute_test_transaction(tx)
                }) {
                    Ok(r) => { let (c, e) = outcome(&r); json!({"cls": c, "err": e}) }
                    Err(e) => json!({"cls": "panic", "err": e}),
                }
            } else { json!({"cls": "not-run", "err": ""}) };
            json!({"static": st, "run": run})
        }
        _ => panic!("kind"),
    }
}

pub fn run(mode: &str, args: &Args) {
    match mode {
        "replay" => replay(),
        "record" => record(args),
        _ => panic!("mode"),
    }
}

/// G case: {m, ok_all, ok_bab, lerr_all: [...], lerr_bab: [...]}
fn replay() {
    let cases = read_lines();
    let mut out = Out::new();
    let mut w = world();
    let mut steps = 0usize;
    let mut counts: std::collections::BTreeMap<String, usize> = Default::default();
    let mut mm = |out: &mut Out, counts: &mut std::collections::BTreeMap<String, usize>, i: usize, what: &str, exp: J, got: J, report: bool| {
        let n = counts.entry(what.to_string()).or_insert(0);
        *n += 1;
        if report && *n <= 20 {
            out.mismatch(i, 0, what, exp, got);
        }
    };
    for (i, c) in cases.iter().enumerate() {
        let r = eval(&mut w, &c["m"]);
        if r.get("skip").is_some() {
            *counts.entry("skipped".to_string()).or_insert(0) += 1;
            continue;
        }
        steps += 1;
        let babylon_applies = c["m"]["kind"] == "v1" || c["m"]["kind"] == "system";
        for (rules, ok_key, lerr_key) in [("all", "ok_all", "lerr_all"), ("cuttlefish", "ok_all", "lerr_all"), ("babylon", "ok_bab", "lerr_bab")] {
            if rules == "babylon" && !babylon_applies {
                continue;
            }
            let accepted = r["static"][rules] == "ok";
            let ok = c[ok_key].as_bool().unwrap();
            if r["static"][rules] == "panic" {
                mm(&mut out, &mut counts, i, "panic in static validation", json!("no panic"), r["static"].clone(), true);
            }
            if accepted && !ok {
                mm(&mut out, &mut counts, i, &format!("static validation ({}) accepts an ill-formed manifest", rules), json!("reject"), r["static"].clone(), true);
            } else if !accepted && ok {
                // information only: the property is one-directional
                mm(&mut out, &mut counts, i, &format!("info: static validation ({}) rejects a well-formed manifest", rules), json!("ok"), r["static"].clone(), false);
            }
            if accepted {
                let cls = r["run"]["cls"].as_str().unwrap().to_string();
                *counts.entry(format!("run:{}", r["run"]["cls"].as_str().unwrap())).or_insert(0) += 1;
                if cls == "panic" {
                    mm(&mut out, &mut counts, i, "panic at run time", json!("no panic"), r["run"].clone(), true);
                }
                if c[lerr_key].as_array().unwrap().iter().any(|x| x == &json!(cls)) {
                    mm(&mut out, &mut counts, i, &format!("accepted manifest ({}) fails at run time with an id-lifecycle error", rules), json!("no lifecycle error"), r["run"].clone(), true);
                }
            }
        }
    }
    let counts = json!(counts);
    out.emit(&json!({"counts": counts}));
    out.done(cases.len(), steps);
}

// ---------------------------------------------------------------------------------------------
// T: random longer manifests, biased towards well-formed ones with injected faults

fn gen_manifest(rng: &mut StdRng) -> J {
    let kind = ["v1", "v2", "v2", "sub", "sub", "system"][rng.gen_range(0..6)];
    let v2 = kind == "v2" || kind == "sub";
    let pre = if kind == "system" { rng.gen_range(0..2) } else { 0 };
    let nc = if v2 { rng.gen_range(0..2) } else { 0 };
    let len = rng.gen_range(2..12);
    // tracked state so that most instructions are well-formed
    let mut live_b: Vec<u32> = vec![];
    let mut nb = 0u32;
    #[allow(unused_assignments)]
    let mut live_p: Vec<(u32, i64)> = vec![]; // (proof, source bucket or -1)
    let mut np = 0u32;
    let mut live_r: Vec<u32> = (0..pre as u32).collect();
    let mut nr = pre as u32;
    let mut na = 0u32;
    let mut ins: Vec<J> = vec![];
    let fault = rng.gen_bool(0.45);
    let fault_at = rng.gen_range(0..len);
    let mut step = 0;
    while step < len {
        let inject = fault && step == fault_at;
        step += 1;
        let unlocked: Vec<u32> = live_b.iter().cloned().filter(|b| !live_p.iter().any(|(_, s)| *s == *b as i64)).collect();
        let lp: Vec<u32> = live_p.iter().map(|x| x.0).collect();
        // a wrong id: unknown, or known but already consumed
        let wrong = |rng: &mut StdRng, live: &Vec<u32>, n: u32| -> u32 {
            let dead: Vec<u32> = (0..n).filter(|x| !live.contains(x)).collect();
            if !dead.is_empty() && rng.gen_bool(0.6) { dead[rng.gen_range(0..dead.len())] } else { n + rng.gen_range(0..2) }
        };
        let choice = rng.gen_range(0..if v2 { 17 } else { 13 });
        let i = match choice {
            2 if inject || !unlocked.is_empty() => {
                let b = if inject { if !live_b.is_empty() && live_b.len() > unlocked.len() && rng.gen_bool(0.5) { *live_b.iter().find(|b| !unlocked.contains(b)).unwrap() } else { wrong(rng, &live_b, nb) } } else { unlocked[rng.gen_range(0..unlocked.len())] };
                live_b.retain(|x| *x != b);
                json!({"op": if rng.gen_bool(0.8) { "return" } else { "burn" }, "b": b})
            }
            3 if inject || !live_b.is_empty() => {
                let b = if inject { wrong(rng, &live_b, nb) } else { live_b[rng.gen_range(0..live_b.len())] };
                if live_b.contains(&b) { live_p.push((np, b as i64)); }
                np += 1;
                json!({"op": "proof_b", "b": b})
            }
            4 => { live_p.push((np, -1)); np += 1; json!({"op": if rng.gen_bool(0.5) { "pop" } else { "proof_az" }}) }
            5 if inject || !lp.is_empty() => {
                let p = if inject { wrong(rng, &lp, np) } else { lp[rng.gen_range(0..lp.len())] };
                live_p.retain(|x| x.0 != p);
                json!({"op": if rng.gen_bool(0.5) { "drop" } else { "push" }, "p": p})
            }
            6 if inject || !lp.is_empty() => {
                let p = if inject { wrong(rng, &lp, np) } else { lp[rng.gen_range(0..lp.len())] };
                if let Some(src) = live_p.iter().find(|x| x.0 == p).map(|x| x.1) { live_p.push((np, src)); }
                np += 1;
                json!({"op": "clone", "p": p})
            }
            7 => { live_p.clear(); json!({"op": if rng.gen_bool(0.6) { "drop_all" } else { "drop_named" }}) }
            8 => { live_r.push(nr); nr += 1; na += 1; json!({"op": "alloc"}) }
            9 | 10 => {
                let mut bs = vec![];
                for b in unlocked.iter() { if rng.gen_bool(0.6) { bs.push(*b); } }
                if inject { if !bs.is_empty() && rng.gen_bool(0.3) { bs.push(bs[0]); } else { bs.push(wrong(rng, &unlocked, nb)); } }
                live_b.retain(|x| !bs.contains(x));
                json!({"op": "call", "tgt": -1, "bs": bs, "ps": [], "rs": [], "as": [], "blob": 0})
            }
            11 if inject || !live_r.is_empty() => {
                let r = if inject { wrong(rng, &live_r, nr) } else { live_r[rng.gen_range(0..live_r.len())] };
                live_r.retain(|x| *x != r);
                json!({"op": "call", "tgt": -1, "bs": [], "ps": [], "rs": [r], "as": [], "blob": 0})
            }
            12 => {
                let ps = if !lp.is_empty() && rng.gen_bool(0.4) { vec![lp[0]] } else { vec![] };
                live_p.retain(|x| !ps.contains(&x.0));
                let named = if inject && rng.gen_bool(0.5) { vec![na + rng.gen_range(0..2)] } else if na > 0 && rng.gen_bool(0.4) { vec![rng.gen_range(0..na)] } else { vec![] };
                let tgt: i64 = if inject && rng.gen_bool(0.3) { na as i64 } else if na > 0 && rng.gen_bool(0.15) { rng.gen_range(0..na) as i64 } else { -1 };
                let blob = if inject && rng.gen_bool(0.4) { 2 } else { [0, 0, 1][rng.gen_range(0..3)] };
                json!({"op": "call", "tgt": tgt, "bs": [], "ps": ps, "rs": [], "as": named, "blob": blob})
            }
            13 => {
                ins.push(json!({"op": "assert_next"}));
                if inject { json!({"op": "take"}) } else { json!({"op": "call", "tgt": -1, "bs": [], "ps": [], "rs": [], "as": [], "blob": 0}) }
            }
            14 if inject || !live_b.is_empty() => {
                let b = if inject { wrong(rng, &live_b, nb) } else { live_b[rng.gen_range(0..live_b.len())] };
                json!({"op": "assert_bucket", "b": b})
            }
            15 if inject || kind == "sub" || nc > 0 => {
                let mut bs = vec![];
                for b in unlocked.iter() { if rng.gen_bool(0.5) { bs.push(*b); } }
                live_b.retain(|x| !bs.contains(x));
                let ps: Vec<u32> = if inject && !lp.is_empty() && rng.gen_bool(0.5) { vec![lp[0]] } else { vec![] };
                let to_parent = if inject { rng.gen_bool(0.5) } else { kind == "sub" && (nc == 0 || rng.gen_bool(0.5)) };
                if to_parent { json!({"op": "yield_parent", "bs": bs, "ps": ps}) } else { json!({"op": "yield_child", "child": if inject && rng.gen_bool(0.5) { nc } else { 0 }, "bs": bs, "ps": ps}) }
            }
            16 if inject || kind == "sub" => json!({"op": "verify_parent"}),
            _ => { live_b.push(nb); nb += 1; if inject { ins.push(json!({"op": "return", "b": wrong(rng, &live_b, nb)})); } json!({"op": "take"}) }
        };
        if i["op"] == "take" && ins.last().map(|x| x["op"] == "return").unwrap_or(false) && inject {
            // keep creation order consistent: the injected wrong return came after this take was counted
            let bad = ins.pop().unwrap();
            ins.push(i);
            ins.push(bad);
            continue;
        }
        ins.push(i);
    }
    // mostly tidy endings: drop proofs, deposit what is left, use the reservations, end subintents properly
    if rng.gen_bool(0.8) {
        if !live_p.is_empty() { ins.push(json!({"op": "drop_all"})); }
        if !live_b.is_empty() { ins.push(json!({"op": "call", "tgt": -1, "bs": live_b, "ps": [], "rs": [], "as": [], "blob": 0})); }
        for r in live_r { ins.push(json!({"op": "call", "tgt": -1, "bs": [], "ps": [], "rs": [r], "as": [], "blob": 0})); }
        if kind == "sub" { ins.push(json!({"op": "yield_parent", "bs": [], "ps": []})); }
    }
    json!({"kind": kind, "pre": pre, "nc": nc, "ins": ins})
}

/// hand-picked boundary sequences (first / last use, consume-then-use, lock and unlock through clones and
/// drop-all, exactly dangling, shape rules), each instantiated for every manifest kind configuration
fn scenarios() -> Vec<J> {
    let call = |bs: Vec<u32>, ps: Vec<u32>, rs: Vec<u32>, named: Vec<u32>, tgt: i64, blob: u32| json!({"op": "call", "tgt": tgt, "bs": bs, "ps": ps, "rs": rs, "as": named, "blob": blob});
    let dep = |bs: Vec<u32>| call(bs, vec![], vec![], vec![], -1, 0);
    let i = |op: &str| json!({"op": op});
    let b = |op: &str, x: u32| json!({"op": op, "b": x});
    let p = |op: &str, x: u32| json!({"op": op, "p": x});
    let bodies: Vec<(&str, Vec<J>)> = vec![
        ("empty", vec![]),
        ("take-deposit", vec![i("take"), dep(vec![0])]),
        ("take-dangling", vec![i("take")]),
        ("use-before-create", vec![dep(vec![0]), i("take")]),
        ("double-consume", vec![i("take"), b("return", 0), b("return", 0)]),
        ("consume-twice-in-one-call", vec![i("take"), dep(vec![0, 0])]),
        ("use-after-consume", vec![i("take"), b("return", 0), b("proof_b", 0)]),
        ("second-bucket-first-consumed", vec![i("take"), b("return", 0), i("take"), dep(vec![1])]),
        ("locked-return", vec![i("take"), b("proof_b", 0), b("return", 0)]),
        ("locked-deposit", vec![i("take"), b("proof_b", 0), dep(vec![0])]),
        ("unlock-by-drop", vec![i("take"), b("proof_b", 0), p("drop", 0), dep(vec![0])]),
        ("unlock-by-push", vec![i("take"), b("proof_b", 0), p("push", 0), dep(vec![0])]),
        ("clone-keeps-lock", vec![i("take"), b("proof_b", 0), p("clone", 0), p("drop", 0), dep(vec![0])]),
        ("clone-both-dropped", vec![i("take"), b("proof_b", 0), p("clone", 0), p("drop", 0), p("drop", 1), dep(vec![0])]),
        ("unlock-by-drop-all", vec![i("take"), b("proof_b", 0), p("clone", 0), i("drop_all"), dep(vec![0])]),
        ("unlock-by-drop-named", vec![i("take"), b("proof_b", 0), i("drop_named"), dep(vec![0])]),
        ("unlock-by-passing-proof", vec![i("take"), b("proof_b", 0), call(vec![], vec![0], vec![], vec![], -1, 0), dep(vec![0])]),
        ("proof-after-drop-all", vec![i("pop"), i("drop_all"), p("drop", 0)]),
        ("proof-double-drop", vec![i("proof_az"), p("drop", 0), p("drop", 0)]),
        ("clone-of-dropped", vec![i("pop"), p("drop", 0), p("clone", 0)]),
        ("proof-never-created", vec![p("push", 0)]),
        ("proof-left-alive", vec![i("pop")]),
        ("alloc-used", vec![i("alloc"), call(vec![], vec![], vec![0], vec![], -1, 0)]),
        ("alloc-dangling", vec![i("alloc")]),
        ("reservation-twice", vec![i("alloc"), call(vec![], vec![], vec![0], vec![], -1, 0), call(vec![], vec![], vec![0], vec![], -1, 0)]),
        ("reservation-before-alloc", vec![call(vec![], vec![], vec![0], vec![], -1, 0), i("alloc")]),
        ("named-arg-before-alloc", vec![call(vec![], vec![], vec![], vec![0], -1, 0)]),
        ("named-target-before-alloc", vec![call(vec![], vec![], vec![], vec![], 0, 0)]),
        ("named-after-alloc", vec![i("alloc"), call(vec![], vec![], vec![0], vec![0], -1, 0)]),
        ("blob-declared", vec![call(vec![], vec![], vec![], vec![], -1, 1)]),
        ("blob-undeclared", vec![call(vec![], vec![], vec![], vec![], -1, 2)]),
        ("assert-next-then-call", vec![i("assert_next"), dep(vec![])]),
        ("assert-next-then-take", vec![i("assert_next"), i("take"), dep(vec![0])]),
        ("assert-next-at-end", vec![i("assert_next")]),
        ("assert-bucket-live", vec![i("take"), b("assert_bucket", 0), dep(vec![0])]),
        ("assert-bucket-consumed", vec![i("take"), dep(vec![0]), b("assert_bucket", 0)]),
        ("assert-bucket-unknown", vec![b("assert_bucket", 0)]),
        ("verify-parent", vec![i("verify_parent")]),
        ("yield-parent-bucket", vec![i("take"), json!({"op": "yield_parent", "bs": [0], "ps": []})]),
        ("yield-parent-proof", vec![i("pop"), json!({"op": "yield_parent", "bs": [], "ps": [0]})]),
        ("yield-parent-middle", vec![json!({"op": "yield_parent", "bs": [], "ps": []}), i("take"), dep(vec![0])]),
        ("yield-child-0", vec![json!({"op": "yield_child", "child": 0, "bs": [], "ps": []})]),
        ("yield-child-1", vec![json!({"op": "yield_child", "child": 1, "bs": [], "ps": []})]),
        ("yield-child-bucket", vec![i("take"), json!({"op": "yield_child", "child": 0, "bs": [0], "ps": []})]),
        ("yield-child-proof", vec![i("pop"), json!({"op": "yield_child", "child": 0, "bs": [], "ps": [0]})]),
        ("yield-child-locked-bucket", vec![i("take"), b("proof_b", 0), json!({"op": "yield_child", "child": 0, "bs": [0], "ps": []})]),
        ("burn", vec![i("take"), b("burn", 0)]),
    ];
    let configs = [("v1", 0, 0), ("system", 0, 0), ("system", 1, 0), ("v2", 0, 0), ("v2", 0, 1), ("sub", 0, 0), ("sub", 0, 1)];
    let mut out = vec![];
    // ---- invalidation product: after a common prefix (buckets 0, 1; auth-zone proof 0; proof 1 locking bucket 1; reservation 0 and
    // named address 0) EVERY instruction that invalidates names - explicitly, in bulk or by passing them on - is followed by a use of
    // each kind of name (those it must have invalidated and those it must not).  StaticOK decides; accepted ones are executed.
    {
        struct T { b: Vec<u32>, p: Vec<(u32, i64)>, np: u32, nb: u32, r: Vec<u32> }
        fn apply(t: &mut T, i: &J) {
            let ids = |k: &str| -> Vec<u32> { i.get(k).and_then(|x| x.as_array()).map(|a| a.iter().map(|x| x.as_u64().unwrap() as u32).collect()).unwrap_or_default() };
            match i["op"].as_str().unwrap() {
                "take" => { t.b.push(t.nb); t.nb += 1; }
                "return" | "burn" => { let b = i["b"].as_u64().unwrap() as u32; t.b.retain(|x| *x != b); }
                "proof_b" => { t.p.push((t.np, i["b"].as_i64().unwrap())); t.np += 1; }
                "pop" | "proof_az" => { t.p.push((t.np, -1)); t.np += 1; }
                "push" | "drop" => { let p = i["p"].as_u64().unwrap() as u32; t.p.retain(|x| x.0 != p); }
                "clone" => { let p = i["p"].as_u64().unwrap() as u32; if let Some(src) = t.p.iter().find(|x| x.0 == p).map(|x| x.1) { t.p.push((t.np, src)); } t.np += 1; }
                "drop_all" | "drop_named" => t.p.clear(),
                "alloc" => t.r.push(t.r.len() as u32),
                "call" | "yield_parent" | "yield_child" => {
                    let (bs, ps, rs) = (ids("bs"), ids("ps"), ids("rs"));
                    t.b.retain(|x| !bs.contains(x));
                    t.p.retain(|x| !ps.contains(&x.0));
                    t.r.retain(|x| !rs.contains(x));
                }
                _ => {}
            }
        }
        let prefix = vec![i("take"), i("take"), i("pop"), b("proof_b", 1), i("alloc")];
        let invalidators: Vec<(&str, Vec<J>)> = vec![
            ("nothing", vec![]),
            ("drop_all", vec![i("drop_all")]), ("drop_named", vec![i("drop_named")]),
            ("drop_az", vec![i("drop_az")]), ("drop_az_regular", vec![i("drop_az_regular")]), ("drop_az_sig", vec![i("drop_az_sig")]),
            ("return-b0", vec![b("return", 0)]), ("burn-b0", vec![b("burn", 0)]), ("deposit-b0", vec![dep(vec![0])]),
            ("pass-p0", vec![call(vec![], vec![0], vec![], vec![], -1, 0)]), ("pass-p1", vec![call(vec![], vec![1], vec![], vec![], -1, 0)]),
            ("push-p0", vec![p("push", 0)]), ("push-p1", vec![p("push", 1)]), ("drop-p0", vec![p("drop", 0)]), ("drop-p1", vec![p("drop", 1)]),
            ("use-r0", vec![call(vec![], vec![], vec![0], vec![], -1, 0)]),
            ("clone-p1-drop-p1", vec![p("clone", 1), p("drop", 1)]), ("clone-p0", vec![p("clone", 0)]),
            ("take-more", vec![i("take")]),
            ("yield-parent-b0", vec![json!({"op": "yield_parent", "bs": [0], "ps": []})]),
            ("yield-child-b0", vec![json!({"op": "yield_child", "child": 0, "bs": [0], "ps": []})]),
            ("assert-bucket-b0", vec![b("assert_bucket", 0)]),
        ];
        let probes: Vec<(&str, J)> = vec![
            ("assert-b0", b("assert_bucket", 0)), ("proof-of-b0", b("proof_b", 0)), ("return-b0", b("return", 0)), ("return-b1", b("return", 1)),
            ("deposit-b1", dep(vec![1])), ("clone-p0", p("clone", 0)), ("drop-p0", p("drop", 0)), ("clone-p1", p("clone", 1)), ("push-p1", p("push", 1)),
            ("pass-p0", call(vec![], vec![0], vec![], vec![], -1, 0)), ("use-r0", call(vec![], vec![], vec![0], vec![], -1, 0)),
            ("named-arg-a0", call(vec![], vec![], vec![], vec![0], -1, 0)), ("named-target-a0", call(vec![], vec![], vec![], vec![], 0, 0)),
        ];
        for (iname, inv) in invalidators.iter() {
            for (pname, probe) in probes.iter() {
                for (kind, pre, nc) in [("v1", 0, 0), ("v2", 0, 1), ("sub", 0, 1)] {
                    let mut t = T { b: vec![], p: vec![], np: 0, nb: 0, r: vec![] };
                    let mut ins: Vec<J> = prefix.clone();
                    ins.extend(inv.iter().cloned());
                    ins.push(probe.clone());
                    for x in ins.iter() { apply(&mut t, x); }
                    // tidy ending computed from what is still alive when everything before was well-formed
                    if !t.p.is_empty() { ins.push(i("drop_named")); }
                    if !t.b.is_empty() { ins.push(dep(t.b.clone())); }
                    for r in t.r.iter() { ins.push(call(vec![], vec![], vec![*r], vec![], -1, 0)); }
                    if kind == "sub" { ins.push(json!({"op": "yield_parent", "bs": [], "ps": []})); }
                    out.push(json!({"scenario": format!("inv:{}:{}", iname, pname), "kind": kind, "pre": pre, "nc": nc, "ins": ins}));
                }
            }
        }
    }
    for (name, body) in bodies.iter() {
        for (kind, pre, nc) in configs {
            let mut ins = body.clone();
            let mut variants = vec![ins.clone()];
            if kind == "sub" {
                // a subintent with and without its closing YIELD_TO_PARENT
                ins.push(json!({"op": "yield_parent", "bs": [], "ps": []}));
                variants.push(ins);
            }
            if kind == "system" && pre == 1 {
                // the pre-allocated reservation consumed / left dangling
                let mut used = body.clone();
                let shift = |j: &J| -> J { let mut j = j.clone(); if j["op"] == "call" { let rs: Vec<u64> = j["rs"].as_array().unwrap().iter().map(|x| x.as_u64().unwrap() + 1).collect(); j["rs"] = json!(rs); } j };
                used = used.iter().map(shift).collect();
                used.push(call(vec![], vec![], vec![0], vec![], -1, 0));
                variants.push(used);
            }
            for v in variants {
                out.push(json!({"scenario": name, "kind": kind, "pre": pre, "nc": nc, "ins": v}));
            }
        }
    }
    out
}

fn record(args: &Args) {
    let seed = args.u64("seed", 1);
    let n = args.u64("n", 500);
    let mut rng = StdRng::seed_from_u64(seed);
    let mut out = Out::new();
    let mut w = world();
    let mut done = 0;
    for sc in scenarios() {
        let m = json!({"kind": sc["kind"], "pre": sc["pre"], "nc": sc["nc"], "ins": sc["ins"]});
        let r = eval(&mut w, &m);
        if r.get("skip").is_some() {
            continue;
        }
        out.emit(&json!({"m": m, "scenario": sc["scenario"], "static": r["static"], "run": r["run"]}));
    }
    while done < n {
        let m = gen_manifest(&mut rng);
        let r = eval(&mut w, &m);
        if r.get("skip").is_some() {
            continue;
        }
        out.emit(&json!({"m": m, "static": r["static"], "run": r["run"]}));
        done += 1;
    }
    out.flush();
}

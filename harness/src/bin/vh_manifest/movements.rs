//! C38 — the static resource-movement analyser (StaticResourceMovementsVisitor) against real
//! executions.  For seeded manifests over three accounts and three resources the harness logs
//! what the analyser predicts (resolve_account_deposits / resolve_account_withdraws) and what
//! actually happened on two ledger states (account events, vault balances before / after), all
//! amounts scaled by 4 (only multiples of 1/2 are used).  TraceMovements.tla decides containment
//! with Sat of Constraint.tla.
use radix_engine::blueprints::account::{DepositEvent, WithdrawEvent};
use radix_transactions::manifest::static_resource_movements::*;
use radix_transactions::manifest::*;
use rand::prelude::*;
use scrypto_test::prelude::*;
use serde_json::{json, Map, Value as J};
use vh::util::*;
use vh::Args;

struct World {
    ledger: DefaultLedgerSimulator,
    pks: [Secp256k1PublicKey; 3],
    accounts: [ComponentAddress; 3], // A (source), B, C - all three sign (plain deposits need the receiver's authority)
    res: [ResourceAddress; 3],       // F (fungible), N (non-fungible #1# #2# #3#), X = XRD
    locker: ComponentAddress,        // an AccountLocker holding 5000 F claimable by A
    locker_badge: ResourceAddress,
}
const ACC: [&str; 3] = ["A", "B", "C"];
const RES: [&str; 3] = ["F", "N", "X"];

fn world(b_rejects: bool) -> World {
    let mut ledger = LedgerSimulatorBuilder::new().build();
    let (pk, _, a) = ledger.new_allocated_account();
    let (pkb, _, b) = ledger.new_allocated_account();
    let (pkc, _, c) = ledger.new_allocated_account();
    let f = ledger.create_freely_mintable_and_burnable_fungible_resource(OwnerRole::None, Some(dec!(1000000)), DIVISIBILITY_MAXIMUM, a);
    let n = ledger.create_non_fungible_resource(a);
    if b_rejects {
        let m = ManifestBuilder::new()
            .lock_fee_from_faucet()
            .call_method(b, ACCOUNT_SET_DEFAULT_DEPOSIT_RULE_IDENT, AccountSetDefaultDepositRuleInput { default: DefaultDepositRule::Reject })
            .build();
        ledger.execute_manifest(m, vec![NonFungibleGlobalId::from_public_key(&pkb)]).expect_commit_success();
    }
    // an account locker (instantiate_simple: one badge for every role, kept by A) with 5000 F stored for claimant A
    let receipt = ledger.execute_manifest(
        ManifestBuilder::new()
            .lock_fee_from_faucet()
            .call_function(LOCKER_PACKAGE, ACCOUNT_LOCKER_BLUEPRINT, ACCOUNT_LOCKER_INSTANTIATE_SIMPLE_IDENT, AccountLockerInstantiateSimpleManifestInput { allow_recover: true })
            .deposit_entire_worktop(a)
            .build(),
        vec![NonFungibleGlobalId::from_public_key(&pk)],
    );
    let commit = receipt.expect_commit_success();
    let locker = commit.new_component_addresses()[0];
    let locker_badge = commit.new_resource_addresses()[0];
    ledger
        .execute_manifest(
            ManifestBuilder::new()
                .lock_fee_from_faucet()
                .create_proof_from_account_of_amount(a, locker_badge, dec!(1))
                .withdraw_from_account(a, f, dec!(5000))
                .take_all_from_worktop(f, "stored")
                .with_bucket("stored", |builder, bucket| {
                    builder.call_method(locker, ACCOUNT_LOCKER_STORE_IDENT, AccountLockerStoreManifestInput { claimant: a.into(), bucket, try_direct_send: false })
                })
                .build(),
            vec![NonFungibleGlobalId::from_public_key(&pk)],
        )
        .expect_commit_success();
    World { ledger, pks: [pk, pkb, pkc], accounts: [a, b, c], res: [f, n, XRD], locker, locker_badge }
}

fn q(d: Decimal) -> Option<i64> {
    // amount * 4 as an integer (None when it is not a multiple of 1/4 or too large for the model)
    let x = d.checked_mul(Decimal::from(4))?;
    if x.checked_floor()? != x {
        return None;
    }
    let s = x.to_string();
    s.parse::<i64>().ok().filter(|v| v.abs() < 1_000_000_000)
}
fn ids_json(ids: &IndexSet<NonFungibleLocalId>) -> Option<J> {
    let mut v = vec![];
    for id in ids {
        match id {
            NonFungibleLocalId::Integer(i) => v.push(i.value()),
            _ => return None,
        }
    }
    v.sort();
    Some(json!(v))
}

fn lo_json(l: &LowerBound) -> Option<J> {
    Some(match l {
        LowerBound::NonZero => json!({"k": "nonzero"}),
        LowerBound::Inclusive(d) => json!({"k": "incl", "a": q(*d)?}),
    })
}
fn hi_json(u: &UpperBound) -> Option<J> {
    Some(match u {
        UpperBound::Unbounded => json!({"k": "unb"}),
        UpperBound::Inclusive(d) => json!({"k": "incl", "a": q(*d)?}),
    })
}
/// SimpleResourceBounds -> a "general" constraint record of Constraint.tla
fn bounds_json(b: &SimpleResourceBounds) -> Option<J> {
    let g = |req: J, lo: J, hi: J, allow: J| json!({"t": "general", "req": req, "lo": lo, "hi": hi, "allow": allow});
    let incl = |d: &Decimal| -> Option<J> { Some(json!({"k": "incl", "a": q(*d)?})) };
    Some(match b {
        SimpleResourceBounds::Fungible(f) => match f {
            SimpleFungibleResourceBounds::Exact(x) => g(json!([]), incl(x)?, incl(x)?, json!({"k": "any"})),
            SimpleFungibleResourceBounds::AtMost(x) => g(json!([]), json!({"k": "incl", "a": 0}), incl(x)?, json!({"k": "any"})),
            SimpleFungibleResourceBounds::AtLeast(x) => g(json!([]), incl(x)?, json!({"k": "unb"}), json!({"k": "any"})),
            SimpleFungibleResourceBounds::Between(x, y) => g(json!([]), incl(x)?, incl(y)?, json!({"k": "any"})),
            SimpleFungibleResourceBounds::UnknownAmount => g(json!([]), json!({"k": "incl", "a": 0}), json!({"k": "unb"}), json!({"k": "any"})),
        },
        SimpleResourceBounds::NonFungible(n) => match n {
            SimpleNonFungibleResourceBounds::Exact { amount, certain_ids } => {
                g(ids_json(certain_ids)?, incl(amount)?, incl(amount)?, json!({"k": "list", "ids": ids_json(certain_ids)?}))
            }
            SimpleNonFungibleResourceBounds::NotExact { certain_ids, lower_bound, upper_bound, allowed_ids } => g(
                ids_json(certain_ids)?,
                lo_json(lower_bound)?,
                hi_json(upper_bound)?,
                match allowed_ids {
                    AllowedIds::Any => json!({"k": "any"}),
                    AllowedIds::Allowlist(l) => json!({"k": "list", "ids": ids_json(l)?}),
                },
            ),
        },
    })
}

// ---------------------------------------------------------------------------------------------
// manifest generation: abstract steps -> builder

fn gen_steps(rng: &mut StdRng) -> Vec<J> {
    let amts = [0.5f64, 1.0, 1.5, 2.0, 3.0];
    let mut steps: Vec<J> = vec![];
    let mut buckets: Vec<(String, usize)> = vec![]; // live buckets (name, resource)
    let mut nb = 0;
    let mut used_sink = [false; 3];
    // sources
    for _ in 0..rng.gen_range(1..4) {
        match rng.gen_range(0..5) {
            0 | 1 => steps.push(json!({"op": "withdraw", "res": 0, "amt": amts[rng.gen_range(0..5)]})),
            2 => {
                let ids: Vec<u64> = (1..=3).filter(|_| rng.gen_bool(0.5)).collect();
                steps.push(json!({"op": "withdraw_nf", "ids": ids}));
            }
            3 => steps.push(json!({"op": "free"})),
            _ => steps.push(json!({"op": "withdraw", "res": 2, "amt": amts[rng.gen_range(0..5)]})),
        }
    }
    // worktop handling, assertions, deposits to B / C
    for _ in 0..rng.gen_range(1..7) {
        let r = rng.gen_range(0..3usize);
        match rng.gen_range(0..12) {
            0 | 1 => { let n = format!("b{}", nb); nb += 1; buckets.push((n.clone(), r)); steps.push(json!({"op": "take_all", "res": r, "b": n})); }
            2 | 3 if r != 1 => { let n = format!("b{}", nb); nb += 1; buckets.push((n.clone(), r)); steps.push(json!({"op": "take", "res": r, "amt": amts[rng.gen_range(0..3)], "b": n})); }
            4 => { let n = format!("b{}", nb); nb += 1; buckets.push((n.clone(), 1)); let ids: Vec<u64> = (1..=3).filter(|_| rng.gen_bool(0.4)).collect(); steps.push(json!({"op": "take_nf", "ids": ids, "b": n})); }
            5 if !buckets.is_empty() => { let (n, _) = buckets.remove(rng.gen_range(0..buckets.len())); steps.push(json!({"op": "return", "b": n})); }
            6 => steps.push(json!({"op": "assert_contains", "res": r, "amt": if r == 1 { 1.0 } else { amts[rng.gen_range(0..3)] }})),
            7 => steps.push(json!({"op": if rng.gen_bool(0.5) { "assert_include" } else { "assert_only_all" }, "res": r, "amt": if r == 1 { 1.0 } else { amts[rng.gen_range(0..2)] }})),
            8 | 9 | 10 => {
                let acct = 1 + rng.gen_range(0..2usize);
                if used_sink[acct] { continue; }
                used_sink[acct] = true;
                let how = ["deposit", "try_refund", "try_abort", "batch", "batch_refund", "worktop"][rng.gen_range(0..6)];
                if how == "worktop" {
                    steps.push(json!({"op": "deposit_worktop", "acct": acct}));
                } else if how.starts_with("batch") {
                    let names: Vec<String> = buckets.drain(..).map(|x| x.0).collect();
                    steps.push(json!({"op": how, "acct": acct, "bs": names}));
                } else if !buckets.is_empty() {
                    let (n, _) = buckets.remove(rng.gen_range(0..buckets.len()));
                    steps.push(json!({"op": how, "acct": acct, "b": n}));
                } else {
                    used_sink[acct] = false;
                }
            }
            _ => { if let Some((n, _)) = buckets.last().cloned() { steps.push(json!({"op": "assert_bucket", "b": n, "amt": 0.5})); } }
        }
    }
    for (n, _) in buckets { steps.push(json!({"op": "return", "b": n})); }
    steps.push(json!({"op": "deposit_worktop", "acct": 0}));
    steps
}

fn build(w: &World, steps: &[J]) -> TransactionManifestV2 {
    // the faucet's lock_fee is an untyped call for the analyser (worktop "may hold unspecified resources", upper
    // bounds open); scenarios marked `nofaucet` pay from account A instead, so that the worktop is known exactly
    let mut mb = if steps.iter().any(|s| s["op"] == "nofaucet") { ManifestBuilder::new_v2() } else { ManifestBuilder::new_v2().lock_fee_from_faucet() };
    let d = |x: &J| Decimal::try_from(x.as_f64().unwrap().to_string().as_str()).unwrap();
    let ids = |x: &J| -> Vec<NonFungibleLocalId> { x.as_array().unwrap().iter().map(|i| NonFungibleLocalId::integer(i.as_u64().unwrap())).collect() };
    for s in steps {
        let res = s.get("res").and_then(|r| r.as_u64()).map(|r| w.res[r as usize]);
        let acct = s.get("acct").and_then(|r| r.as_u64()).map(|r| w.accounts[r as usize]);
        let bname = s.get("b").and_then(|b| b.as_str()).unwrap_or("").to_string();
        mb = match s["op"].as_str().unwrap() {
            "withdraw" => mb.withdraw_from_account(w.accounts[0], res.unwrap(), d(&s["amt"])),
            "withdraw_nf" => mb.withdraw_non_fungibles_from_account(w.accounts[0], w.res[1], ids(&s["ids"])),
            "free" => mb.get_free_xrd_from_faucet(),
            "lock_fee_withdraw" => mb.lock_fee_and_withdraw(w.accounts[0], d(&s["fee"]), res.unwrap(), d(&s["amt"])),
            "lock_fee_withdraw_nf" => mb.lock_fee_and_withdraw_non_fungibles(w.accounts[0], d(&s["fee"]), w.res[1], ids(&s["ids"])),
            "nofaucet" => mb,
            "lock_fee" => mb.lock_fee(w.accounts[0], d(&s["fee"])),
            "locker_claim" => mb.call_method(w.locker, ACCOUNT_LOCKER_CLAIM_IDENT, AccountLockerClaimManifestInput { claimant: w.accounts[0].into(), resource_address: w.res[0].into(), amount: d(&s["amt"]) }),
            "locker_recover" => mb
                .create_proof_from_account_of_amount(w.accounts[0], w.locker_badge, dec!(1))
                .call_method(w.locker, ACCOUNT_LOCKER_RECOVER_IDENT, AccountLockerRecoverManifestInput { claimant: w.accounts[0].into(), resource_address: w.res[0].into(), amount: d(&s["amt"]) }),
            "lock_contingent_fee" => mb.lock_contingent_fee(w.accounts[0], d(&s["fee"])),
            "burn_in_account" => mb.burn_in_account(w.accounts[0], res.unwrap(), d(&s["amt"])),
            "burn_nf_in_account" => mb.burn_non_fungibles_in_account(w.accounts[0], w.res[1], ids(&s["ids"])),
            "proof_of_amount" => mb.create_proof_from_account_of_amount(w.accounts[0], res.unwrap(), d(&s["amt"])),
            "proof_of_nf" => mb.create_proof_from_account_of_non_fungibles(w.accounts[0], w.res[1], ids(&s["ids"])),
            "take_all" => mb.take_all_from_worktop(res.unwrap(), bname),
            "take" => mb.take_from_worktop(res.unwrap(), d(&s["amt"]), bname),
            "take_nf" => mb.take_non_fungibles_from_worktop(w.res[1], ids(&s["ids"]), bname),
            "return" => mb.return_to_worktop(bname),
            "assert_contains" => mb.assert_worktop_contains(res.unwrap(), d(&s["amt"])),
            "assert_include" => mb.assert_worktop_resources_include(ManifestResourceConstraints::new().with_unchecked(res.unwrap(), ManifestResourceConstraint::AtLeastAmount(d(&s["amt"])))),
            "assert_only_all" => mb.assert_worktop_resources_only(
                ManifestResourceConstraints::new()
                    .with_unchecked(w.res[0], ManifestResourceConstraint::AtLeastAmount(Decimal::ZERO))
                    .with_unchecked(w.res[1], ManifestResourceConstraint::AtLeastAmount(Decimal::ZERO))
                    .with_unchecked(w.res[2], ManifestResourceConstraint::AtLeastAmount(Decimal::ZERO)),
            ),
            "assert_bucket" => mb.assert_bucket_contents(bname, ManifestResourceConstraint::AtLeastAmount(d(&s["amt"]))),
            "deposit" => mb.deposit(acct.unwrap(), bname),
            "try_refund" => mb.try_deposit_or_refund(acct.unwrap(), None, bname),
            "try_abort" => mb.try_deposit_or_abort(acct.unwrap(), None, bname),
            "batch" => mb.deposit_batch(acct.unwrap(), s["bs"].as_array().unwrap().iter().map(|x| x.as_str().unwrap().to_string()).collect::<Vec<_>>()),
            "batch_refund" => mb.try_deposit_batch_or_refund(acct.unwrap(), s["bs"].as_array().unwrap().iter().map(|x| x.as_str().unwrap().to_string()).collect::<Vec<_>>(), None),
            "deposit_worktop" => mb.deposit_entire_worktop(acct.unwrap()),
            other => panic!("step {}", other),
        };
    }
    mb.build()
}

fn name_of<T: PartialEq + Copy>(all: &[T], names: &[&'static str], x: T) -> Option<&'static str> {
    all.iter().position(|y| *y == x).map(|i| names[i])
}

/// what the analyser predicts, or why there is no prediction
fn analyse(w: &World, manifest: &TransactionManifestV2) -> J {
    let r = catch(|| {
        let mut visitor = StaticResourceMovementsVisitor::new(false);
        let res = StaticManifestInterpreter::new(ValidationRuleset::all(), manifest).validate_and_apply_visitor(&mut visitor);
        match res {
            Err(e) => Err(format!("{:?}", e)),
            Ok(()) => {
                let out = visitor.output();
                Ok((out.resolve_account_deposits(), out.resolve_account_withdraws()))
            }
        }
    });
    let (deps, wds) = match r {
        Err(p) => return json!({"status": "panic", "msg": p}),
        Ok(Err(e)) => return json!({"status": "refused", "msg": e.chars().take(160).collect::<String>()}),
        Ok(Ok(x)) => x,
    };
    let mut dep = Map::new();
    let mut wd = Map::new();
    for a in ACC {
        dep.insert(a.to_string(), json!([]));
        wd.insert(a.to_string(), json!([]));
    }
    for (acct, list) in deps.iter() {
        let Some(an) = name_of(&w.accounts, &ACC, *acct) else { return json!({"status": "unrepresentable", "msg": "account"}) };
        let mut calls = vec![];
        for d in list {
            let mut spec = Map::new();
            for (r, b) in d.specified_resources() {
                let Some(rn) = name_of(&w.res, &RES, *r) else { return json!({"status": "unrepresentable", "msg": "resource"}) };
                let Some(bj) = bounds_json(b) else { return json!({"status": "unrepresentable", "msg": "amount"}) };
                spec.insert(rn.to_string(), bj);
            }
            // resources the prediction does not mention: present as keys with a "none" marker, so that TLA+ sees a total record
            let specified: Vec<String> = spec.keys().cloned().collect();
            calls.push(json!({"spec": spec, "specified": specified, "unspec": d.unspecified_resources().may_be_present()}));
        }
        dep.insert(an.to_string(), json!(calls));
    }
    for (acct, list) in wds.iter() {
        let Some(an) = name_of(&w.accounts, &ACC, *acct) else { return json!({"status": "unrepresentable", "msg": "account"}) };
        let mut calls = vec![];
        for x in list {
            match x {
                AccountWithdraw::Amount(r, d) => match (name_of(&w.res, &RES, *r), q(*d)) {
                    (Some(rn), Some(a)) => calls.push(json!({"res": rn, "kind": "f", "a": a, "ids": []})),
                    _ => return json!({"status": "unrepresentable", "msg": "withdraw"}),
                },
                AccountWithdraw::Ids(r, ids) => match (name_of(&w.res, &RES, *r), ids_json(ids)) {
                    (Some(rn), Some(i)) => calls.push(json!({"res": rn, "kind": "nf", "a": 0, "ids": i})),
                    _ => return json!({"status": "unrepresentable", "msg": "withdraw"}),
                },
            }
        }
        wd.insert(an.to_string(), json!(calls));
    }
    json!({"status": "ok", "dep": dep, "wd": wd})
}

fn balances(w: &mut World) -> Vec<Vec<Decimal>> {
    let (accounts, res) = (w.accounts, w.res);
    accounts.iter().map(|a| res.iter().map(|r| w.ledger.get_component_balance(*a, *r)).collect()).collect()
}

/// executes; None unless the transaction committed successfully
fn execute(w: &mut World, manifest: TransactionManifestV2, burned: [i64; 3]) -> Result<J, String> {
    let before = balances(w);
    let nonce = w.ledger.next_transaction_nonce();
    let pks = w.pks;
    let receipt = catch(|| {
        let tx = TestTransaction::new_v2_builder(nonce).finish_with_root_intent(manifest, pks.iter().map(|k| k.signature_proof()).collect::<Vec<_>>());
        w.ledger.execute_test_transaction(tx)
    })
    .map_err(|e| format!("panic:{}", e))?;
    let commit = match &receipt.result {
        TransactionResult::Commit(c) if matches!(c.outcome, TransactionOutcome::Success(_)) => c,
        TransactionResult::Commit(c) => return Err(format!("failed:{:?}", c.outcome).chars().take(120).collect()),
        other => return Err(format!("{:?}", other).chars().take(60).collect()),
    };
    let after = balances(w);
    // per account and resource: deposited / withdrawn according to the account's own events
    let zero = || json!({"F": {"kind": "f", "a": 0}, "N": {"kind": "nf", "ids": []}, "X": {"kind": "f", "a": 0}});
    let mut dep: Vec<J> = (0..3).map(|_| zero()).collect();
    let mut wd: Vec<J> = (0..3).map(|_| zero()).collect();
    let mut add = |slot: &mut J, r: &ResourceAddress, amt: Option<Decimal>, ids: Option<&IndexSet<NonFungibleLocalId>>| -> Result<(), String> {
        let rn = name_of(&w.res, &RES, *r).ok_or("unknown resource moved")?;
        if let Some(a) = amt {
            let cur = slot[rn]["a"].as_i64().unwrap();
            slot[rn]["a"] = json!(cur + q(a).ok_or("amount not representable")?);
        }
        if let Some(i) = ids {
            let mut cur: Vec<u64> = slot[rn]["ids"].as_array().unwrap().iter().map(|x| x.as_u64().unwrap()).collect();
            cur.extend(ids_json(i).ok_or("ids")?.as_array().unwrap().iter().map(|x| x.as_u64().unwrap()));
            cur.sort();
            slot[rn]["ids"] = json!(cur);
        }
        Ok(())
    };
    for (ident, data) in commit.application_events.iter() {
        let EventTypeIdentifier(Emitter::Method(node, ModuleId::Main), name) = ident else { continue };
        let Some(ai) = w.accounts.iter().position(|a| a.as_node_id() == node) else { continue };
        if name == "DepositEvent" {
            match scrypto_decode::<DepositEvent>(data).map_err(|e| format!("{:?}", e))? {
                DepositEvent::Fungible(r, a) => add(&mut dep[ai], &r, Some(a), None)?,
                DepositEvent::NonFungible(r, ids) => add(&mut dep[ai], &r, None, Some(&ids))?,
            }
        } else if name == "WithdrawEvent" {
            match scrypto_decode::<WithdrawEvent>(data).map_err(|e| format!("{:?}", e))? {
                WithdrawEvent::Fungible(r, a) => add(&mut wd[ai], &r, Some(a), None)?,
                WithdrawEvent::NonFungible(r, ids) => add(&mut wd[ai], &r, None, Some(&ids))?,
            }
        }
    }
    let mut act = Map::new();
    for ai in 0..3 {
        let mut net = Map::new();
        for ri in 0..3 {
            // (an account that pays fees has an XRD change that is no multiple of 1/4: recorded as a sentinel, TraceMovements skips it for the fee payer only)
            net.insert(RES[ri].to_string(), json!(q(after[ai][ri] - before[ai][ri]).unwrap_or(999_999_999)));
        }
        // what left the account, from the vault balances: received - net change (- what the manifest burned in place);
        // lock_fee_and_withdraw* emit no WithdrawEvent, so the events alone would miss those withdrawals
        let mut wda = Map::new();
        for ri in 0..3 {
            let received = if ri == 1 { 4 * dep[ai][RES[ri]]["ids"].as_array().unwrap().len() as i64 } else { dep[ai][RES[ri]]["a"].as_i64().unwrap() };
            let n = net[RES[ri]].as_i64().unwrap();
            wda.insert(RES[ri].to_string(), json!(if n == 999_999_999 { n } else { received - n - if ai == 0 { burned[ri] } else { 0 } }));
        }
        act.insert(ACC[ai].to_string(), json!({"dep": dep[ai], "wd": wd[ai], "net": net, "wda": wda}));
    }
    Ok(json!(act))
}

pub fn run(mode: &str, args: &Args) {
    match mode {
        "record" => record(args),
        _ => panic!("mode"),
    }
}

/// deterministic product: every deposit method x every resource kind x known / unknown source, and the amount
/// boundaries (take exactly what is there, one step less, nothing; all ids / some / none; empty worktop)
fn scenarios() -> Vec<(String, Vec<J>)> {
    let mut v: Vec<(String, Vec<J>)> = vec![];
    let source = |r: usize| -> J { if r == 1 { json!({"op": "withdraw_nf", "ids": [1, 2]}) } else { json!({"op": "withdraw", "res": r, "amt": 2.0}) } };
    let sink = |how: &str, acct: usize| -> Vec<J> {
        match how {
            "worktop" => vec![json!({"op": "deposit_worktop", "acct": acct})],
            "batch" | "batch_refund" => vec![json!({"op": how, "acct": acct, "bs": ["b0"]})],
            _ => vec![json!({"op": how, "acct": acct, "b": "b0"})],
        }
    };
    let home = json!({"op": "deposit_worktop", "acct": 0});
    for r in 0..3usize {
        for how in ["deposit", "try_refund", "try_abort", "batch", "batch_refund", "worktop"] {
            let mut st = vec![source(r)];
            if how != "worktop" { st.push(json!({"op": "take_all", "res": r, "b": "b0"})); }
            st.extend(sink(how, 1));
            st.push(home.clone());
            v.push((format!("sink:{}:{}", how, RES[r]), st));
        }
    }
    // unknown source (faucet) into every deposit method
    for how in ["deposit", "try_refund", "batch_refund", "worktop"] {
        let mut st = vec![json!({"op": "free"})];
        if how != "worktop" { st.push(json!({"op": "take_all", "res": 2, "b": "b0"})); }
        st.extend(sink(how, 2));
        st.push(home.clone());
        v.push((format!("unknown-source:{}", how), st));
    }
    // amount boundaries of TAKE_FROM_WORKTOP against what was withdrawn (2.0): equal, one step less, more (fails), then deposit
    for (name, amt) in [("take-equal", 2.0), ("take-less", 1.5), ("take-more", 3.0), ("take-half", 0.5)] {
        for r in [0usize, 2] {
            v.push((format!("{}:{}", name, RES[r]), vec![source(r), json!({"op": "take", "res": r, "amt": amt, "b": "b0"}), json!({"op": "deposit", "acct": 1, "b": "b0"}), home.clone()]));
            v.push((format!("{}:refund:{}", name, RES[r]), vec![source(r), json!({"op": "take", "res": r, "amt": amt, "b": "b0"}), json!({"op": "try_refund", "acct": 1, "b": "b0"}), home.clone()]));
        }
    }
    // id boundaries: all / some / none of the withdrawn ids, an id that is not there
    for (name, ids) in [("ids-all", vec![1, 2]), ("ids-some", vec![2]), ("ids-none", vec![]), ("ids-missing", vec![3])] {
        v.push((name.to_string(), vec![source(1), json!({"op": "take_nf", "ids": ids, "b": "b0"}), json!({"op": "deposit", "acct": 2, "b": "b0"}), home.clone()]));
    }
    // empty worktop / empty bucket / zero withdrawals
    v.push(("empty:take-all-deposit".into(), vec![json!({"op": "take_all", "res": 0, "b": "b0"}), json!({"op": "deposit", "acct": 1, "b": "b0"}), home.clone()]));
    v.push(("empty:worktop-deposit".into(), vec![json!({"op": "deposit_worktop", "acct": 1}), home.clone()]));
    v.push(("empty:withdraw-no-ids".into(), vec![json!({"op": "withdraw_nf", "ids": []}), json!({"op": "deposit_worktop", "acct": 2}), home.clone()]));
    // assertions at the boundary, then a deposit whose bounds they tighten
    for (name, a) in [("assert-equal", 2.0), ("assert-less", 1.5), ("assert-more", 3.0)] {
        v.push((format!("{}:contains", name), vec![source(0), json!({"op": "assert_contains", "res": 0, "amt": a}), json!({"op": "deposit_worktop", "acct": 1}), home.clone()]));
        v.push((format!("{}:include", name), vec![json!({"op": "free"}), json!({"op": "assert_include", "res": 2, "amt": a}), json!({"op": "deposit_worktop", "acct": 2}), home.clone()]));
        v.push((format!("{}:bucket", name), vec![source(0), json!({"op": "take_all", "res": 0, "b": "b0"}), json!({"op": "assert_bucket", "b": "b0", "amt": a}), json!({"op": "deposit", "acct": 1, "b": "b0"}), home.clone()]));
    }
    v.push(("assert-only".into(), vec![source(0), source(2), json!({"op": "assert_only_all", "res": 0, "amt": 0.5}), json!({"op": "deposit_worktop", "acct": 1}), home.clone()]));
    // every account method the analyser types, all amounts pairwise different (fee 3, amount 5, contingent 7, proof 1.5, burn 0.5),
    // each source followed by every kind of sink so that a swapped / dropped field shows in some account's bounds
    let typed_sources: Vec<(&str, Vec<J>, usize)> = vec![
        ("withdraw", vec![json!({"op": "withdraw", "res": 0, "amt": 5.0})], 0),
        ("withdraw-xrd", vec![json!({"op": "withdraw", "res": 2, "amt": 5.0})], 2),
        ("lock-fee-withdraw", vec![json!({"op": "lock_fee_withdraw", "fee": 3.0, "res": 0, "amt": 5.0})], 0),
        ("lock-fee-withdraw-xrd", vec![json!({"op": "lock_fee_withdraw", "fee": 3.0, "res": 2, "amt": 5.0})], 2),
        ("lock-fee-withdraw-fee-larger", vec![json!({"op": "lock_fee_withdraw", "fee": 7.0, "res": 0, "amt": 0.5})], 0),
        ("withdraw-nf", vec![json!({"op": "withdraw_nf", "ids": [1, 3]})], 1),
        ("lock-fee-withdraw-nf", vec![json!({"op": "lock_fee_withdraw_nf", "fee": 3.0, "ids": [2, 3]})], 1),
        ("lock-fee-then-withdraw", vec![json!({"op": "lock_fee", "fee": 3.0}), json!({"op": "withdraw", "res": 2, "amt": 5.0})], 2),
        ("contingent-fee-then-withdraw", vec![json!({"op": "lock_contingent_fee", "fee": 7.0}), json!({"op": "withdraw", "res": 0, "amt": 5.0})], 0),
        ("proof-then-withdraw", vec![json!({"op": "proof_of_amount", "res": 0, "amt": 1.5}), json!({"op": "withdraw", "res": 0, "amt": 5.0})], 0),
        ("proof-nf-then-withdraw-nf", vec![json!({"op": "proof_of_nf", "ids": [1]}), json!({"op": "withdraw_nf", "ids": [2]})], 1),
        ("burn-then-withdraw", vec![json!({"op": "burn_in_account", "res": 0, "amt": 0.5}), json!({"op": "withdraw", "res": 0, "amt": 5.0})], 0),
        ("locker-claim", vec![json!({"op": "locker_claim", "amt": 4.5})], 0),
        ("locker-recover", vec![json!({"op": "locker_recover", "amt": 6.5})], 0),
        ("locker-claim-and-withdraw", vec![json!({"op": "locker_claim", "amt": 4.5}), json!({"op": "withdraw", "res": 0, "amt": 5.0})], 0),
        // the same with an exactly known worktop (fee locked from A, no faucet call): upper bounds are definite
        ("exact-withdraw", vec![json!({"op": "nofaucet"}), json!({"op": "lock_fee", "fee": 3.0}), json!({"op": "withdraw", "res": 0, "amt": 5.0})], 0),
        ("exact-locker-claim", vec![json!({"op": "nofaucet"}), json!({"op": "lock_fee", "fee": 3.0}), json!({"op": "locker_claim", "amt": 4.5})], 0),
        ("exact-locker-recover", vec![json!({"op": "nofaucet"}), json!({"op": "lock_fee", "fee": 3.0}), json!({"op": "locker_recover", "amt": 6.5})], 0),
        ("two-withdrawals", vec![json!({"op": "withdraw", "res": 0, "amt": 5.0}), json!({"op": "lock_fee_withdraw", "fee": 3.0, "res": 0, "amt": 1.5})], 0),
    ];
    for (name, src, r) in typed_sources.iter() {
        for how in ["deposit", "try_refund", "batch", "worktop", "take-part"] {
            let mut st = src.clone();
            match how {
                "worktop" => st.extend(sink("worktop", 2)),
                "take-part" if *r != 1 => { st.push(json!({"op": "take", "res": r, "amt": 2.0, "b": "b0"})); st.extend(sink("deposit", 1)); }
                "take-part" => { st.push(json!({"op": "take_nf", "ids": [2], "b": "b0"})); st.extend(sink("deposit", 1)); }
                _ => { st.push(json!({"op": "take_all", "res": r, "b": "b0"})); st.extend(sink(how, 1)); }
            }
            st.push(home.clone());
            v.push((format!("typed:{}:{}", name, how), st));
        }
    }
    // take, return, take again; two buckets into one batch
    v.push(("return-retake".into(), vec![source(0), json!({"op": "take", "res": 0, "amt": 1.5, "b": "b0"}), json!({"op": "return", "b": "b0"}), json!({"op": "take_all", "res": 0, "b": "b1"}), json!({"op": "deposit", "acct": 1, "b": "b1"}), home.clone()]));
    v.push(("batch-two".into(), vec![source(0), source(2), json!({"op": "take_all", "res": 0, "b": "b0"}), json!({"op": "take", "res": 2, "amt": 0.5, "b": "b1"}), json!({"op": "batch", "acct": 2, "bs": ["b0", "b1"]}), home.clone()]));
    v
}

fn record(args: &Args) {
    let seed = args.u64("seed", 1);
    let n = args.u64("n", 200);
    let mut rng = StdRng::seed_from_u64(seed);
    let mut out = Out::new();
    let mut worlds = [world(false), world(true)];
    let mut stats: std::collections::BTreeMap<String, usize> = Default::default();
    let scen = scenarios();
    let nscen = scen.len() as u64;
    for k in 0..(nscen + n) {
        let is_scenario = k < nscen;
        let uses_nf = is_scenario && scen[k as usize].1.iter().any(|s| s["op"].as_str().unwrap().contains("nf"));
        if (k > nscen && (k - nscen) % 40 == 0) || uses_nf || k == nscen {
            worlds = [world(false), world(true)]; // fresh balances (the non-fungibles wander off)
        }
        let steps = if is_scenario { scen[k as usize].1.clone() } else { gen_steps(&mut rng) };
        let scenario_name = if is_scenario { scen[k as usize].0.clone() } else { String::new() };
        let manifest = match catch(|| build(&worlds[0], &steps)) {
            Ok(m) => m,
            Err(_) => { *stats.entry("builder-refused".into()).or_insert(0) += 1; continue; }
        };
        let pred = analyse(&worlds[0], &manifest);
        *stats.entry(format!("analysis:{}", pred["status"].as_str().unwrap())).or_insert(0) += 1;
        if pred["status"] != "ok" {
            out.emit(&json!({"k": "noprediction", "scenario": scenario_name, "steps": steps, "pred": pred}));
            continue;
        }
        for (si, w) in worlds.iter_mut().enumerate() {
            // same accounts / resources in both worlds (same creation order, deterministic addresses)
            let manifest = build(w, &steps);
            let mut burned = [0i64; 3];
            for st in steps.iter().filter(|st| st["op"] == "burn_in_account") {
                burned[st["res"].as_u64().unwrap() as usize] += (st["amt"].as_f64().unwrap() * 4.0) as i64;
            }
            match execute(w, manifest, burned) {
                Ok(act) => {
                    *stats.entry("run:success".into()).or_insert(0) += 1;
                    let fee_from_account = steps.iter().any(|s| s["op"].as_str().unwrap().starts_with("lock_"));
                    out.emit(&json!({"k": "run", "scenario": scenario_name, "state": si, "steps": steps, "pred": pred, "act": act, "fee_from_account": fee_from_account}));
                }
                Err(e) => {
                    *stats.entry(format!("run:{}", e.split(':').next().unwrap())).or_insert(0) += 1;
                    if is_scenario {
                        out.emit(&json!({"k": "failed", "scenario": scenario_name, "state": si, "why": e}));
                    }
                }
            }
        }
    }
    let stats = json!(stats);
    out.emit(&json!({"k": "stats", "stats": stats}));
    out.flush();
}

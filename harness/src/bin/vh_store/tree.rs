//! C17 / C18 / C19 — binding of spec/StateTree (commitment term, valid node stores) and
//! spec/MerkleCommit (crash points) to state_tree::put_at_next_version, TypedInMemoryTreeStore,
//! StateTreeUpdatingDatabase and RocksDBWithMerkleTreeSubstateStore.
use blake2::digest::consts::U32;
use blake2::{Blake2b, Digest};
use radix_common::prelude::*;
use radix_substate_store_impls::memory_db::InMemorySubstateDatabase;
use radix_substate_store_impls::rocks_db_with_merkle_tree::verif_hooks::{CRASH_COUNTDOWN, WRITE_LOG, WRITE_OPS};
use radix_substate_store_impls::rocks_db_with_merkle_tree::RocksDBWithMerkleTreeSubstateStore;
use radix_substate_store_impls::state_tree::tree_store::*;
use radix_substate_store_impls::state_tree::{list_substate_hashes_at_version, put_at_next_version};
use radix_substate_store_impls::state_tree_support::StateTreeUpdatingDatabase;
use radix_substate_store_interface::interface::*;
use rand::prelude::*;
use serde_json::{json, Value};
use std::cell::RefCell;
use std::collections::{BTreeMap, BTreeSet};
use std::path::{Path, PathBuf};
use std::sync::atomic::Ordering;
use vh::util::*;
use vh::Args;

// ---- concretisation of the model: keys of all tiers are single bytes; PD as in GenTree.tla
fn part_def(p: i64) -> (u8, u8) {
    match p {
        1 => (65, 0),
        2 => (65, 1),
        3 => (193, 0),
        4 => (67, 255),
        _ => panic!("partition"),
    }
}
fn val(v: i64) -> Vec<u8> {
    vec![v as u8; (v + 2) as usize]
}
fn b2(data: &[u8]) -> [u8; 32] {
    let mut h = Blake2b::<U32>::new();
    h.update(data);
    h.finalize().into()
}
/// evaluates a commitment term of StateTree.tla with the real blake2b-256
fn eval(t: &Value) -> [u8; 32] {
    match t[0].as_str().unwrap() {
        "P" => [0u8; 32],
        "V" => b2(&val(t[1].as_i64().unwrap())),
        "L" => {
            let mut d = vec![t[1].as_i64().unwrap() as u8];
            d.extend_from_slice(&eval(&t[2]));
            b2(&d)
        }
        "I" => {
            let mut d = eval(&t[1]).to_vec();
            d.extend_from_slice(&eval(&t[2]));
            b2(&d)
        }
        _ => panic!("term"),
    }
}
fn updates(u: &Value) -> DatabaseUpdates {
    let mut res = DatabaseUpdates::default();
    for pu in u.as_array().unwrap() {
        let (e, pn) = part_def(pu[0].as_i64().unwrap());
        let kind = pu[1].as_str().unwrap();
        let entries: Vec<(i64, i64)> =
            pu[2].as_array().unwrap().iter().map(|e| (e[0].as_i64().unwrap(), e[1].as_i64().unwrap())).collect();
        let upd = match kind {
            "d" => PartitionDatabaseUpdates::Delta {
                substate_updates: entries
                    .iter()
                    .map(|(k, v)| (DbSortKey(vec![*k as u8]), if *v > 0 { DatabaseUpdate::Set(val(*v)) } else { DatabaseUpdate::Delete }))
                    .collect(),
            },
            "r" => PartitionDatabaseUpdates::Reset {
                new_substate_values: entries.iter().filter(|(_, v)| *v > 0).map(|(k, v)| (DbSortKey(vec![*k as u8]), val(*v))).collect(),
            },
            _ => panic!("kind"),
        };
        res.node_updates.entry(vec![e]).or_default().partition_updates.insert(pn, upd);
    }
    res
}
/// the model's leaves [[e, pn, k, v]...] as one Delta commit
fn leaves_as_updates(leaves: &Value) -> DatabaseUpdates {
    let mut res = DatabaseUpdates::default();
    for l in leaves.as_array().unwrap() {
        let (e, pn, k, v) = (l[0].as_i64().unwrap() as u8, l[1].as_i64().unwrap() as u8, l[2].as_i64().unwrap() as u8, l[3].as_i64().unwrap());
        let en = res.node_updates.entry(vec![e]).or_default().partition_updates.entry(pn).or_insert(PartitionDatabaseUpdates::Delta { substate_updates: Default::default() });
        if let PartitionDatabaseUpdates::Delta { substate_updates } = en {
            substate_updates.insert(DbSortKey(vec![k]), DatabaseUpdate::Set(val(v)));
        }
    }
    res
}
fn expected_hashes(leaves: &Value) -> BTreeSet<(u8, u8, u8, [u8; 32])> {
    leaves
        .as_array()
        .unwrap()
        .iter()
        .map(|l| (l[0].as_i64().unwrap() as u8, l[1].as_i64().unwrap() as u8, l[2].as_i64().unwrap() as u8, b2(&val(l[3].as_i64().unwrap()))))
        .collect()
}
fn listed_hashes(m: IndexMap<DbPartitionKey, IndexMap<DbSortKey, Hash>>) -> BTreeSet<(u8, u8, u8, [u8; 32])> {
    let mut s = BTreeSet::new();
    for (pk, by) in m {
        for (sk, h) in by {
            s.insert((pk.node_key.get(0).cloned().unwrap_or(0), pk.partition_num, sk.0.get(0).cloned().unwrap_or(0), h.0));
        }
    }
    s
}

pub fn run(mode: &str, args: &Args) {
    match mode {
        "tree" => replay_tree(args),
        "crash" => crash(args),
        "prune" => prune_record(args),
        _ => panic!("mode"),
    }
}

/// C17: root term and leaves after every commit, for several ways of reaching the same state
fn replay_tree(args: &Args) {
    let mut out = Out::new();
    let behaviours = read_lines();
    let merkle_every = args.u64("merkle", 25) as usize;
    let dir = args.str("dir", "/verif/work/tree");
    let mut steps = 0;
    for (bi, b) in behaviours.iter().enumerate() {
        let hist = b.as_array().unwrap();
        let store = TypedInMemoryTreeStore::new();
        let pruned = TypedInMemoryTreeStore::new().with_pruning_enabled();
        let mut updb = StateTreeUpdatingDatabase::new(InMemorySubstateDatabase::standard());
        let mut merkle = if merkle_every > 0 && bi % merkle_every == 0 {
            let d = PathBuf::from(format!("{}/m{}", dir, bi));
            let _ = std::fs::remove_dir_all(&d);
            std::fs::create_dir_all(&d).unwrap();
            Some((RocksDBWithMerkleTreeSubstateStore::standard(d.clone()), d))
        } else {
            None
        };
        let mut version: Option<u64> = None;
        for (si, st) in hist.iter().enumerate() {
            steps += 1;
            let u = if si == 0 { leaves_as_updates(&st["obs"]["leaves"]) } else { updates(&st["upd"]) };
            let exp_root = eval(&st["obs"]["root"]);
            let exp_leaves = expected_hashes(&st["obs"]["leaves"]);
            let r1 = catch(|| put_at_next_version(&store, version, &u));
            let r2 = catch(|| put_at_next_version(&pruned, version, &u));
            version = Some(version.unwrap_or(0) + 1);
            for (name, r) in [("put_at_next_version", &r1), ("put_at_next_version(pruning)", &r2)] {
                match r {
                    Ok(h) if h.0 == exp_root => {}
                    Ok(h) => out.mismatch(bi, si, &format!("{} root", name), json!(hex::encode(exp_root)), json!(hex::encode(h.0))),
                    Err(e) => out.mismatch(bi, si, &format!("{} panic", name), json!("root"), json!(e)),
                }
            }
            for (name, s) in [("list(unpruned)", &store), ("list(pruned)", &pruned)] {
                match catch(|| listed_hashes(list_substate_hashes_at_version(s, version.unwrap()))) {
                    Ok(l) if l == exp_leaves => {}
                    Ok(l) => out.mismatch(bi, si, &format!("{} leaves", name), json!(exp_leaves.len()), json!(l.len())),
                    Err(e) => out.mismatch(bi, si, &format!("{} panic", name), json!("leaves"), json!(e)),
                }
            }
            // the same state reached by ONE commit from the empty tree
            let fresh = TypedInMemoryTreeStore::new();
            let h = put_at_next_version(&fresh, None, &leaves_as_updates(&st["obs"]["leaves"]));
            if h.0 != exp_root {
                out.mismatch(bi, si, "single-commit root", json!(hex::encode(exp_root)), json!(hex::encode(h.0)));
            }
            // the same state reached one substate per commit
            let one = TypedInMemoryTreeStore::new().with_pruning_enabled();
            let mut v1: Option<u64> = None;
            let mut last = Hash([0u8; 32]);
            for l in st["obs"]["leaves"].as_array().unwrap() {
                last = put_at_next_version(&one, v1, &leaves_as_updates(&json!([l])));
                v1 = Some(v1.unwrap_or(0) + 1);
            }
            if last.0 != exp_root {
                out.mismatch(bi, si, "one-substate-per-commit root", json!(hex::encode(exp_root)), json!(hex::encode(last.0)));
            }
            // StateTreeUpdatingDatabase and the RocksDB store with Merkle tree
            updb.commit(&u);
            if updb.get_current_root_hash().0 != exp_root {
                out.mismatch(bi, si, "StateTreeUpdatingDatabase root", json!(hex::encode(exp_root)), json!(hex::encode(updb.get_current_root_hash().0)));
            }
            if listed_hashes(updb.list_substate_hashes()) != exp_leaves {
                out.mismatch(bi, si, "StateTreeUpdatingDatabase leaves", json!(exp_leaves.len()), json!("differs"));
            }
            if let Some((m, _)) = merkle.as_mut() {
                if let Err(e) = catch(|| m.commit(&u)) {
                    out.mismatch(bi, si, "RocksDBWithMerkleTree commit panic", json!("ok"), json!(e));
                }
                if m.get_current_root_hash().0 != exp_root {
                    out.mismatch(bi, si, "RocksDBWithMerkleTree root", json!(hex::encode(exp_root)), json!(hex::encode(m.get_current_root_hash().0)));
                }
                if m.get_current_version() != version.unwrap() {
                    out.mismatch(bi, si, "RocksDBWithMerkleTree version", json!(version), json!(m.get_current_version()));
                }
            }
        }
        if let Some((m, d)) = merkle {
            drop(m);
            let _ = std::fs::remove_dir_all(&d);
        }
    }
    out.done(behaviours.len(), steps);
}

// ---------------------------------------------------------------------------------------------
// C19: crash-point enumeration

fn copy_dir(from: &Path, to: &Path) {
    let _ = std::fs::remove_dir_all(to);
    std::fs::create_dir_all(to).unwrap();
    for e in std::fs::read_dir(from).unwrap() {
        let e = e.unwrap();
        if e.file_type().unwrap().is_file() {
            if e.file_name() == "LOCK" {
                continue;
            }
            std::fs::copy(e.path(), to.join(e.file_name())).unwrap();
        }
    }
}

fn observe(m: &RocksDBWithMerkleTreeSubstateStore) -> (u64, [u8; 32], Vec<(u8, u8, u8, i64)>, bool) {
    let mut leaves = vec![];
    let mut held: BTreeSet<(u8, u8, u8, [u8; 32])> = BTreeSet::new();
    let parts: Vec<DbPartitionKey> = m.list_partition_keys().collect();
    for pk in parts {
        for (sk, v) in m.list_raw_values_from_db_key(&pk, None) {
            let vi = if !v.is_empty() && v.len() == v[0] as usize + 2 && v.iter().all(|x| *x == v[0]) { v[0] as i64 } else { -9 };
            leaves.push((pk.node_key.get(0).cloned().unwrap_or(0), pk.partition_num, sk.0.get(0).cloned().unwrap_or(0), vi));
            held.insert((pk.node_key.get(0).cloned().unwrap_or(0), pk.partition_num, sk.0.get(0).cloned().unwrap_or(0), b2(&v)));
        }
    }
    leaves.sort();
    // walk the stored tree of the recorded version from its root with the code's own reader
    let ver = m.get_current_version();
    let tree_ok = if ver == 0 {
        held.is_empty()
    } else {
        matches!(catch(|| listed_hashes(list_substate_hashes_at_version(m, ver))), Ok(l) if l == held)
    };
    (ver, m.get_current_root_hash().0, leaves, tree_ok)
}

/// For every commit of every behaviour and every write operation w of that commit: stop right
/// before w, reopen, and record what the store holds.  Events are decided by TraceMerkleCommit.tla.
fn crash(args: &Args) {
    let mut out = Out::new();
    let behaviours = read_lines();
    let dir = args.str("dir", "/verif/work/crash");
    let base = PathBuf::from(&dir);
    let sample = args.str("points", "all") == "sample";
    let mut rng = StdRng::seed_from_u64(args.u64("seed", 1));
    let _ = std::fs::remove_dir_all(&base);
    std::fs::create_dir_all(&base).unwrap();
    for (bi, b) in behaviours.iter().enumerate() {
        let hist = b.as_array().unwrap();
        let cur = base.join(format!("cur{}", bi));
        let _ = std::fs::remove_dir_all(&cur);
        std::fs::create_dir_all(&cur).unwrap();
        out.emit(&json!({"a": "reset"}));
        for (si, st) in hist.iter().enumerate() {
            let u = if si == 0 { leaves_as_updates(&st["obs"]["leaves"]) } else { updates(&st["upd"]) };
            let uj = if si == 0 {
                // the base as a delta over the empty database
                let mut by: BTreeMap<i64, Vec<Value>> = BTreeMap::new();
                for l in st["obs"]["leaves"].as_array().unwrap() {
                    let p = (1..=4).find(|p| part_def(*p) == (l[0].as_i64().unwrap() as u8, l[1].as_i64().unwrap() as u8)).unwrap();
                    by.entry(p).or_default().push(json!([l[2], l[3]]));
                }
                Value::Array(by.into_iter().map(|(p, e)| json!([p, "d", e])).collect())
            } else {
                st["upd"].clone()
            };
            // full run on a copy: counts the write operations and becomes the next `cur`
            let next = base.join(format!("next{}", bi));
            copy_dir(&cur, &next);
            CRASH_COUNTDOWN.store(-1, Ordering::SeqCst);
            let mut m = RocksDBWithMerkleTreeSubstateStore::standard(next.clone());
            WRITE_OPS.store(0, Ordering::SeqCst);
            WRITE_LOG.lock().unwrap().clear();
            if let Err(e) = catch(|| m.commit(&u)) {
                // a commit that panics without a simulated stop: recorded as an event no action of
                // TraceMerkleCommit matches (the trace is rejected there)
                out.emit(&json!({"a": "commit-panic", "step": si, "msg": e, "upd": uj}));
                break;
            }
            let w_total = WRITE_OPS.load(Ordering::SeqCst);
            let log: Vec<String> = WRITE_LOG.lock().unwrap().clone();
            drop(m);
            let pre_root = if si == 0 { [0u8; 32] } else { eval(&hist[si - 1]["obs"]["root"]) };
            let post_root = eval(&st["obs"]["root"]);
            let ws: Vec<i64> = if sample {
                let mut v: BTreeSet<i64> = [0, 1, 2, 3, w_total - 1, w_total].into_iter().filter(|x| *x >= 0 && *x <= w_total).collect();
                if w_total > 5 {
                    v.insert(rng.gen_range(4..w_total));
                    v.insert(rng.gen_range(4..w_total));
                }
                v.into_iter().collect()
            } else {
                (0..=w_total).collect()
            };
            for w in ws {
                let tmp = base.join(format!("tmp{}", bi));
                copy_dir(&cur, &tmp);
                CRASH_COUNTDOWN.store(-1, Ordering::SeqCst);
                let mut m = RocksDBWithMerkleTreeSubstateStore::standard(tmp.clone());
                CRASH_COUNTDOWN.store(if w == w_total { -1 } else { w }, Ordering::SeqCst);
                let r = catch(|| m.commit(&u));
                CRASH_COUNTDOWN.store(-1, Ordering::SeqCst);
                drop(m);
                let m = RocksDBWithMerkleTreeSubstateStore::standard(tmp.clone());
                let (ver, root, leaves, tree_ok) = observe(&m);
                drop(m);
                let root_is = match (root == pre_root, root == post_root) {
                    (true, true) => "both",
                    (true, false) => "pre",
                    (false, true) => "post",
                    _ => "none",
                };
                out.emit(&json!({"a": "crash", "step": si, "w": w, "of": w_total, "crashed": r.is_err(),
                    "upd": uj, "version": ver, "rootIs": root_is, "treeOk": tree_ok,
                    "leaves": leaves.iter().map(|l| json!([l.0, l.1, l.2, l.3])).collect::<Vec<_>>(),
                    "ops": log}));
            }
            out.emit(&json!({"a": "commit", "upd": uj}));
            let _ = std::fs::remove_dir_all(&cur);
            std::fs::rename(&next, &cur).unwrap();
        }
        let _ = std::fs::remove_dir_all(&cur);
    }
    let _ = std::fs::remove_dir_all(&base);
    out.flush();
}

// ---------------------------------------------------------------------------------------------
// C18: a logging TreeStore; every inserted node and every reported stale part is recorded per
// commit in a graph projection (node id = hex of the encoded stored key; children ids computed
// with gen_child_node_key; the cross-tier link of an upper-tier leaf = root key of the lower tier).

struct LoggingStore {
    inner: TypedInMemoryTreeStore,
    inserted: RefCell<Vec<(StoredTreeNodeKey, TreeNode)>>,
    stale: RefCell<Vec<StaleTreePart>>,
}
impl ReadableTreeStore for LoggingStore {
    fn get_node(&self, key: &StoredTreeNodeKey) -> Option<TreeNode> {
        self.inner.get_node(key)
    }
}
impl WriteableTreeStore for LoggingStore {
    fn insert_node(&self, key: StoredTreeNodeKey, node: TreeNode) {
        self.inserted.borrow_mut().push((key.clone(), node.clone()));
        self.inner.insert_node(key, node)
    }
    fn associate_substate(&self, _k: &StoredTreeNodeKey, _p: &DbPartitionKey, _s: &DbSortKey, _v: AssociatedSubstateValue) {}
    fn record_stale_tree_part(&self, part: StaleTreePart) {
        self.stale.borrow_mut().push(part.clone());
        self.inner.record_stale_tree_part(part)
    }
}
fn kid(k: &StoredTreeNodeKey) -> String {
    hex::encode(encode_key(k))
}
const SEP: u8 = b'_';

fn prune_record(args: &Args) {
    let seed = args.u64("seed", 1);
    let runs = args.u64("runs", 10);
    let len = args.u64("len", 8);
    let elen = 2usize; // entity keys have a fixed length of 2 bytes in these histories
    let mut rng = StdRng::seed_from_u64(seed);
    let mut out = Out::new();
    for run in 0..runs {
        let pruning = run % 4 != 3;
        let store = LoggingStore {
            inner: if pruning { TypedInMemoryTreeStore::new().with_pruning_enabled() } else { TypedInMemoryTreeStore::new() },
            inserted: RefCell::new(vec![]),
            stale: RefCell::new(vec![]),
        };
        // small universe so that deletion of whole entities / partitions and re-creation are frequent
        let ents: Vec<Vec<u8>> = vec![vec![0x41, 0x10], vec![0x41, 0x11], vec![0xc0, 0x00]];
        let pnums: Vec<u8> = vec![0, 1, 0x5f];
        let skeys: Vec<Vec<u8>> = vec![vec![0x12, 0x00], vec![0x12, 0x01], vec![0x1b, 0x00], vec![0x80, 0x5f]];
        let mut model: BTreeMap<(usize, usize), BTreeMap<usize, u8>> = BTreeMap::new();
        let mut version: Option<u64> = None;
        out.emit(&json!({"a": "reset", "pruning": pruning}));
        for _ in 0..len {
            let mut u = DatabaseUpdates::default();
            for (ei, e) in ents.iter().enumerate() {
                for (pi, pn) in pnums.iter().enumerate() {
                    let r = rng.gen_range(0..10);
                    if r < 5 {
                        continue;
                    }
                    let cur = model.entry((ei, pi)).or_default();
                    let pu = if r < 8 {
                        let mut m = IndexMap::new();
                        for (ki, k) in skeys.iter().enumerate() {
                            match rng.gen_range(0..4) {
                                0 | 1 => {}
                                2 => {
                                    m.insert(DbSortKey(k.clone()), DatabaseUpdate::Delete);
                                    cur.remove(&ki);
                                }
                                _ => {
                                    let v: u8 = rng.gen_range(1..4);
                                    m.insert(DbSortKey(k.clone()), DatabaseUpdate::Set(vec![v; 3]));
                                    cur.insert(ki, v);
                                }
                            }
                        }
                        PartitionDatabaseUpdates::Delta { substate_updates: m }
                    } else {
                        let mut m = IndexMap::new();
                        cur.clear();
                        for (ki, k) in skeys.iter().enumerate() {
                            if rng.gen_bool(0.3) {
                                let v: u8 = rng.gen_range(1..4);
                                m.insert(DbSortKey(k.clone()), vec![v; 3]);
                                cur.insert(ki, v);
                            }
                        }
                        PartitionDatabaseUpdates::Reset { new_substate_values: m }
                    };
                    u.node_updates.entry(e.clone()).or_default().partition_updates.insert(*pn, pu);
                }
            }
            store.inserted.borrow_mut().clear();
            store.stale.borrow_mut().clear();
            let r = catch(|| put_at_next_version(&store, version, &u));
            let new_version = version.unwrap_or(0) + 1;
            version = Some(new_version);
            let root_key = StoredTreeNodeKey::new(new_version, NibblePath::new_even(vec![]));
            let inserted: Vec<Value> = store
                .inserted
                .borrow()
                .iter()
                .map(|(k, n)| {
                    let depth = k.nibble_path().num_nibbles();
                    let (kind, children, link): (&str, Vec<String>, String) = match n {
                        TreeNodeV1::Internal(i) => ("internal", i.children.iter().map(|c| kid(&k.gen_child_node_key(c.version, c.nibble))).collect(), String::new()),
                        TreeNodeV1::Null => ("null", vec![], String::new()),
                        TreeNodeV1::Leaf(l) => {
                            // full path of the leaf = stored path + key suffix
                            let mut full = k.nibble_path().clone();
                            for nb in l.key_suffix.nibbles() {
                                full.push(nb);
                            }
                            let bytes = full.bytes().to_vec();
                            let link = if depth <= 2 * elen && bytes.len() == elen {
                                // entity-tier leaf -> root of that entity's partition tier
                                let mut p = bytes.clone();
                                p.push(SEP);
                                kid(&StoredTreeNodeKey::new(l.last_hash_change_version, NibblePath::new_even(p)))
                            } else if bytes.len() == elen + 2 {
                                // partition-tier leaf -> root of that partition's substate tier
                                let mut p = bytes.clone();
                                p.push(SEP);
                                kid(&StoredTreeNodeKey::new(l.last_hash_change_version, NibblePath::new_even(p)))
                            } else {
                                String::new()
                            };
                            ("leaf", vec![], link)
                        }
                    };
                    json!({"id": kid(k), "kind": kind, "children": children, "link": link})
                })
                .collect();
            let stale: Vec<Value> = store
                .stale
                .borrow()
                .iter()
                .map(|p| match p {
                    StaleTreePart::Node(k) => json!({"t": "node", "id": kid(k)}),
                    StaleTreePart::Subtree(k) => json!({"t": "subtree", "id": kid(k)}),
                })
                .collect();
            // full read of the current state through the (possibly pruned) store
            let read = catch(|| listed_hashes_generic(list_substate_hashes_at_version(&store, new_version)));
            let expected: usize = model.values().map(|m| m.len()).sum();
            let read_ok = match &read {
                Ok(n) => *n == expected,
                Err(_) => false,
            };
            let has_root = store.inner.get_node(&root_key).is_some();
            out.emit(&json!({"a": "commit", "version": new_version, "panic": r.is_err(), "root": if has_root { kid(&root_key) } else { String::new() },
                "inserted": inserted, "stale": stale, "read_ok": read_ok, "substates": expected}));
        }
    }
    out.flush();
}
fn listed_hashes_generic(m: IndexMap<DbPartitionKey, IndexMap<DbSortKey, Hash>>) -> usize {
    m.values().map(|x| x.len()).sum()
}

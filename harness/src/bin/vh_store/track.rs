//! C12 — binding of spec/Track to radix_engine::track::Track over an InMemorySubstateDatabase.
//! Mode `run`: operation sequences chosen by TLC (GenTrack.tla) are executed on the real Track and
//! what it returned is recorded (validated by TraceTrack.tla).  Mode `record`: seeded random
//! sequences generated here, same recording.
use radix_common::prelude::*;
use radix_engine::track::interface::*;
use radix_engine::track::Track;
use radix_engine_interface::prelude::*;
use radix_substate_store_impls::memory_db::InMemorySubstateDatabase;
use radix_substate_store_interface::interface::*;
use rand::prelude::*;
use serde_json::{json, Value};
use vh::util::*;
use vh::Args;

fn node(existing: bool) -> NodeId {
    let mut b = [0u8; 30];
    b[0] = 0xc0; // internal generic component
    b[1] = if existing { 0x11 } else { 0x22 };
    b[29] = 7;
    NodeId(b)
}
/// model partition -> (node, partition number)
fn part(p: i64) -> (NodeId, PartitionNumber) {
    match p {
        1 => (node(true), PartitionNumber(70)),
        2 => (node(true), PartitionNumber(71)),
        3 => (node(false), PartitionNumber(70)),
        _ => panic!("partition"),
    }
}
fn key(p: i64, k: i64) -> SubstateKey {
    if p == 2 {
        // sorted partition: the 2-byte prefix realises the model's key order
        SubstateKey::Sorted(([0, k as u8], vec![k as u8, 0xaa]))
    } else {
        SubstateKey::Map(vec![k as u8, 0x55])
    }
}
fn unkey(k: &SubstateKey) -> i64 {
    match k {
        SubstateKey::Map(v) if v.len() == 2 && v[1] == 0x55 => v[0] as i64,
        SubstateKey::Sorted((p, v)) if p[0] == 0 && v.len() == 2 && v[0] == p[1] => p[1] as i64,
        _ => -9,
    }
}
fn val(v: i64) -> IndexedScryptoValue {
    IndexedScryptoValue::from_typed(&(v as u64 * 1000 + 7))
}
fn unval(v: &IndexedScryptoValue) -> i64 {
    match v.as_typed::<u64>() {
        Ok(x) if x % 1000 == 7 => (x / 1000) as i64,
        _ => -9,
    }
}
fn unval_bytes(b: &[u8]) -> i64 {
    match scrypto_decode::<u64>(b) {
        Ok(x) if x % 1000 == 7 => (x / 1000) as i64,
        _ => -9,
    }
}
fn no_io(_: IOAccess) -> Result<(), ()> {
    Ok(())
}

pub fn run(mode: &str, args: &Args) {
    match mode {
        "run" => {
            let mut out = Out::new();
            for b in read_lines() {
                exec(b.as_array().unwrap(), &mut out);
            }
            out.flush();
        }
        "record" => record(args),
        _ => panic!("mode"),
    }
}

/// executes one operation sequence (first element = init with the base database) and records it
fn exec(ops: &Vec<Value>, out: &mut Out) {
    let mut db = InMemorySubstateDatabase::standard();
    let init = &ops[0];
    for t in init["e"].as_array().unwrap() {
        let (p, k, v) = (t[0].as_i64().unwrap(), t[1].as_i64().unwrap(), t[2].as_i64().unwrap());
        let (n, pn) = part(p);
        db.update_substate_raw(n, pn, key(p, k), val(v).into());
    }
    out.emit(&json!({"a": "init", "e": init["e"]}));
    let mut track = Track::new(&db);
    for op in &ops[1..] {
        let a = op["a"].as_str().unwrap();
        let (p, k, v) = (op["p"].as_i64().unwrap_or(0), op["k"].as_i64().unwrap_or(0), op["v"].as_i64().unwrap_or(0));
        let r = catch(|| match a {
            "create" => {
                let (n, pn) = part(3);
                let mut subs: BTreeMap<SubstateKey, IndexedScryptoValue> = BTreeMap::new();
                for t in op["e"].as_array().unwrap() {
                    subs.insert(key(3, t[0].as_i64().unwrap()), val(t[1].as_i64().unwrap()));
                }
                let mut ns: NodeSubstates = BTreeMap::new();
                ns.insert(pn, subs);
                track.create_node(n, ns, &mut no_io).unwrap();
                json!({"a": "create", "e": op["e"]})
            }
            "get" => {
                let (n, pn) = part(p);
                let r = track.get_substate(&n, pn, &key(p, k), &mut no_io).unwrap().map(unval).unwrap_or(0);
                json!({"a": "get", "p": p, "k": k, "ret": r})
            }
            "set" => {
                let (n, pn) = part(p);
                track.set_substate(n, pn, key(p, k), val(v), &mut no_io).unwrap();
                json!({"a": "set", "p": p, "k": k, "v": v})
            }
            "remove" => {
                let (n, pn) = part(p);
                let r = track.remove_substate(&n, pn, &key(p, k), &mut no_io).unwrap().map(|x| unval(&x)).unwrap_or(0);
                json!({"a": "remove", "p": p, "k": k, "ret": r})
            }
            "scan" => {
                let (n, pn) = part(p);
                let r: Vec<SubstateKey> = if p == 2 {
                    track.scan_keys::<SortedKey, _, _>(&n, pn, v as u32, &mut no_io).unwrap()
                } else {
                    track.scan_keys::<MapKey, _, _>(&n, pn, v as u32, &mut no_io).unwrap()
                };
                json!({"a": "scan", "p": p, "v": v, "ret": r.iter().map(unkey).collect::<Vec<_>>()})
            }
            "drain" => {
                let (n, pn) = part(p);
                let r: Vec<(SubstateKey, IndexedScryptoValue)> = if p == 2 {
                    track.drain_substates::<SortedKey, _, _>(&n, pn, v as u32, &mut no_io).unwrap()
                } else {
                    track.drain_substates::<MapKey, _, _>(&n, pn, v as u32, &mut no_io).unwrap()
                };
                json!({"a": "drain", "p": p, "v": v, "ret": r.iter().map(|(k, x)| json!([unkey(k), unval(x)])).collect::<Vec<_>>()})
            }
            "sorted" => {
                let (n, pn) = part(2);
                let r = track.scan_sorted_substates(&n, pn, v as u32, &mut no_io).unwrap();
                json!({"a": "sorted", "v": v, "ret": r.iter().map(|(k, x)| json!([unkey(&SubstateKey::Sorted(k.clone())), unval(x)])).collect::<Vec<_>>()})
            }
            "force" => {
                let (n, pn) = part(p);
                track.force_write(&n, &pn, &key(p, k));
                json!({"a": "force", "p": p, "k": k})
            }
            "revert" => {
                track.revert_non_force_write_changes();
                json!({"a": "revert"})
            }
            _ => panic!("op"),
        });
        match r {
            Ok(ev) => out.emit(&ev),
            Err(e) => {
                out.emit(&json!({"a": "panic", "op": op, "msg": e}));
                return;
            }
        }
    }
    // finalize: the state updates, projected back to model locations
    let r = catch(move || {
        let (tracked, _) = track.finalize().map_err(|e| format!("{:?}", e)).unwrap();
        let (new_nodes, su) = tracked.to_state_updates();
        let mut upd: Vec<Value> = vec![];
        let mut other = 0;
        for (n, nu) in su.by_node.iter() {
            let NodeStateUpdates::Delta { by_partition } = nu;
            for (pn, pu) in by_partition {
                let p = (1..=3).find(|p| part(*p) == (*n, *pn));
                match (p, pu) {
                    (Some(p), PartitionStateUpdates::Delta { by_substate }) => {
                        for (sk, du) in by_substate {
                            let v = match du {
                                DatabaseUpdate::Set(b) => unval_bytes(b),
                                DatabaseUpdate::Delete => 0,
                            };
                            upd.push(json!([p, unkey(sk), v]));
                        }
                    }
                    _ => other += 1,
                }
            }
        }
        json!({"a": "finalize", "upd": upd, "new_node": new_nodes.contains(&node(false)), "other": other})
    });
    match r {
        Ok(ev) => out.emit(&ev),
        Err(e) => out.emit(&json!({"a": "panic", "op": "finalize", "msg": e})),
    }
}

/// seeded random sequences at a larger scale than the model-chosen ones (same enabling rules)
fn record(args: &Args) {
    let seed = args.u64("seed", 1);
    let runs = args.u64("runs", 20);
    let len = args.u64("len", 40);
    let nk = args.u64("keys", 4) as i64;
    let nv = args.u64("vals", 3) as i64;
    let mut rng = StdRng::seed_from_u64(seed);
    let mut out = Out::new();
    for _ in 0..runs {
        let mut e: Vec<Value> = vec![];
        for p in 1..=2 {
            for k in 1..=nk {
                if rng.gen_bool(0.6) {
                    e.push(json!([p, k, rng.gen_range(1..=nv)]));
                }
            }
        }
        let mut ops: Vec<Value> = vec![json!({"a": "init", "e": e})];
        let (mut created, mut reverted) = (false, false);
        let mut acc: Vec<(i64, i64)> = vec![];
        let mut blind: Vec<(i64, i64)> = vec![];
        let mut forced: Vec<(i64, i64)> = vec![];
        for _ in 0..len {
            let p = if created { rng.gen_range(1..=3) } else { rng.gen_range(1..=2) };
            let k = rng.gen_range(1..=nk);
            let lim = rng.gen_range(0..=nk + 1);
            // after a revert, blind-written locations that were not force-written are not touched
            let ok_loc = !reverted || !(blind.contains(&(p, k)) && !forced.contains(&(p, k)));
            let choice = rng.gen_range(0..20);
            if choice <= 8 && !ok_loc {
                continue;
            }
            match choice {
                0..=2 => {
                    ops.push(json!({"a": "get", "p": p, "k": k}));
                    acc.push((p, k));
                }
                3..=6 => {
                    ops.push(json!({"a": "set", "p": p, "k": k, "v": rng.gen_range(1..=nv)}));
                    if !acc.contains(&(p, k)) {
                        blind.push((p, k));
                    }
                    acc.push((p, k));
                }
                7..=8 => {
                    ops.push(json!({"a": "remove", "p": p, "k": k}));
                    acc.push((p, k));
                }
                9..=10 if !reverted => ops.push(json!({"a": "scan", "p": p, "v": lim})),
                11..=13 if !reverted => ops.push(json!({"a": "drain", "p": p, "v": lim})),
                14..=15 if !reverted => ops.push(json!({"a": "sorted", "p": 2, "v": lim})),
                16 if !created && !reverted => {
                    let mut subs: Vec<Value> = vec![];
                    for k in 1..=nk {
                        if rng.gen_bool(0.5) {
                            subs.push(json!([k, rng.gen_range(1..=nv)]));
                        }
                    }
                    ops.push(json!({"a": "create", "e": subs}));
                    created = true;
                }
                17..=18 if !reverted => {
                    let cands: Vec<(i64, i64)> = acc.iter().filter(|l| l.0 != 3).cloned().collect();
                    if let Some(l) = cands.choose(&mut rng) {
                        ops.push(json!({"a": "force", "p": l.0, "k": l.1}));
                        forced.push(*l);
                    }
                }
                19 if !reverted => {
                    ops.push(json!({"a": "revert"}));
                    reverted = true;
                    created = false;
                    acc.retain(|l| l.0 != 3);
                }
                _ => {}
            }
        }
        exec(&ops, &mut out);
    }
    out.flush();
}

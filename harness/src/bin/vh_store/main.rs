//! vh_store — storage column: SubstateLocks (C13), SubstateStore/Overlay (C14, C15), KeyMapper
//! (C16), Track (C12), StateTree (C17, C18), MerkleCommit (C19), TxTracker unit level (C07).
#![allow(clippy::all)]
mod locks;
mod store;
mod track;
mod tree;

fn main() {
    let (module, mode, args) = vh::start();
    match module.as_str() {
        "locks" => locks::run(&mode, &args),
        "store" => store::run(&mode, &args),
        "tree" => tree::run(&mode, &args),
        "track" => track::run(&mode, &args),
        m => vh::unknown(m),
    }
}

//! C14 / C15 — binding of spec/SubstateStore (abstract database, overlay refinement) to
//! SubstateDatabaseOverlay, InMemorySubstateDatabase, RocksdbSubstateStore and
//! RocksDBWithMerkleTreeSubstateStore.
use radix_common::prelude::*;
use radix_substate_store_impls::memory_db::InMemorySubstateDatabase;
use radix_substate_store_impls::rocks_db::RocksdbSubstateStore;
use radix_substate_store_impls::rocks_db_with_merkle_tree::RocksDBWithMerkleTreeSubstateStore;
use radix_substate_store_impls::substate_database_overlay::*;
use radix_substate_store_interface::interface::*;
use rand::prelude::*;
use serde_json::{json, Value};
use std::collections::{BTreeMap, BTreeSet};
use vh::util::*;
use vh::Args;

thread_local! {
    /// behaviour tag prepended to node keys so that many behaviours can share one on-disk store
    static TAG: std::cell::Cell<u32> = std::cell::Cell::new(0);
}
fn tag_bytes() -> Vec<u8> {
    let t = TAG.with(|t| t.get());
    if t == 0 { vec![] } else { t.to_be_bytes().to_vec() }
}

/// model partition p -> (node key, partition number); fixed, documented mapping
pub fn part(p: i64) -> DbPartitionKey {
    let (node, num): (&[u8], u8) = match p {
        1 => (b"\x01node-a", 0),
        2 => (b"\x01node-a", 255),
        3 => (b"\x02n", 7),
        4 => (b"\x02n", 8),
        5 => (b"\x02", 8),
        _ => (b"\xff\xff\xff", 128),
    };
    let mut node_key = tag_bytes();
    node_key.extend_from_slice(node);
    DbPartitionKey { node_key, partition_num: num }
}
pub fn skey(k: i64) -> DbSortKey {
    DbSortKey(vec![k as u8])
}
pub fn val(v: i64) -> Vec<u8> {
    vec![v as u8; (v + 2) as usize]
}
pub fn unval(b: &[u8]) -> i64 {
    if !b.is_empty() && b.len() == b[0] as usize + 2 && b.iter().all(|x| *x == b[0]) {
        b[0] as i64
    } else {
        -9
    }
}
fn unkey(k: &DbSortKey) -> i64 {
    if k.0.len() == 1 { k.0[0] as i64 } else { -9 }
}

/// model update JSON [[p, kind, [[k, v]...]]...] -> DatabaseUpdates
pub fn updates(u: &Value) -> DatabaseUpdates {
    let mut res = DatabaseUpdates::default();
    for pu in u.as_array().unwrap() {
        let pk = part(pu[0].as_i64().unwrap());
        let kind = pu[1].as_str().unwrap();
        let entries: Vec<(i64, i64)> =
            pu[2].as_array().unwrap().iter().map(|e| (e[0].as_i64().unwrap(), e[1].as_i64().unwrap())).collect();
        let upd = match kind {
            "d" => PartitionDatabaseUpdates::Delta {
                substate_updates: entries
                    .iter()
                    .map(|(k, v)| (skey(*k), if *v > 0 { DatabaseUpdate::Set(val(*v)) } else { DatabaseUpdate::Delete }))
                    .collect(),
            },
            "r" => PartitionDatabaseUpdates::Reset {
                new_substate_values: entries.iter().filter(|(_, v)| *v > 0).map(|(k, v)| (skey(*k), val(*v))).collect(),
            },
            _ => panic!("kind"),
        };
        res.node_updates.entry(pk.node_key.clone()).or_default().partition_updates.insert(pk.partition_num, upd);
    }
    res
}

/// base content from the "init" observation (get triples) as a commit
fn base_updates(obs: &Value) -> DatabaseUpdates {
    let mut res = DatabaseUpdates::default();
    for g in obs["get"].as_array().unwrap() {
        let (p, k, v) = (g[0].as_i64().unwrap(), g[1].as_i64().unwrap(), g[2].as_i64().unwrap());
        if v > 0 {
            let pk = part(p);
            let e = res.node_updates.entry(pk.node_key.clone()).or_default().partition_updates.entry(pk.partition_num).or_insert(
                PartitionDatabaseUpdates::Delta { substate_updates: Default::default() },
            );
            if let PartitionDatabaseUpdates::Delta { substate_updates } = e {
                substate_updates.insert(skey(k), DatabaseUpdate::Set(val(v)));
            }
        }
    }
    res
}

/// compares everything the model says is observable with the real database
fn compare<D: SubstateDatabase>(db: &D, obs: &Value, out: &mut Out, b: usize, step: usize, who: &str) {
    for g in obs["get"].as_array().unwrap() {
        let (p, k, v) = (g[0].as_i64().unwrap(), g[1].as_i64().unwrap(), g[2].as_i64().unwrap());
        let got = catch(|| db.get_raw_substate_by_db_key(&part(p), &skey(k)));
        let gv = match &got {
            Ok(None) => 0,
            Ok(Some(bytes)) => unval(bytes),
            Err(_) => -7,
        };
        if gv != v {
            out.mismatch(b, step, &format!("{} get", who), json!([p, k, v]), json!([p, k, gv]));
        }
    }
    for l in obs["lists"].as_array().unwrap() {
        let (p, c) = (l[0].as_i64().unwrap(), l[1].as_i64().unwrap());
        let exp: Vec<(i64, i64)> = l[2].as_array().unwrap().iter().map(|e| (e[0].as_i64().unwrap(), e[1].as_i64().unwrap())).collect();
        let cur = skey(c);
        let variants: Vec<Option<&DbSortKey>> = if c == 0 { vec![None, Some(&cur)] } else { vec![Some(&cur)] };
        for cv in variants {
            let got = catch(|| {
                db.list_raw_values_from_db_key(&part(p), cv).map(|(k, v)| (unkey(&k), unval(&v))).collect::<Vec<_>>()
            });
            match got {
                Ok(g) if g == exp => {}
                Ok(g) => out.mismatch(b, step, &format!("{} list", who), json!([p, c, exp]), json!([p, c, g])),
                Err(e) => out.mismatch(b, step, &format!("{} list panic", who), json!([p, c, exp]), json!(e)),
            }
        }
    }
}
fn compare_parts<D: ListableSubstateDatabase>(db: &D, obs: &Value, nparts: i64, out: &mut Out, b: usize, step: usize, who: &str) {
    let exp: BTreeSet<i64> = i64s(&obs["parts"]).into_iter().collect();
    let tag = tag_bytes();
    let listed: Vec<DbPartitionKey> = db.list_partition_keys().filter(|k| tag.is_empty() || k.node_key.starts_with(&tag)).collect();
    let set: BTreeSet<DbPartitionKey> = listed.iter().cloned().collect();
    let got: BTreeSet<i64> = (1..=nparts).filter(|p| set.contains(&part(*p))).collect();
    let extra = set.len() != got.len() || listed.len() != set.len();
    if got != exp || extra {
        out.mismatch(b, step, &format!("{} partitions", who), json!(exp), json!({"got": got, "listed": listed.len()}));
    }
}

pub fn run(mode: &str, args: &Args) {
    match mode {
        "overlay" => replay_overlay(args),
        "stores" => replay_stores(args),
        "record" => record(args),
        "prefix" => prefix_probe(args),
        _ => panic!("mode"),
    }
}

/// C14: every behaviour (base, commits) is applied to an overlay over an in-memory database
fn replay_overlay(_args: &Args) {
    let mut out = Out::new();
    let behaviours = read_lines();
    let mut steps = 0;
    for (bi, b) in behaviours.iter().enumerate() {
        let hist = b.as_array().unwrap();
        let mut root = InMemorySubstateDatabase::standard();
        root.commit(&base_updates(&hist[0]["obs"]));
        let pristine = root.clone();
        let mut overlay = SubstateDatabaseOverlay::new_owned(root);
        compare(&overlay, &hist[0]["obs"], &mut out, bi, 0, "overlay");
        let commits: Vec<DatabaseUpdates> = hist[1..].iter().map(|s| updates(&s["upd"])).collect();
        for (si, st) in hist.iter().enumerate().skip(1) {
            steps += 1;
            overlay.commit(&commits[si - 1]);
            compare(&overlay, &st["obs"], &mut out, bi, si, "overlay");
            // the root is untouched by commits to the overlay
            compare(&pristine, &hist[0]["obs"], &mut out, bi, si, "root-under-overlay");
            // two-level: first half of the commits in an inner overlay, the rest in an outer one
            let j = si / 2;
            let mut inner = SubstateDatabaseOverlay::new_unmergeable(&pristine);
            for c in &commits[..j] {
                inner.commit(c);
            }
            let mut outer = SubstateDatabaseOverlay::new_unmergeable(&inner);
            for c in &commits[j..si] {
                outer.commit(c);
            }
            compare(&outer, &st["obs"], &mut out, bi, si, "overlay2");
            // merging a copy of the overlay into a copy of the root yields the flat database
            let mut root2 = pristine.clone();
            {
                let mut ov2 = SubstateDatabaseOverlay::new_mergeable(&mut root2);
                for c in &commits[..si] {
                    ov2.commit(c);
                }
                ov2.commit_overlay_into_root_store();
                compare(&ov2, &st["obs"], &mut out, bi, si, "overlay-after-merge");
            }
            compare(&root2, &st["obs"], &mut out, bi, si, "merged-root");
            compare_parts(&root2, &st["obs"], 6, &mut out, bi, si, "merged-root");
        }
    }
    out.done(behaviours.len(), steps);
}

/// C15: every behaviour is applied to the three store implementations.  All behaviours share one
/// on-disk store per implementation (node keys carry a per-behaviour tag); every `reopen`-th
/// behaviour closes and reopens the RocksDB stores after each of its commits.
fn replay_stores(args: &Args) {
    let mut out = Out::new();
    let behaviours = read_lines();
    let dir = args.str("dir", "/verif/work/stores");
    let reopen = args.u64("reopen", 40) as usize;
    let mut steps = 0;
    let d1 = std::path::PathBuf::from(format!("{}/r", dir));
    let d2 = std::path::PathBuf::from(format!("{}/m", dir));
    let _ = std::fs::remove_dir_all(&d1);
    let _ = std::fs::remove_dir_all(&d2);
    std::fs::create_dir_all(&d1).unwrap();
    std::fs::create_dir_all(&d2).unwrap();
    let mut rocks = RocksdbSubstateStore::standard(d1.clone());
    let mut merkle = RocksDBWithMerkleTreeSubstateStore::standard(d2.clone());
    for (bi, b) in behaviours.iter().enumerate() {
        TAG.with(|t| t.set(bi as u32 + 1));
        let hist = b.as_array().unwrap();
        let mut mem = InMemorySubstateDatabase::standard();
        let base = base_updates(&hist[0]["obs"]);
        mem.commit(&base);
        if let Err(e) = catch(|| rocks.commit(&base)) {
            out.mismatch(bi, 0, "rocksdb commit panic", json!("ok"), json!(e));
        }
        if let Err(e) = catch(|| merkle.commit(&base)) {
            out.mismatch(bi, 0, "rocksdb-merkle commit panic", json!("ok"), json!(e));
        }
        for (si, st) in hist.iter().enumerate() {
            if si > 0 {
                steps += 1;
                let u = updates(&st["upd"]);
                mem.commit(&u);
                if let Err(e) = catch(|| rocks.commit(&u)) {
                    out.mismatch(bi, si, "rocksdb commit panic", json!("ok"), json!(e));
                }
                if let Err(e) = catch(|| merkle.commit(&u)) {
                    out.mismatch(bi, si, "rocksdb-merkle commit panic", json!("ok"), json!(e));
                }
                if reopen > 0 && bi % reopen == 0 {
                    drop(rocks);
                    drop(merkle);
                    rocks = RocksdbSubstateStore::standard(d1.clone());
                    merkle = RocksDBWithMerkleTreeSubstateStore::standard(d2.clone());
                }
            }
            compare(&mem, &st["obs"], &mut out, bi, si, "memory");
            compare(&rocks, &st["obs"], &mut out, bi, si, "rocksdb");
            compare(&merkle, &st["obs"], &mut out, bi, si, "rocksdb-merkle");
            compare_parts(&mem, &st["obs"], 6, &mut out, bi, si, "memory");
            compare_parts(&rocks, &st["obs"], 6, &mut out, bi, si, "rocksdb");
            compare_parts(&merkle, &st["obs"], 6, &mut out, bi, si, "rocksdb-merkle");
        }
    }
    TAG.with(|t| t.set(0));
    drop(rocks);
    drop(merkle);
    let _ = std::fs::remove_dir_all(&d1);
    let _ = std::fs::remove_dir_all(&d2);
    out.done(behaviours.len(), steps);
}

// ---------------------------------------------------------------------------------------------
// T for C15: histories over arbitrary byte-string keys; every store's full observable content is
// recorded after every commit in the *rank* projection (partition / sort key -> position in the
// run's sorted universe), so that TraceStore.tla can compare it with the abstract database.

fn rand_bytes(rng: &mut StdRng, min: usize, max: usize) -> Vec<u8> {
    let n = rng.gen_range(min..=max);
    (0..n).map(|_| match rng.gen_range(0..6) { 0 => 0u8, 1 => 0xff, 2 => 1, _ => rng.gen() }).collect()
}

fn dump<D: SubstateDatabase + ListableSubstateDatabase>(
    db: &D,
    parts: &Vec<DbPartitionKey>,
    keys: &Vec<DbSortKey>,
    vals: &BTreeMap<Vec<u8>, i64>,
    probes: &Vec<(usize, usize)>,
) -> Value {
    let krank = |k: &DbSortKey| keys.iter().position(|x| x == k).map(|i| i as i64 + 1).unwrap_or(-9);
    let vrank = |v: &Vec<u8>| *vals.get(v).unwrap_or(&-9);
    let content: Vec<Value> = parts
        .iter()
        .map(|p| json!(db.list_raw_values_from_db_key(p, None).map(|(k, v)| json!([krank(&k), vrank(&v)])).collect::<Vec<_>>()))
        .collect();
    let listed: Vec<DbPartitionKey> = db.list_partition_keys().collect();
    let mut prt: Vec<i64> = vec![];
    let mut unknown = 0;
    for l in &listed {
        match parts.iter().position(|x| x == l) {
            Some(i) => prt.push(i as i64 + 1),
            None => unknown += 1,
        }
    }
    let pr: Vec<Value> = probes
        .iter()
        .map(|(pi, ki)| {
            let g = db.get_raw_substate_by_db_key(&parts[*pi], &keys[*ki]).map(|v| vrank(&v)).unwrap_or(0);
            let l: Vec<Value> = db.list_raw_values_from_db_key(&parts[*pi], Some(&keys[*ki])).map(|(k, v)| json!([krank(&k), vrank(&v)])).collect();
            json!({"p": pi + 1, "k": ki + 1, "get": g, "list": l})
        })
        .collect();
    json!({"content": content, "parts": prt, "unknown_parts": unknown, "dup_parts": listed.len() - listed.iter().collect::<BTreeSet<_>>().len(), "probes": pr})
}

fn record(args: &Args) {
    let seed = args.u64("seed", 1);
    let runs = args.u64("runs", 5);
    let len = args.u64("len", 12);
    let np = args.u64("parts", 5) as usize;
    let nk = args.u64("keys", 6) as usize;
    let dir = args.str("dir", "/verif/work/stores-rec");
    let mut rng = StdRng::seed_from_u64(seed);
    let mut out = Out::new();
    for run in 0..runs {
        // universe of this run: partitions over 1-3 node keys (some prefix-related), sort keys incl.
        // empty, 0xff-prefixed and prefix-related ones; ranked by byte order
        // Node keys and the sort keys of one run are prefix-free (as the keys produced by the
        // DatabaseKeyMapper are: fixed-length hash prefixes); prefix-related keys are probed separately.
        let nlen = rng.gen_range(1..=50);
        let mut nodes: Vec<Vec<u8>> = vec![];
        while nodes.len() < 3 {
            let mut n = rand_bytes(&mut rng, nlen, nlen);
            if !nodes.is_empty() && rng.gen_bool(0.5) {
                // shares all but the last byte with another node key
                n = nodes[0].clone();
                *n.last_mut().unwrap() = rng.gen();
            }
            if !nodes.contains(&n) {
                nodes.push(n);
            }
        }
        let mut pset: BTreeSet<DbPartitionKey> = BTreeSet::new();
        while pset.len() < np {
            let node_key = nodes[rng.gen_range(0..nodes.len())].clone();
            let partition_num = *[0u8, 1, 64, 254, 255, rng.gen()].choose(&mut rng).unwrap();
            pset.insert(DbPartitionKey { node_key, partition_num });
        }
        let parts: Vec<DbPartitionKey> = pset.into_iter().collect();
        let mut kset: BTreeSet<DbSortKey> = BTreeSet::new();
        let prefix_free = |set: &BTreeSet<DbSortKey>, k: &Vec<u8>| set.iter().all(|o| !o.0.starts_with(k) && !k.starts_with(&o.0));
        let ff = vec![0xff; rng.gen_range(1..40)];
        kset.insert(DbSortKey(ff));
        while kset.len() < nk {
            let mut k = rand_bytes(&mut rng, 1, 60);
            if rng.gen_bool(0.4) {
                // differs from an existing key only in its last byte
                let other = kset.iter().nth(rng.gen_range(0..kset.len())).unwrap().0.clone();
                k = other;
                *k.last_mut().unwrap() = rng.gen();
            }
            if prefix_free(&kset, &k) {
                kset.insert(DbSortKey(k));
            }
        }
        let keys: Vec<DbSortKey> = kset.into_iter().collect();
        let values: Vec<Vec<u8>> = vec![vec![], vec![0], rand_bytes(&mut rng, 1, 300)];
        let vals: BTreeMap<Vec<u8>, i64> = values.iter().enumerate().map(|(i, v)| (v.clone(), i as i64 + 1)).collect();
        let d1 = std::path::PathBuf::from(format!("{}/r{}", dir, run));
        let d2 = std::path::PathBuf::from(format!("{}/m{}", dir, run));
        let _ = std::fs::remove_dir_all(&d1);
        let _ = std::fs::remove_dir_all(&d2);
        std::fs::create_dir_all(&d1).unwrap();
        std::fs::create_dir_all(&d2).unwrap();
        let mut mem = InMemorySubstateDatabase::standard();
        let mut rocks = RocksdbSubstateStore::standard(d1.clone());
        let mut merkle = RocksDBWithMerkleTreeSubstateStore::standard(d2.clone());
        out.emit(&json!({"a": "reset", "np": np, "nk": nk}));
        for step in 0..len {
            let mut u = DatabaseUpdates::default();
            let mut uj: Vec<Value> = vec![];
            for (pi, p) in parts.iter().enumerate() {
                let r = rng.gen_range(0..10);
                if r < 4 {
                    continue;
                }
                let mut entries: Vec<Value> = vec![];
                let pu = if r < 8 {
                    let mut m = IndexMap::new();
                    for (ki, k) in keys.iter().enumerate() {
                        match rng.gen_range(0..3) {
                            0 => {}
                            1 => {
                                m.insert(k.clone(), DatabaseUpdate::Delete);
                                entries.push(json!([ki + 1, 0]));
                            }
                            _ => {
                                let vi = rng.gen_range(0..values.len());
                                m.insert(k.clone(), DatabaseUpdate::Set(values[vi].clone()));
                                entries.push(json!([ki + 1, vi + 1]));
                            }
                        }
                    }
                    uj.push(json!([pi + 1, "d", entries]));
                    PartitionDatabaseUpdates::Delta { substate_updates: m }
                } else {
                    let mut m = IndexMap::new();
                    for (ki, k) in keys.iter().enumerate() {
                        if rng.gen_bool(0.3) {
                            let vi = rng.gen_range(0..values.len());
                            m.insert(k.clone(), values[vi].clone());
                            entries.push(json!([ki + 1, vi + 1]));
                        }
                    }
                    uj.push(json!([pi + 1, "r", entries]));
                    PartitionDatabaseUpdates::Reset { new_substate_values: m }
                };
                u.node_updates.entry(p.node_key.clone()).or_default().partition_updates.insert(p.partition_num, pu);
            }
            mem.commit(&u);
            let p1 = catch(|| rocks.commit(&u)).is_err();
            let p2 = catch(|| merkle.commit(&u)).is_err();
            if p1 || p2 {
                // a panicking commit is recorded as an event no action of TraceStore matches
                out.emit(&json!({"a": "commit-panic", "rocks": p1, "merkle": p2, "upd": uj}));
                break;
            }
            if step % 4 == 3 && run % 3 == 0 {
                drop(rocks);
                drop(merkle);
                rocks = RocksdbSubstateStore::standard(d1.clone());
                merkle = RocksDBWithMerkleTreeSubstateStore::standard(d2.clone());
            }
            let probes: Vec<(usize, usize)> = (0..4).map(|_| (rng.gen_range(0..np), rng.gen_range(0..nk))).collect();
            out.emit(&json!({"a": "commit", "upd": uj,
                "mem": dump(&mem, &parts, &keys, &vals, &probes),
                "rocks": dump(&rocks, &parts, &keys, &vals, &probes),
                "merkle": dump(&merkle, &parts, &keys, &vals, &probes)}));
        }
        drop(rocks);
        drop(merkle);
        let _ = std::fs::remove_dir_all(&d1);
        let _ = std::fs::remove_dir_all(&d2);
    }
    out.flush();
}

/// Probe with prefix-related sort keys (one key a prefix of another) in one partition: outside what
/// the DatabaseKeyMapper produces, but inside the statement of C15 ("arbitrary sort keys").
/// Emits, per store, the outcome and the ordered ranks listed after each of the three commits.
fn prefix_probe(args: &Args) {
    let dir = args.str("dir", "/verif/work/stores-prefix");
    let mut out = Out::new();
    let pk = DbPartitionKey { node_key: vec![7, 7], partition_num: 3 };
    let keys = vec![DbSortKey(vec![]), DbSortKey(vec![1]), DbSortKey(vec![1, 2])];
    let mk = |sets: Vec<(usize, Option<u8>)>| {
        let mut u = DatabaseUpdates::default();
        let m: IndexMap<DbSortKey, DatabaseUpdate> = sets
            .into_iter()
            .map(|(k, v)| (keys[k].clone(), v.map(|x| DatabaseUpdate::Set(vec![x])).unwrap_or(DatabaseUpdate::Delete)))
            .collect();
        u.node_updates.entry(pk.node_key.clone()).or_default().partition_updates.insert(pk.partition_num, PartitionDatabaseUpdates::Delta { substate_updates: m });
        u
    };
    let commits = vec![mk(vec![(0, Some(1)), (1, Some(2))]), mk(vec![(2, Some(3))]), mk(vec![(1, None)])];
    fn drive<D: SubstateDatabase + CommittableSubstateDatabase>(db: &mut D, commits: &Vec<DatabaseUpdates>, pk: &DbPartitionKey, keys: &Vec<DbSortKey>) -> Vec<Vec<i64>> {
        let mut res = vec![];
        for c in commits {
            db.commit(c);
            res.push(db.list_raw_values_from_db_key(pk, None).map(|(k, _)| keys.iter().position(|x| *x == k).map(|i| i as i64 + 1).unwrap_or(-9)).collect());
        }
        res
    }
    let d1 = std::path::PathBuf::from(format!("{}/r", dir));
    let d2 = std::path::PathBuf::from(format!("{}/m", dir));
    for d in [&d1, &d2] {
        let _ = std::fs::remove_dir_all(d);
        std::fs::create_dir_all(d).unwrap();
    }
    let r = catch(|| drive(&mut InMemorySubstateDatabase::standard(), &commits, &pk, &keys));
    out.emit(&json!({"store": "memory", "panic": r.is_err(), "lists": r.unwrap_or_default()}));
    let r = catch(|| drive(&mut RocksdbSubstateStore::standard(d1.clone()), &commits, &pk, &keys));
    out.emit(&json!({"store": "rocksdb", "panic": r.is_err(), "lists": r.unwrap_or_default()}));
    let r = catch(|| drive(&mut RocksDBWithMerkleTreeSubstateStore::standard(d2.clone()), &commits, &pk, &keys));
    out.emit(&json!({"store": "rocksdb-merkle", "panic": r.is_err(), "lists": r.unwrap_or_default()}));
    let _ = std::fs::remove_dir_all(&d1);
    let _ = std::fs::remove_dir_all(&d2);
    out.flush();
}

//! C13 — binding of spec/SubstateLocks to radix_engine::kernel::substate_locks::SubstateLocks.
use vh::util::*;
use vh::Args;
use radix_engine::kernel::substate_locks::SubstateLocks;
use radix_engine_interface::prelude::*;
use rand::prelude::*;
use serde_json::{json, Value};
use std::collections::{BTreeMap, BTreeSet};

fn node(n: i64) -> NodeId {
    let mut b = [0u8; 30];
    b[0] = 0xc0; // internal generic component
    b[29] = n as u8;
    b[7] = (n * 31) as u8;
    NodeId(b)
}
/// key index -> (partition, substate key): spreads over the three key kinds and two partitions
fn key(k: i64) -> (PartitionNumber, SubstateKey) {
    let p = PartitionNumber((k % 2) as u8 + 64);
    let sk = match k % 3 {
        0 => SubstateKey::Field(k as u8),
        1 => SubstateKey::Map(vec![k as u8, 7]),
        _ => SubstateKey::Sorted(([0, k as u8], vec![k as u8])),
    };
    (p, sk)
}

struct Real {
    locks: SubstateLocks<()>,
    open: BTreeMap<i64, u32>, // model handle -> real handle
    granted: i64,
}
impl Real {
    fn new() -> Self {
        Real { locks: SubstateLocks::new(), open: BTreeMap::new(), granted: 0 }
    }
    /// returns the canonical (sequence-numbered) handle or -1; -3 if the real handle is a duplicate
    fn lock(&mut self, n: i64, k: i64, ro: bool) -> i64 {
        let (p, sk) = key(k);
        match self.locks.lock(&node(n), p, &sk, ro, ()) {
            None => -1,
            Some(h) => {
                if self.open.values().any(|x| *x == h) {
                    return -3;
                }
                let id = self.granted;
                self.granted += 1;
                self.open.insert(id, h);
                id
            }
        }
    }
    fn unlock(&mut self, h: i64) -> Result<(), String> {
        let real = *self.open.get(&h).ok_or("unknown handle")?;
        let r = catch(|| {
            let _ = self.locks.unlock(real);
        });
        self.open.remove(&h);
        r
    }
    fn locked(&self, nodes: i64, keys: i64) -> Vec<(i64, i64)> {
        let mut v = vec![];
        for n in 1..=nodes {
            for k in 1..=keys {
                let (p, sk) = key(k);
                if self.locks.is_locked(&node(n), p, &sk) {
                    v.push((n, k));
                }
            }
        }
        v
    }
    fn nlocked(&self, nodes: i64) -> Vec<i64> {
        (1..=nodes).filter(|n| self.locks.node_is_locked(&node(*n))).collect()
    }
}

fn pairs(v: &Value) -> BTreeSet<(i64, i64)> {
    v.as_array().unwrap().iter().map(|p| (p[0].as_i64().unwrap(), p[1].as_i64().unwrap())).collect()
}

pub fn run(mode: &str, args: &Args) {
    match mode {
        "replay" => replay(args),
        "record" => record(args),
        _ => panic!("mode"),
    }
}

fn replay(args: &Args) {
    let nodes = args.u64("nodes", 3) as i64;
    let keys = args.u64("keys", 3) as i64;
    let mut out = Out::new();
    let behaviours = read_lines();
    let mut steps = 0;
    for (bi, b) in behaviours.iter().enumerate() {
        let mut real = Real::new();
        for (si, st) in b.as_array().unwrap().iter().enumerate() {
            steps += 1;
            let exp_ret = st["ret"].as_i64().unwrap();
            match st["a"].as_str().unwrap() {
                "lock" => {
                    let got = real.lock(st["n"].as_i64().unwrap(), st["k"].as_i64().unwrap(), st["ro"].as_bool().unwrap());
                    if (got >= 0) != (exp_ret >= 0) || got == -3 {
                        out.mismatch(bi, si, "lock result", json!(exp_ret), json!(got));
                    }
                }
                "unlock" => {
                    if let Err(e) = real.unlock(exp_ret) {
                        out.mismatch(bi, si, "unlock failed", json!("ok"), json!(e));
                    }
                }
                _ => panic!("bad action"),
            }
            let el = pairs(&st["locked"]);
            let gl: BTreeSet<(i64, i64)> = real.locked(nodes, keys).into_iter().collect();
            if el != gl {
                out.mismatch(bi, si, "is_locked set", json!(el), json!(gl));
            }
            let en: BTreeSet<i64> = i64s(&st["nlocked"]).into_iter().collect();
            let gn: BTreeSet<i64> = real.nlocked(nodes).into_iter().collect();
            if en != gn {
                out.mismatch(bi, si, "node_is_locked set", json!(en), json!(gn));
            }
        }
    }
    out.done(behaviours.len(), steps);
}

fn record(args: &Args) {
    let seed = args.u64("seed", 1);
    let runs = args.u64("runs", 10);
    let len = args.u64("len", 200);
    let nodes = args.u64("nodes", 6) as i64;
    let keys = args.u64("keys", 8) as i64;
    let mut rng = StdRng::seed_from_u64(seed);
    let mut out = Out::new();
    for _ in 0..runs {
        out.emit(&json!({"a": "reset"}));
        let mut real = Real::new();
        // each run concentrates on a few substates so that contention is frequent
        let hot_n = rng.gen_range(1..=nodes);
        for _ in 0..len {
            let do_unlock = !real.open.is_empty() && rng.gen_bool(0.45);
            if do_unlock {
                let hs: Vec<i64> = real.open.keys().cloned().collect();
                let h = hs[rng.gen_range(0..hs.len())];
                let r = real.unlock(h);
                out.emit(&json!({"a": if r.is_ok() {"unlock"} else {"unlock_panic"}, "ret": h,
                    "locked": real.locked(nodes, keys), "nlocked": real.nlocked(nodes)}));
            } else {
                let n = if rng.gen_bool(0.6) { hot_n } else { rng.gen_range(1..=nodes) };
                let kmax = if rng.gen_bool(0.5) { 2 } else { keys };
                let k = rng.gen_range(1..=kmax);
                let ro = rng.gen_bool(0.6);
                let ret = real.lock(n, k, ro);
                out.emit(&json!({"a": "lock", "n": n, "k": k, "ro": ro, "ret": ret,
                    "locked": real.locked(nodes, keys), "nlocked": real.nlocked(nodes)}));
            }
        }
    }
    out.flush();
}

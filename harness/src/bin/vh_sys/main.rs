//! vh_sys — system column: Limits (C49), NodeGraph (C05), Encapsulation (C50).
//! Ledger-level binding with scrypto_test::LedgerSimulator and native test blueprints written in
//! Rust (OverridePackageCode + publish_native_package + VmInvoke).
#![allow(clippy::all)]
#![allow(unused_imports)]
mod bp;
mod encapsulation;
mod limits;
mod nodegraph;

use scrypto_test::prelude::*;

/// export name `<Blueprint>::<function>` -> module owning the blueprint
pub fn dispatch<Y: SystemApi<RuntimeError> + KernelNodeApi + KernelSubstateApi<SystemLockData> + SystemBasedKernelInternalApi>(
    export: &str,
    input: &IndexedScryptoValue,
    api: &mut Y,
) -> Result<IndexedScryptoValue, RuntimeError> {
    if export.starts_with("L::") || export.starts_with("H::") {
        limits::invoke(export, input, api)
    } else if ["X::", "Y::", "Outer::", "Inner::", "Drv::"].iter().any(|p| export.starts_with(p)) {
        encapsulation::invoke(export, input, api)
    } else if export.starts_with("G::") {
        nodegraph::invoke(export, input, api)
    } else {
        panic!("harness: unknown export {}", export)
    }
}

fn main() {
    let (module, mode, args) = vh::start();
    match module.as_str() {
        "limits" => limits::run(&mode, &args),
        "nodegraph" => nodegraph::run(&mode, &args),
        "encapsulation" => encapsulation::run(&mode, &args),
        m => vh::unknown(m),
    }
}

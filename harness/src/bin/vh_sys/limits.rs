//! C49 — binding of spec/Limits to the real engine at ledger level.
//!
//! A native test blueprint `L` (global component with one KV collection and one event type)
//! interprets a *program* chosen by the specification: nested self-calls, events, logs, KV writes
//! with sized keys/values, heap objects, panics.  The limits come from the case
//! (`SystemOverrides.limit_parameters`).  The harness only drives and projects: it reports whether
//! the transaction committed successfully, the class of the error, and the index of the program
//! op that was executing when the first error surfaced (kept in a thread-local: the blueprint
//! runs in-process).  The expected outcome of every case is computed by TLC (GenLimits.tla).
use crate::bp::*;
use radix_engine::system::system_modules::limits::{LimitsModule, TransactionLimitsConfig, TransactionLimitsError};
use radix_native_sdk::modules::metadata::Metadata;
use radix_native_sdk::modules::role_assignment::RoleAssignment;
use scrypto_test::prelude::*;
use serde_json::{json, Value};
use std::cell::RefCell;
use vh::util::*;
use vh::Args;

#[derive(Clone, Debug)]
pub enum Op {
    Call(usize),
    Ret,
    Emit(usize),
    Log(usize),
    Write(usize, usize),
    Alloc(usize),
    Panic(usize),
    /// index insert / sorted-index insert (kernel_set_substate path): key bytes, value bytes
    IWrite(usize, usize),
    SWrite(usize, usize),
    /// write of field 0 of SELF (write_substate path)
    FWrite(usize),
}

#[derive(Default)]
pub struct LimState {
    pub ops: Vec<Op>,
    pub pc: usize,
    /// index of the op executing when the first error was returned by a system call, and its class
    pub first_err: Option<(usize, String)>,
    pub started: bool,
    pub finished: bool,
}
thread_local! {
    pub static LIM: RefCell<LimState> = RefCell::new(LimState::default());
}

fn note_err(i: usize, e: &RuntimeError) {
    LIM.with(|s| {
        let mut s = s.borrow_mut();
        if s.first_err.is_none() {
            s.first_err = Some((i, error_class(e)));
        }
    });
}

pub const L_BP: &str = "L";
/// fixed part of the invocation size of `run`: receiver node id (30) + ident "run" (3)
pub const RUN_FIXED: usize = 33;
/// bytes the system adds around the user value of a KV entry substate / of a field substate
/// (concretisation only; self-checked against the receipt's state updates in `run_program`)
pub const KV_OVERHEAD: usize = 11;
pub const FIELD_OVERHEAD: usize = 8;

pub fn l_package() -> PackageDefinition {
    let mut l = BpSpec::new(L_BP);
    l.fields = 1;
    l.kv_collections = 1;
    l.index_collections = 1;
    l.sorted_collections = 1;
    l.event_e = true;
    l.functions = vec![("new", false), ("run", true)];
    package_definition(&[l])
}

fn unit_value() -> ScryptoValue {
    scrypto_decode(&scrypto_encode(&()).unwrap()).unwrap()
}

/// The blueprint: `L::new` globalizes a component, `L::run` interprets the program from the
/// thread-local program counter until `Ret` or the end of the program.
pub fn invoke<Y: SystemApi<RuntimeError> + KernelNodeApi + KernelSubstateApi<SystemLockData>>(
    export: &str,
    _input: &IndexedScryptoValue,
    api: &mut Y,
) -> Result<IndexedScryptoValue, RuntimeError> {
    match export {
        "L::new" => {
            let metadata = Metadata::create(api)?;
            let access_rules = RoleAssignment::create(OwnerRole::None, indexmap!(), api)?;
            let node_id = api.new_simple_object(L_BP, indexmap!(0u8 => FieldValue::new(&unit_value())))?;
            let addr = api.globalize(
                node_id,
                indexmap!(
                    AttachedModuleId::Metadata => metadata.0,
                    AttachedModuleId::RoleAssignment => access_rules.0.0,
                ),
                None,
            )?;
            Ok(IndexedScryptoValue::from_typed(&addr))
        }
        "L::run" => {
            let outermost = LIM.with(|s| {
                let mut s = s.borrow_mut();
                let o = !s.started;
                s.started = true;
                o
            });
            let me = api.actor_get_node_id(ACTOR_REF_SELF)?;
            let mut owned: Vec<NodeId> = vec![];
            loop {
                let (i, op) = LIM.with(|s| {
                    let mut s = s.borrow_mut();
                    let i = s.pc;
                    if i >= s.ops.len() {
                        (i, None)
                    } else {
                        s.pc += 1;
                        (i, Some(s.ops[i].clone()))
                    }
                });
                let r: Result<(), RuntimeError> = match op {
                    None | Some(Op::Ret) => break,
                    Some(Op::Call(p)) => {
                        let args = bytes_payload(p - RUN_FIXED, 1).expect("harness: payload size not realizable");
                        api.call_method(&me, "run", args).map(|_| ())
                    }
                    Some(Op::Emit(n)) => api.actor_emit_event(
                        "Ev".to_string(),
                        event_payload(n, 2).expect("harness: event size not realizable"),
                        EventFlags::empty(),
                    ),
                    Some(Op::Log(n)) => api.emit_log(Level::Info, "l".repeat(n)),
                    Some(Op::Panic(n)) => api.panic("p".repeat(n)),
                    Some(Op::Write(k, v)) => write_entry(api, k, v),
                    Some(Op::IWrite(k, v)) => {
                        let key = fresh_key(k);
                        let value = bytes_payload(v - INDEX_OVERHEAD, 5).expect("harness: value size not realizable");
                        api.actor_index_insert(ACTOR_STATE_SELF, 1, key, value)
                    }
                    Some(Op::SWrite(k, v)) => {
                        let key = fresh_key(k);
                        let value = bytes_payload(v - INDEX_OVERHEAD, 6).expect("harness: value size not realizable");
                        api.actor_sorted_index_insert(ACTOR_STATE_SELF, 2, ([0u8, 7u8], key), value)
                    }
                    Some(Op::FWrite(n)) => (|| {
                        let value = bytes_payload(n - FIELD_OVERHEAD, 7).expect("harness: field size not realizable");
                        let h = api.actor_open_field(ACTOR_STATE_SELF, 0, LockFlags::MUTABLE)?;
                        api.field_write(h, value)?;
                        api.field_close(h)
                    })(),
                    Some(Op::Alloc(n)) => {
                        // a heap object of blueprint L whose field substate has exactly n bytes
                        let payload = bytes_payload(n - FIELD_OVERHEAD, 4).expect("harness: field size not realizable");
                        let v: ScryptoValue = scrypto_decode(&payload).unwrap();
                        api.new_simple_object(L_BP, indexmap!(0u8 => FieldValue::new(&v))).map(|id| owned.push(id))
                    }
                };
                if let Err(e) = r {
                    note_err(i, &e);
                    return Err(e);
                }
            }
            for id in owned {
                api.drop_object(&id)?;
            }
            if outermost {
                LIM.with(|s| s.borrow_mut().finished = true);
            }
            Ok(IndexedScryptoValue::from_typed(&()))
        }
        _ => panic!("harness: unknown export {}", export),
    }
}

thread_local! {
    static KEYSEQ: RefCell<u32> = RefCell::new(0);
}

/// bytes the system adds around the user value of an index / sorted-index entry substate
pub const INDEX_OVERHEAD: usize = 3;
/// field size used when the first-use cost of a field write is measured (Limits.tla env.fieldCal)
pub const FIELD_CAL: usize = 50;

/// an SBOR byte-array key of exactly k encoded bytes (k >= 8) that was never used before
fn fresh_key(k: usize) -> Vec<u8> {
    let mut key = bytes_payload(k, 0).expect("harness: key size not realizable");
    let seq = KEYSEQ.with(|c| {
        let mut c = c.borrow_mut();
        *c += 1;
        *c
    });
    let n = key.len();
    key[n - 4..].copy_from_slice(&seq.to_be_bytes());
    key
}

/// one KV write into collection 0 of SELF: substate key of exactly k bytes (k >= 8, fresh),
/// substate value of exactly v bytes
fn write_entry<Y: SystemApi<RuntimeError>>(api: &mut Y, k: usize, v: usize) -> Result<(), RuntimeError> {
    let mut key = bytes_payload(k, 0).expect("harness: key size not realizable");
    let seq = KEYSEQ.with(|c| {
        let mut c = c.borrow_mut();
        *c += 1;
        *c
    });
    let n = key.len();
    key[n - 4..].copy_from_slice(&seq.to_be_bytes());
    let value = bytes_payload(v - KV_OVERHEAD, 3).expect("harness: value size not realizable");
    let h = api.actor_open_key_value_entry(ACTOR_STATE_SELF, 0, &key, LockFlags::MUTABLE)?;
    api.key_value_entry_set(h, value)?;
    api.key_value_entry_close(h)?;
    Ok(())
}

// ---------------------------------------------------------------------------------------------

#[derive(Clone)]
pub struct Sys;
impl VmInvoke for Sys {
    fn invoke<
        Y: SystemApi<RuntimeError> + KernelNodeApi + KernelSubstateApi<SystemLockData> + SystemBasedKernelInternalApi,
        V: VmApi,
    >(
        &mut self,
        export_name: &str,
        input: &IndexedScryptoValue,
        api: &mut Y,
        _vm_api: &V,
    ) -> Result<IndexedScryptoValue, RuntimeError> {
        crate::dispatch(export_name, input, api)
    }
}

pub type Ledger = LedgerSimulator<OverridePackageCode<Sys>, InMemorySubstateDatabase>;

pub fn new_ledger() -> Ledger {
    LedgerSimulatorBuilder::new()
        .with_custom_extension(OverridePackageCode::new(CODE_ID, Sys))
        .without_kernel_trace()
        .without_receipt_substate_check()
        .build()
}

pub fn parse_ops(v: &Value) -> Vec<Op> {
    v.as_array()
        .unwrap()
        .iter()
        .map(|o| {
            let n = |f: &str| o[f].as_u64().unwrap() as usize;
            match o["op"].as_str().unwrap() {
                "call" => Op::Call(n("n")),
                "ret" => Op::Ret,
                "emit" => Op::Emit(n("n")),
                "log" => Op::Log(n("n")),
                "write" => Op::Write(n("k"), n("n")),
                "alloc" => Op::Alloc(n("n")),
                "panic" => Op::Panic(n("n")),
                "iwrite" => Op::IWrite(n("k"), n("n")),
                "swrite" => Op::SWrite(n("k"), n("n")),
                "fwrite" => Op::FWrite(n("n")),
                x => panic!("harness: unknown op {}", x),
            }
        })
        .collect()
}

pub fn ops_json(ops: &[Op]) -> Value {
    Value::Array(
        ops.iter()
            .map(|o| match o {
                Op::Call(n) => json!({"op": "call", "n": n, "k": 0}),
                Op::Ret => json!({"op": "ret", "n": 0, "k": 0}),
                Op::Emit(n) => json!({"op": "emit", "n": n, "k": 0}),
                Op::Log(n) => json!({"op": "log", "n": n, "k": 0}),
                Op::Write(k, n) => json!({"op": "write", "n": n, "k": k}),
                Op::Alloc(n) => json!({"op": "alloc", "n": n, "k": 0}),
                Op::Panic(n) => json!({"op": "panic", "n": n, "k": 0}),
                Op::IWrite(k, n) => json!({"op": "iwrite", "n": n, "k": k}),
                Op::SWrite(k, n) => json!({"op": "swrite", "n": n, "k": k}),
                Op::FWrite(n) => json!({"op": "fwrite", "n": n, "k": 0}),
            })
            .collect(),
    )
}

pub const CFG_FIELDS: [&str; 11] = ["depth", "heap", "track", "key", "value", "payload", "event", "log", "panic", "logs", "events"];

fn slot<'a>(p: &'a mut LimitParameters, name: &str) -> &'a mut usize {
    match name {
        "depth" => &mut p.max_call_depth,
        "heap" => &mut p.max_heap_substate_total_bytes,
        "track" => &mut p.max_track_substate_total_bytes,
        "key" => &mut p.max_substate_key_size,
        "value" => &mut p.max_substate_value_size,
        "payload" => &mut p.max_invoke_input_size,
        "event" => &mut p.max_event_size,
        "log" => &mut p.max_log_size,
        "panic" => &mut p.max_panic_message_size,
        "logs" => &mut p.max_number_of_logs,
        "events" => &mut p.max_number_of_events,
        _ => panic!("harness: limit name"),
    }
}

pub fn parse_cfg(c: &Value) -> LimitParameters {
    let mut p = LimitParameters::babylon_genesis();
    for f in CFG_FIELDS {
        *slot(&mut p, f) = c[f].as_u64().expect("harness: cfg field") as usize;
    }
    p
}
pub fn cfg_json(p: &LimitParameters) -> Value {
    let mut p = *p;
    let mut m = serde_json::Map::new();
    for f in CFG_FIELDS {
        m.insert(f.to_string(), json!(*slot(&mut p, f)));
    }
    Value::Object(m)
}

pub struct Obs {
    pub status: String,
    pub class: String,
    /// index of the program op executing when the first error surfaced; -1 = the program was
    /// never entered; len = all ops were done (or success)
    pub at: i64,
    pub events_in_run: usize,
    pub logs: usize,
    pub started: bool,
    pub finished: bool,
    pub harness_error: Option<String>,
}
impl Obs {
    pub fn json(&self) -> Value {
        json!({"status": self.status, "err": self.class, "at": self.at})
    }
}

pub struct Bench {
    pub ledger: Ledger,
    pub comp: ComponentAddress,
}

pub fn setup() -> Bench {
    let mut ledger = new_ledger();
    let pkg = ledger.publish_native_package(CODE_ID, l_package());
    let receipt = ledger.execute_manifest(
        ManifestBuilder::new().lock_fee_from_faucet().call_function(pkg, L_BP, "new", manifest_args!()).build(),
        vec![],
    );
    let comp = receipt.expect_commit_success().new_component_addresses()[0];
    // self-check of FIELD_OVERHEAD: field 0 holds `()` (3 bytes)
    let raw = ledger
        .substate_db()
        .get_raw_substate_by_db_key(
            &SpreadPrefixKeyMapper::to_db_partition_key(comp.as_node_id(), MAIN_BASE_PARTITION),
            &SpreadPrefixKeyMapper::to_db_sort_key(&SubstateKey::Field(0)),
        )
        .expect("harness: component field");
    assert_eq!(raw.len(), 3 + FIELD_OVERHEAD, "harness: FIELD_OVERHEAD");
    Bench { ledger, comp }
}

impl Bench {
    /// Executes one program under the given limits WITHOUT committing (every case sees the same
    /// ledger state). `fee`: a normal fee-paying transaction (lock_fee from the faucet first) or
    /// costing disabled and no fee instruction.
    pub fn run_program(&mut self, ops: &[Op], limits: LimitParameters, fee: bool) -> Obs {
        let n = ops.len();
        LIM.with(|s| {
            *s.borrow_mut() = LimState { ops: ops.to_vec(), ..Default::default() };
        });
        let mut b = ManifestBuilder::new();
        if fee {
            b = b.lock_fee_from_faucet();
        }
        let manifest = b.call_method(self.comp, "run", manifest_args!()).build();
        let mut cfg = ExecutionConfig::for_test_transaction().with_cost_breakdown(false);
        let mut ov = SystemOverrides::with_network(NetworkDefinition::simulator());
        ov.limit_parameters = Some(limits);
        ov.disable_costing = !fee;
        if fee {
            ov.costing_parameters = Some(CostingParameters::babylon_genesis().with_execution_cost_unit_limit(2_000_000_000));
        }
        cfg.system_overrides = Some(ov);
        let nonce = self.ledger.next_transaction_nonce();
        let tx = TestTransaction::new_v1_from_nonce(manifest, nonce, btreeset!());
        let receipt = self.ledger.execute_transaction_no_commit(tx, cfg);
        let (status, class) = receipt_outcome(&receipt);
        let mut harness_error = None;
        let (events_in_run, logs) = match &receipt.result {
            TransactionResult::Commit(c) => {
                if status == "success" {
                    // self-check of the concretisation: the KV entries written have exactly the
                    // key/value sizes the program asked for
                    // (partition offset, key bytes, value bytes) of what was written: KV entries 1, index 2, sorted index 3 (key + 2)
                    let mut want: Vec<(u8, usize, usize)> = ops
                        .iter()
                        .filter_map(|o| match o {
                            Op::Write(k, v) => Some((1u8, *k, *v)),
                            Op::IWrite(k, v) => Some((2u8, *k, *v)),
                            Op::SWrite(k, v) => Some((3u8, *k + 2, *v)),
                            _ => None,
                        })
                        .collect();
                    if let Some(Op::FWrite(n)) = ops.iter().rev().find(|o| matches!(o, Op::FWrite(_))) {
                        want.push((0, 1, *n));
                    }
                    want.sort();
                    let mut got: Vec<(u8, usize, usize)> = vec![];
                    if let Some(NodeStateUpdates::Delta { by_partition }) = c.state_updates.by_node.get(self.comp.as_node_id()) {
                        for (pn, pu) in by_partition {
                            for off in 0..4u8 {
                                if *pn == MAIN_BASE_PARTITION.at_offset(PartitionOffset(off)).unwrap() {
                                    if let PartitionStateUpdates::Delta { by_substate } = pu {
                                        for (k, u) in by_substate {
                                            if let DatabaseUpdate::Set(v) = u {
                                                match k {
                                                    SubstateKey::Map(k) => got.push((off, k.len(), v.len())),
                                                    SubstateKey::Sorted((_, k)) => got.push((off, k.len() + 2, v.len())),
                                                    SubstateKey::Field(_) => got.push((off, 1, v.len())),
                                                }
                                            }
                                        }
                                    }
                                }
                            }
                        }
                    }
                    got.sort();
                    if want != got {
                        harness_error = Some(format!("written entries {:?} differ from the program's {:?}", got, want));
                    }
                }
                (
                    c.application_events.iter().filter(|(id, _)| id.1 == "Ev").count(),
                    c.application_logs.len(),
                )
            }
            _ => (0, 0),
        };
        LIM.with(|s| {
            let s = s.borrow();
            let at = match &s.first_err {
                Some((i, _)) => *i as i64,
                None => {
                    if !s.started {
                        -1
                    } else {
                        n as i64
                    }
                }
            };
            Obs { status, class, at, events_in_run, logs, started: s.started, finished: s.finished, harness_error }
        })
    }
}

pub fn big_limits() -> LimitParameters {
    let mut p = LimitParameters::babylon_genesis();
    p.max_call_depth = 64;
    p.max_number_of_events = 100_000;
    p.max_number_of_logs = 100_000;
    p
}

/// smallest value of limit `name` in lo..=hi (all other limits as in `base`) for which `ok` holds
/// (`ok` is assumed monotone in the limit; hi must satisfy it)
fn min_limit(b: &mut Bench, base: &LimitParameters, name: &str, ops: &[Op], fee: bool, lo: usize, hi: usize, ok: &dyn Fn(&Obs) -> bool) -> usize {
    let mut p = *base;
    *slot(&mut p, name) = hi;
    assert!(ok(&b.run_program(ops, p, fee)), "harness: calibration upper bound {}={} not sufficient", name, hi);
    let (mut lo, mut hi) = (lo, hi);
    while lo < hi {
        let mid = (lo + hi) / 2;
        *slot(&mut p, name) = mid;
        if ok(&b.run_program(ops, p, fee)) {
            hi = mid;
        } else {
            lo = mid + 1;
        }
    }
    lo
}

/// The environment footprint of one transaction shape: what the system itself (transaction
/// processor, fee locking, auth zones, package/blueprint lookups, finalization) needs of every
/// limit, measured on the engine.  These are parameters of the specification (Limits.tla `Env`),
/// not verdicts.
pub fn calibrate(b: &mut Bench, fee: bool) -> Value {
    let base = big_limits();
    let succ = |o: &Obs| o.status == "success";
    let fin = |o: &Obs| o.finished;
    let e: Vec<Op> = vec![];
    let mut m = serde_json::Map::new();
    for (name, hi) in [("depth", 16usize), ("key", 4096), ("value", 1 << 20), ("payload", 1 << 16), ("event", 4096), ("events", 64), ("log", 16), ("logs", 16), ("panic", 16)] {
        m.insert(name.to_string(), json!(min_limit(b, &base, name, &e, fee, 0, hi, &succ)));
    }
    // track: counter when the (empty) program's frame completes / when the transaction commits
    let hi = 64 << 20;
    let track_run = min_limit(b, &base, "track", &e, fee, 0, hi, &fin);
    let track_base = min_limit(b, &base, "track", &e, fee, 0, hi, &succ);
    let (k0, v0) = (40usize, 100usize);
    let w1 = min_limit(b, &base, "track", &[Op::Write(k0, v0)], fee, 0, hi, &succ);
    let w2 = min_limit(b, &base, "track", &[Op::Write(k0, v0), Op::Write(k0, v0)], fee, 0, hi, &succ);
    let w1r = min_limit(b, &base, "track", &[Op::Write(k0, v0)], fee, 0, hi, &fin);
    m.insert("trackRun".into(), json!(track_run));
    m.insert("trackBase".into(), json!(track_base));
    m.insert("trackKey".into(), json!(w2 as i64 - w1 as i64 - (k0 + v0) as i64));
    m.insert("trackFirstRun".into(), json!(w1r as i64 - track_run as i64 - (w2 as i64 - w1 as i64)));
    // first-use cost of each op kind: substates the system reads the first time the kind occurs
    // (while the program runs / at commit)
    let mut first = serde_json::Map::new();
    let mut first_commit = serde_json::Map::new();
    // own cost of an insert = what a second identical insert adds (index: key + value; field: nothing)
    let i1 = min_limit(b, &base, "track", &[Op::IWrite(k0, v0)], fee, 0, hi, &succ);
    let i2 = min_limit(b, &base, "track", &[Op::IWrite(k0, v0), Op::IWrite(k0, v0)], fee, 0, hi, &succ);
    let s1 = min_limit(b, &base, "track", &[Op::SWrite(k0, v0)], fee, 0, hi, &succ);
    let s2 = min_limit(b, &base, "track", &[Op::SWrite(k0, v0), Op::SWrite(k0, v0)], fee, 0, hi, &succ);
    m.insert("fieldCal".into(), json!(FIELD_CAL));
    for (kind, op, own) in [("ret", Op::Call(40), 0i64), ("emit", Op::Emit(10), 0), ("alloc", Op::Alloc(40), 0), ("write", Op::Write(k0, v0), w2 as i64 - w1 as i64),
                            ("iwrite", Op::IWrite(k0, v0), i2 as i64 - i1 as i64), ("swrite", Op::SWrite(k0, v0), s2 as i64 - s1 as i64),
                            ("fwrite", Op::FWrite(FIELD_CAL), 0)] {
        let t = min_limit(b, &base, "track", &[op.clone()], fee, 0, hi, &succ);
        first_commit.insert(kind.into(), json!(t as i64 - track_base as i64 - own));
        let t = min_limit(b, &base, "track", &[op], fee, 0, hi, &fin);
        first.insert(kind.into(), json!(t as i64 - track_run as i64 - own));
    }
    m.insert("trackFirst".into(), Value::Object(first));
    m.insert("trackFirstCommit".into(), Value::Object(first_commit));
    m.insert("kvDefault".into(), json!(scrypto_encode(&KeyValueEntrySubstate::<ScryptoValue>::default()).unwrap().len()));
    // heap: peak of the environment, and the counter inside the program's frame
    let heap_env = min_limit(b, &base, "heap", &e, fee, 0, hi, &succ);
    let a0 = 20000usize;
    let a1 = min_limit(b, &base, "heap", &[Op::Alloc(a0)], fee, 0, hi, &succ);
    let a2 = min_limit(b, &base, "heap", &[Op::Alloc(a0), Op::Alloc(a0)], fee, 0, hi, &succ);
    m.insert("heapEnv".into(), json!(heap_env));
    m.insert("heapObj".into(), json!(a2 as i64 - a1 as i64 - a0 as i64));
    m.insert("heapRun".into(), json!(a1 as i64 - (a2 as i64 - a1 as i64)));
    let a3 = min_limit(b, &base, "heap", &[Op::Call(40), Op::Alloc(a0)], fee, 0, hi, &succ);
    m.insert("heapFrame".into(), json!(a3 as i64 - a1 as i64));
    Value::Object(m)
}

pub fn run(mode: &str, args: &Args) {
    match mode {
        "calibrate" => {
            let mut b = setup();
            let mut out = Out::new();
            let nofee = calibrate(&mut b, false);
            let fee = calibrate(&mut b, true);
            out.emit(&json!({"nofee": nofee, "fee": fee, "defaults": cfg_json(&LimitParameters::babylon_genesis())}));
            out.flush();
        }
        "replay" => replay(args),
        "record" => record(args),
        _ => panic!("mode"),
    }
}

fn replay(_args: &Args) {
    let mut b = setup();
    let mut out = Out::new();
    let cases = read_lines();
    let mut classes = std::collections::BTreeMap::<String, u64>::new();
    for (ci, c) in cases.iter().enumerate() {
        let ops = parse_ops(&c["prog"]);
        let cfg = parse_cfg(&c["cfg"]);
        let fee = c["mode"].as_str().unwrap() == "fee";
        let o = match catch(|| b.run_program(&ops, cfg, fee)) {
            Ok(o) => o,
            Err(msg) => {
                if msg.starts_with("harness:") {
                    out.emit(&json!({"harness_error": msg, "b": ci}));
                    continue;
                }
                Obs { status: "panic".into(), class: "".into(), at: -2, events_in_run: 0, logs: 0, started: false, finished: false, harness_error: None }
            }
        };
        if let Some(h) = &o.harness_error {
            out.emit(&json!({"harness_error": h, "b": ci}));
        }
        *classes.entry(format!("{}:{}", o.status, o.class)).or_default() += 1;
        let got = o.json();
        if got != c["exp"] {
            out.mismatch(ci, 0, "outcome", c["exp"].clone(), got);
        }
    }
    out.emit(&json!({"classes": classes}));
    out.done(cases.len(), cases.len());
}

// ---------------------------------------------------------------------------------------------
// T: seeded random programs under seeded random configurations; the observations are validated
// by TraceLimits.tla.  The generator only needs sizes the concretisation can realise.

fn realizable(op: &Op) -> bool {
    match op {
        Op::Call(n) => *n >= RUN_FIXED + 4 && bytes_payload(n - RUN_FIXED, 0).is_some(),
        Op::Emit(n) => *n >= 6 && event_payload(*n, 0).is_some(),
        Op::Write(k, v) => *k >= 8 && bytes_payload(*k, 0).is_some() && *v >= KV_OVERHEAD + 4 && bytes_payload(v - KV_OVERHEAD, 0).is_some(),
        Op::Alloc(n) => *n >= FIELD_OVERHEAD + 4 && bytes_payload(n - FIELD_OVERHEAD, 0).is_some(),
        _ => true,
    }
}

fn record(args: &Args) {
    use rand::prelude::*;
    let seed = args.u64("seed", 1);
    let n = args.u64("n", 200) as usize;
    let units = args.u64("units", 100) as usize;
    let envs: Value = serde_json::from_str(&std::fs::read_to_string(args.str("env", "")).expect("harness: env file")).unwrap();
    let mut rng = StdRng::seed_from_u64(seed);
    let mut b = setup();
    let mut out = Out::new();
    let g = |e: &Value, f: &str| e[f].as_i64().unwrap() as usize;
    for _ in 0..n {
        let fee = rng.gen_bool(0.5);
        let e = &envs[if fee { "fee" } else { "nofee" }];
        // configuration: every limit is either generous or close to what small programs use
        let mut p = LimitParameters::babylon_genesis();
        let tight = |rng: &mut StdRng| rng.gen_bool(0.35);
        p.max_call_depth = g(e, "depth") + if tight(&mut rng) { rng.gen_range(0..4) } else { 8 };
        p.max_number_of_events = g(e, "events") + if tight(&mut rng) { rng.gen_range(0..4) } else { 12 };
        p.max_number_of_logs = if tight(&mut rng) { rng.gen_range(0..4) } else { 12 };
        p.max_event_size = g(e, "event") + if tight(&mut rng) { rng.gen_range(20..80) } else { 600 };
        p.max_log_size = if tight(&mut rng) { rng.gen_range(0..80) } else { 600 };
        p.max_panic_message_size = if tight(&mut rng) { rng.gen_range(0..80) } else { 600 };
        p.max_invoke_input_size = g(e, "payload") + if tight(&mut rng) { rng.gen_range(0..80) } else { 3000 };
        p.max_substate_key_size = g(e, "key") + if tight(&mut rng) { rng.gen_range(0..80) } else { 300 };
        p.max_substate_value_size = g(e, "value") + if tight(&mut rng) { rng.gen_range(0..80) } else { 3000 };
        p.max_heap_substate_total_bytes = g(e, "heapEnv") + if tight(&mut rng) { rng.gen_range(0..1500) } else { 400_000 };
        p.max_track_substate_total_bytes = if tight(&mut rng) { g(e, "trackRun") + rng.gen_range(0..(g(e, "trackBase") - g(e, "trackRun") + 1500)) } else { g(e, "trackBase") + 400_000 };
        let len = rng.gen_range(1..9);
        let mut ops = vec![];
        let mut open = 0;
        while ops.len() < len {
            let near = |rng: &mut StdRng, lim: usize, small: usize| -> usize {
                if rng.gen_bool(0.5) { (lim as i64 + rng.gen_range(-2..3)).max(0) as usize } else { small + rng.gen_range(0..30) }
            };
            let op = match rng.gen_range(0..10) {
                0 | 1 => Op::Call(near(&mut rng, p.max_invoke_input_size, 37)),
                2 => {
                    if open == 0 {
                        continue;
                    }
                    Op::Ret
                }
                3 | 4 => Op::Emit(near(&mut rng, p.max_event_size, 6)),
                5 => Op::Log(near(&mut rng, p.max_log_size, 0)),
                6 | 7 => Op::Write(near(&mut rng, p.max_substate_key_size, 8), near(&mut rng, p.max_substate_value_size, 15)),
                8 => Op::Alloc(near(&mut rng, p.max_substate_value_size, 12)),
                _ => {
                    if !rng.gen_bool(0.2) {
                        continue;
                    }
                    Op::Panic(near(&mut rng, p.max_panic_message_size, 0))
                }
            };
            if !realizable(&op) {
                continue;
            }
            match op {
                Op::Call(_) => open += 1,
                Op::Ret => open -= 1,
                _ => {}
            }
            ops.push(op);
        }
        let o = match catch(|| b.run_program(&ops, p, fee)) {
            Ok(o) => o,
            Err(msg) => {
                if msg.starts_with("harness:") {
                    out.emit(&json!({"harness_error": msg}));
                    continue;
                }
                Obs { status: "panic".into(), class: "".into(), at: -2, events_in_run: 0, logs: 0, started: false, finished: false, harness_error: None }
            }
        };
        if let Some(h) = &o.harness_error {
            out.emit(&json!({"harness_error": h}));
        }
        // what the receipt shows: events of the test blueprint and logs recorded (the statement's "no committed
        // transaction exceeds ..." is checked on these by TraceLimits)
        out.emit(&json!({"a": "run", "mode": if fee { "fee" } else { "nofee" }, "cfg": cfg_json(&p), "prog": ops_json(&ops), "obs": o.json(),
                         "seen": {"events": o.events_in_run, "logs": o.logs, "entered": o.started}}));
    }
    // unit level: the LimitsModule's own counters through its public API.
    // (1) the FULL boundary product, in every tier: (key kind) x (key / value / heap / track limit) x
    //     (one below, at, one above), reached by insert, by update, and again after a removal;
    for ev in unit_boundary_sequences() {
        out.emit(&ev);
    }
    // (2) seeded random sequences (the bulk)
    for _ in 0..units {
        let (heap, track, key, value) = (rng.gen_range(40..400), rng.gen_range(40..400), rng.gen_range(0..40), rng.gen_range(0..100));
        // entries alive in heap / track: (kind, key bytes) -> size (so that old sizes are consistent)
        let mut live: [std::collections::BTreeMap<(u8, usize), usize>; 2] = [Default::default(), Default::default()];
        let mut calls: Vec<UnitCall> = vec![];
        for _ in 0..rng.gen_range(1..14) {
            let kind = rng.gen_range(0..3u8);
            let n = if kind == 2 { 1 } else { rng.gen_range(0..50usize) };
            match rng.gen_range(0..10) {
                0 => calls.push(UnitCall { k: "key", kind, n, old: None, new: None }),
                1 => calls.push(UnitCall { k: "value", kind, n: rng.gen_range(4..120usize), old: None, new: None }),
                2 => calls.push(UnitCall { k: "read", kind, n, old: None, new: None }),
                _ => {
                    let side = rng.gen_range(0..2usize);
                    let old = live[side].get(&(kind, n)).copied();
                    let new = if old.is_some() && rng.gen_bool(0.4) { None } else { Some(rng.gen_range(0..120usize)) };
                    match new {
                        Some(x) => {
                            live[side].insert((kind, n), x);
                        }
                        None => {
                            live[side].remove(&(kind, n));
                        }
                    }
                    calls.push(UnitCall { k: if side == 0 { "heap" } else { "track" }, kind, n, old, new });
                }
            }
        }
        out.emit(&run_unit(heap, track, key, value, &calls));
    }
    out.flush();
}

/// one call of the LimitsModule's public API (inputs only)
pub struct UnitCall {
    pub k: &'static str, // key | value | read | heap | track
    pub kind: u8,        // 0 map, 1 sorted, 2 field
    pub n: usize,        // key bytes (or value length for k = value)
    pub old: Option<usize>,
    pub new: Option<usize>,
}

/// executes a call sequence on a fresh LimitsModule and records what each call returned
pub fn run_unit(heap: usize, track: usize, key: usize, value: usize, calls: &[UnitCall]) -> Value {
    let cfg = TransactionLimitsConfig {
        max_call_depth: 8,
        max_heap_substate_total_bytes: heap,
        max_track_substate_total_bytes: track,
        max_substate_key_size: key,
        max_substate_value_size: value,
        max_invoke_payload_size: 1000,
        max_event_size: 100,
        max_log_size: 100,
        max_panic_message_size: 100,
        max_number_of_logs: 10,
        max_number_of_events: 10,
    };
    let mut module = LimitsModule::new(cfg);
    let mut cj = vec![];
    let mut obs = vec![];
    for c in calls {
        let kname = ["map", "sorted", "field"][c.kind as usize];
        let sk = match c.kind {
            0 => SubstateKey::Map(vec![7u8; c.n]),
            1 => SubstateKey::Sorted(([1, 2], vec![7u8; c.n])),
            _ => SubstateKey::Field(c.n as u8),
        };
        let ck = CanonicalSubstateKey { node_id: NodeId([3u8; 30]), partition_number: PartitionNumber(1), substate_key: sk.clone() };
        let enc = |x: Option<usize>| x.map(|v| v as i64).unwrap_or(-1);
        let r = match c.k {
            "key" => module.process_substate_key(&sk),
            "value" => module.process_substate_value(&IndexedScryptoValue::from_vec(bytes_payload(c.n, 0).expect("harness: unit value size")).unwrap()),
            "read" => module.process_io_access(&IOAccess::ReadFromDb(ck, 77)),
            "heap" => module.process_io_access(&IOAccess::HeapSubstateUpdated { canonical_substate_key: ck, old_size: c.old, new_size: c.new }),
            "track" => module.process_io_access(&IOAccess::TrackSubstateUpdated { canonical_substate_key: ck, old_size: c.old, new_size: c.new }),
            x => panic!("harness: unit call {}", x),
        };
        let io = c.k == "heap" || c.k == "track";
        cj.push(json!({"k": c.k, "kind": kname, "n": c.n, "old": if io { enc(c.old) } else { 0 }, "new": if io { enc(c.new) } else { 0 }}));
        obs.push(match r {
            Ok(()) => json!({"r": "ok", "v": 0}),
            Err(RuntimeError::SystemModuleError(SystemModuleError::TransactionLimitsError(e))) => {
                let v = match &e {
                    TransactionLimitsError::MaxSubstateKeySizeExceeded(x) | TransactionLimitsError::MaxSubstateSizeExceeded(x) => *x,
                    TransactionLimitsError::HeapSubstateSizeExceeded { actual, .. } | TransactionLimitsError::TrackSubstateSizeExceeded { actual, .. } => *actual,
                    _ => 0,
                };
                json!({"r": limits_class(&e), "v": v})
            }
            Err(e) => json!({"r": error_class(&e), "v": 0}),
        });
    }
    json!({"a": "unit", "cfg": {"heap": heap, "track": track, "key": key, "value": value}, "calls": cj, "obs": obs})
}

/// Deterministic inputs around every limit of the module (input generation only; what the answers
/// must be is decided by LimitsUnit.tla).
pub fn unit_boundary_sequences() -> Vec<Value> {
    let mut res = vec![];
    let (heap, track, key, value) = (100usize, 120usize, 10usize, 20usize);
    let d3 = [-1i64, 0, 1];
    // key size: map key of n bytes counts n, sorted 2 + n, field 1 (key limits 0, 1, 2 for the field key)
    for d in d3 {
        let n = (key as i64 + d) as usize;
        res.push(run_unit(heap, track, key, value, &[UnitCall { k: "key", kind: 0, n, old: None, new: None }]));
        res.push(run_unit(heap, track, key, value, &[UnitCall { k: "key", kind: 1, n: n - 2, old: None, new: None }]));
        res.push(run_unit(heap, track, (1 + d) as usize, value, &[UnitCall { k: "key", kind: 2, n: 0, old: None, new: None }]));
        res.push(run_unit(heap, track, key, value, &[UnitCall { k: "value", kind: 0, n: (value as i64 + d) as usize, old: None, new: None }]));
    }
    // byte counters: (heap | track) x (key kind) x (one below, at, one above the limit) x (how the value is reached)
    for (side, max) in [("heap", heap), ("track", track)] {
        for kind in 0..3u8 {
            let n = if kind == 2 { 0 } else { 5 };
            let canon = 31 + match kind { 0 => n, 1 => n + 2, _ => 1 };
            for d in d3 {
                let target = (max as i64 + d) as usize; // counter value to reach
                let size = target - canon;
                let ins = |sz: usize| UnitCall { k: side, kind, n, old: None, new: Some(sz) };
                // by one insert
                res.push(run_unit(heap, track, key, value, &[ins(size)]));
                // by an update of an existing entry (grow), and shrinking back below
                res.push(run_unit(heap, track, key, value, &[ins(3), UnitCall { k: side, kind, n, old: Some(3), new: Some(size) },
                                                            UnitCall { k: side, kind, n, old: Some(size), new: Some(size - 2) }]));
                // removed and inserted again: the key length must have been given back
                res.push(run_unit(heap, track, key, value, &[ins(9), UnitCall { k: side, kind, n, old: Some(9), new: None }, ins(size)]));
                // two entries (second key one byte longer / another field) summing up to the target
                let (n2, canon2) = if kind == 2 { (1usize, canon) } else { (n + 1, canon + 1) };
                if target > canon + canon2 + 4 {
                    res.push(run_unit(heap, track, key, value, &[ins(4), UnitCall { k: side, kind, n: n2, old: None, new: Some(target - canon - 4 - canon2) }]));
                }
                // the OTHER counter is checked on every access too: the other side sits at its own limit + d,
                // then a database read and a small access on this side follow
                let (other, omax) = if side == "heap" { ("track", track) } else { ("heap", heap) };
                let osize = (omax as i64 + d) as usize - canon;
                res.push(run_unit(heap, track, key, value, &[UnitCall { k: other, kind, n, old: None, new: Some(osize) },
                                                            UnitCall { k: "read", kind, n, old: None, new: None },
                                                            UnitCall { k: side, kind, n, old: None, new: Some(1) }]));
            }
        }
    }
    res
}

//! C05 — the stored ledger as a node graph, projected after EVERY committed transaction.
//!
//! `walk` lists every partition of the database (ListableSubstateDatabase), decodes each substate
//! value with IndexedScryptoValue::from_slice, collects owned_nodes() / references() and reads
//! the TypeInfo substate.  The logger assigns short integer ids to node ids, emits a `reset`
//! event with the whole graph and then one `commit` event per committed transaction with the
//! nodes that changed.  TraceNodeGraph.tla keeps the graph and evaluates the invariants of
//! Graph.tla in every state.  The verdict of the repository's own KernelDatabaseChecker /
//! SystemDatabaseChecker is logged as an additional observation (`checker`), never as the oracle.
//! Nothing in here decides a property.
use crate::bp::*;
use radix_native_sdk::modules::metadata::Metadata;
use radix_native_sdk::modules::role_assignment::RoleAssignment;
use radix_engine::system::checkers::*;
use radix_engine::system::type_info::TypeInfoSubstate;
use radix_native_sdk::resource::*;
use radix_transaction_scenarios::executor::*;
use rand::prelude::*;
use scrypto_test::prelude::*;
use serde_json::{json, Value};
use std::cell::RefCell;
use std::collections::{BTreeMap, BTreeSet};
use vh::util::*;
use vh::Args;

// ---------------------------------------------------------------------------------------------
// projection of the database

#[derive(Clone, PartialEq, Eq, Debug, Default)]
pub struct NodeRec {
    pub kind: String, // object | kv | reservation | phantom | none | undecodable
    pub pkg: NodeId_,
    pub bp: String,
    pub ti_global: bool,
    pub outer: Option<NodeId>,
    pub nsub: usize,
    pub npart: usize,
    pub undec: usize,
    /// one entry per occurrence of an Own in any substate value of the node
    pub owns: Vec<NodeId>,
    pub refs: BTreeSet<NodeId>,
}
pub type NodeId_ = Option<NodeId>;
pub type Graph = BTreeMap<NodeId, NodeRec>;

pub fn walk<D: SubstateDatabase + ListableSubstateDatabase>(db: &D) -> Graph {
    let mut g: Graph = BTreeMap::new();
    for (node_id, partition) in db.read_partition_keys() {
        let rec = g.entry(node_id).or_insert_with(|| NodeRec { kind: "none".into(), ..Default::default() });
        rec.npart += 1;
        for (sort_key, value) in db.list_raw_values(node_id, partition, None::<SubstateKey>) {
            rec.nsub += 1;
            match IndexedScryptoValue::from_slice(&value) {
                Ok(v) => {
                    rec.owns.extend(v.owned_nodes().iter().cloned());
                    rec.refs.extend(v.references().iter().cloned());
                }
                Err(_) => rec.undec += 1,
            }
            if partition == TYPE_INFO_FIELD_PARTITION && sort_key == SpreadPrefixKeyMapper::to_db_sort_key(&SubstateKey::Field(0)) {
                match scrypto_decode::<TypeInfoSubstate>(&value) {
                    Ok(TypeInfoSubstate::Object(info)) => {
                        rec.kind = "object".into();
                        rec.pkg = Some(info.blueprint_info.blueprint_id.package_address.into_node_id());
                        rec.bp = info.blueprint_info.blueprint_id.blueprint_name.clone();
                        rec.ti_global = info.is_global();
                        rec.outer = match info.blueprint_info.outer_obj_info {
                            OuterObjectInfo::Some { outer_object } => Some(outer_object.into_node_id()),
                            OuterObjectInfo::None => None,
                        };
                    }
                    Ok(TypeInfoSubstate::KeyValueStore(_)) => rec.kind = "kv".into(),
                    Ok(TypeInfoSubstate::GlobalAddressReservation(_)) => rec.kind = "reservation".into(),
                    Ok(TypeInfoSubstate::GlobalAddressPhantom(_)) => rec.kind = "phantom".into(),
                    Err(_) => rec.kind = "undecodable".into(),
                }
            }
        }
    }
    for rec in g.values_mut() {
        rec.owns.sort();
    }
    g
}

fn well_known_package(p: &NodeId) -> Option<&'static str> {
    let table: [(PackageAddress, &str); 16] = [
        (PACKAGE_PACKAGE, "package"),
        (RESOURCE_PACKAGE, "resource"),
        (ACCOUNT_PACKAGE, "account"),
        (IDENTITY_PACKAGE, "identity"),
        (CONSENSUS_MANAGER_PACKAGE, "consensus_manager"),
        (ACCESS_CONTROLLER_PACKAGE, "access_controller"),
        (POOL_PACKAGE, "pool"),
        (TRANSACTION_PROCESSOR_PACKAGE, "transaction_processor"),
        (METADATA_MODULE_PACKAGE, "metadata"),
        (ROYALTY_MODULE_PACKAGE, "royalty"),
        (ROLE_ASSIGNMENT_MODULE_PACKAGE, "role_assignment"),
        (TEST_UTILS_PACKAGE, "test_utils"),
        (GENESIS_HELPER_PACKAGE, "genesis_helper"),
        (FAUCET_PACKAGE, "faucet"),
        (TRANSACTION_TRACKER_PACKAGE, "transaction_tracker"),
        (LOCKER_PACKAGE, "locker"),
    ];
    table.iter().find(|(a, _)| a.as_node_id() == p).map(|(_, n)| *n)
}

pub fn etype_name(n: &NodeId) -> String {
    match n.entity_type() {
        Some(t) => format!("{:?}", t),
        None => format!("Unknown{}", n.0[0]),
    }
}

/// The verdicts of the repository's own checkers (observations, not the oracle):
/// (KernelDatabaseChecker, SystemDatabaseChecker with the role-assignment application checker)
pub fn repo_checkers<D: SubstateDatabase + ListableSubstateDatabase>(db: &D) -> (String, String) {
    let kernel = match catch(|| match KernelDatabaseChecker::new().check_db(db) {
        Ok(()) => "ok".to_string(),
        Err(e) => variant_name(&format!("{:?}", e)),
    }) {
        Ok(s) => s,
        Err(_) => "panic".into(),
    };
    let system = match catch(|| match SystemDatabaseChecker::<RoleAssignmentDatabaseChecker>::default().check_db(db) {
        Err(e) => variant_name(&format!("{:?}", e)),
        Ok((_, violations)) => {
            if violations.is_empty() {
                "ok".to_string()
            } else {
                format!("role_assignment_violations:{}", violations.len())
            }
        }
    }) {
        Ok(s) => s,
        Err(_) => "panic".into(),
    };
    (kernel, system)
}

pub struct GraphLogger {
    ids: BTreeMap<NodeId, u32>,
    prev: Graph,
    pub out: Out,
    pub events: usize,
    pub commits: usize,
    /// test hook: drop the n-th logged own edge (binding self-test from the driver side is done
    /// on the trace file; this stays None)
    pub max_nodes: usize,
    /// expected outcome of the next logged transaction (catalogue programs), else "any"
    pub expect: &'static str,
    /// error class of the next logged transaction ("" for success)
    pub err: String,
}

impl GraphLogger {
    pub fn new() -> Self {
        GraphLogger { ids: BTreeMap::new(), prev: BTreeMap::new(), out: Out::new(), events: 0, commits: 0, max_nodes: 0, expect: "any", err: String::new() }
    }
    fn id(&mut self, n: &NodeId, fresh: &mut Vec<Value>) -> u32 {
        if let Some(i) = self.ids.get(n) {
            return *i;
        }
        let i = self.ids.len() as u32 + 1;
        self.ids.insert(*n, i);
        fresh.push(json!([i, etype_name(n)]));
        i
    }
    fn rec_json(&mut self, n: &NodeId, r: &NodeRec, fresh: &mut Vec<Value>) -> Value {
        let id = self.id(n, fresh);
        let pkg = match &r.pkg {
            None => "".to_string(),
            Some(p) => match well_known_package(p) {
                Some(s) => s.to_string(),
                None => format!("p{}", self.id(p, fresh)),
            },
        };
        let owns: Vec<u32> = r.owns.iter().map(|o| self.id(o, fresh)).collect();
        let refs: Vec<u32> = r.refs.iter().map(|o| self.id(o, fresh)).collect();
        let outer = r.outer.as_ref().map(|o| self.id(o, fresh)).unwrap_or(0);
        json!({"id": id, "kind": r.kind, "pkg": pkg, "bp": r.bp, "tiGlobal": r.ti_global, "outer": outer,
               "nsub": r.nsub, "npart": r.npart, "undec": r.undec, "owns": owns, "refs": refs})
    }
    /// full graph = start of an independent trace
    pub fn reset<D: SubstateDatabase + ListableSubstateDatabase>(&mut self, db: &D, label: &str) {
        let g = walk(db);
        self.ids.clear();
        let mut fresh = vec![];
        let mut nodes = vec![];
        for (n, r) in &g {
            nodes.push(self.rec_json(n, r, &mut fresh));
        }
        let (kernel, system) = repo_checkers(db);
        self.out.emit(&json!({"a": "reset", "label": label, "ids": fresh, "upd": nodes, "del": [], "checker": "ran", "kernel": kernel, "system": system}));
        self.max_nodes = self.max_nodes.max(g.len());
        self.prev = g;
        self.events += 1;
    }
    /// one committed transaction: the nodes whose projection changed
    pub fn commit<D: SubstateDatabase + ListableSubstateDatabase>(&mut self, db: &D, label: &str, outcome: &str, run_checker: bool) {
        let g = walk(db);
        let mut fresh = vec![];
        let mut upd = vec![];
        let mut del = vec![];
        for (n, r) in &g {
            if self.prev.get(n) != Some(r) {
                upd.push(self.rec_json(n, r, &mut fresh));
            }
        }
        let prev_keys: Vec<NodeId> = self.prev.keys().cloned().collect();
        for n in prev_keys {
            if !g.contains_key(&n) {
                del.push(self.id(&n, &mut fresh));
            }
        }
        let (checker, kernel, system) = if run_checker {
            let (k, s) = repo_checkers(db);
            ("ran", k, s)
        } else {
            ("skipped", String::new(), String::new())
        };
        self.out.emit(&json!({"a": "commit", "label": label, "outcome": if self.err.is_empty() { outcome.to_string() } else { format!("{}:{}", outcome, self.err) }, "expect": self.expect, "ids": fresh, "upd": upd, "del": del,
                              "checker": checker, "kernel": kernel, "system": system}));
        self.max_nodes = self.max_nodes.max(g.len());
        self.prev = g;
        self.events += 1;
        self.commits += 1;
    }
}

// ---------------------------------------------------------------------------------------------
// native test blueprint G: a component with one field and one KV collection whose `run` method
// interprets a list of node operations (create / nest / store / drop / globalize / reference / fail)

#[derive(Clone, Debug)]
pub enum GOp {
    /// slot := new owned object of blueprint G
    NewObj(usize),
    /// slot := new key-value store
    NewKv(usize),
    /// slot := empty vault of XRD
    NewVault(usize),
    /// write Own(slot) into field 0 of the object in slot `into` (a heap object)
    Nest(usize, usize),
    /// put Own(slot) under key k into the heap key-value store in slot `kv`
    PutInKv(usize, u8, usize),
    /// write Own(slot) into field 0 of SELF (the global component): moves the subtree to the store
    StoreInField(usize),
    /// put Own(slot) under key k into KV collection 0 of SELF
    StoreInKv(u8, usize),
    /// overwrite field 0 of SELF with unit (fails when it holds an Own: CantDropNodeInStore)
    ClearField,
    /// remove entry k of the KV collection of SELF
    RemoveKv(u8),
    /// put a reference to global entity number g under key k of the KV collection of SELF
    StoreRef(u8, usize),
    /// put a reference to the (internal) node in slot under key k of SELF (must be refused)
    StoreInternalRef(u8, usize),
    /// drop the object in slot
    Drop(usize),
    /// globalize the object in slot
    Globalize(usize),
    /// store the same Own twice (field and KV) — must be refused
    StoreTwice(u8, usize),
    /// fail the transaction here
    Panic,
    /// kernel-level write of Reference(slot s) into field 1 of the HEAP object in slot `into`
    /// (heap substates may hold references to nodes the frame can see)
    HeapRef(usize, usize),
    /// the same with a reference to the STORED internal node owned by entry k of SELF's KV collection
    /// (visible while that entry is open)
    HeapRefStored(usize, u8),
    /// kernel-level write of Reference(stored internal node of entry k) into field 1 of SELF (already global)
    SelfRefStored(u8),
    /// system-level: put Reference(stored internal node of entry src) under key k of SELF's KV collection
    KvRefStored(u8, u8),
    /// put Reference(stored internal node of entry src) under key k of the HEAP key-value store in slot kv
    HeapKvRefStored(usize, u8, u8),
}

#[derive(Default)]
pub struct GState {
    pub ops: Vec<GOp>,
    pub globals: Vec<GlobalAddress>,
    pub first_err: Option<(usize, String)>,
}
thread_local! {
    pub static GST: RefCell<GState> = RefCell::new(GState::default());
}

pub const G_BP: &str = "G";

pub fn g_package() -> PackageDefinition {
    let mut g = BpSpec::new(G_BP);
    g.fields = 2;
    g.kv_collections = 1;
    g.functions = vec![("new", false), ("run", true)];
    package_definition(&[g])
}

fn unit_value() -> ScryptoValue {
    scrypto_decode(&scrypto_encode(&()).unwrap()).unwrap()
}

pub fn invoke<Y: SystemApi<RuntimeError> + KernelNodeApi + KernelSubstateApi<SystemLockData>>(
    export: &str,
    _input: &IndexedScryptoValue,
    api: &mut Y,
) -> Result<IndexedScryptoValue, RuntimeError> {
    match export {
        "G::new" => {
            let metadata = Metadata::create(api)?;
            let access_rules = RoleAssignment::create(OwnerRole::None, indexmap!(), api)?;
            let node_id = api.new_simple_object(G_BP, indexmap!(0u8 => FieldValue::new(&unit_value()), 1u8 => FieldValue::new(&unit_value())))?;
            let addr = api.globalize(
                node_id,
                indexmap!(
                    AttachedModuleId::Metadata => metadata.0,
                    AttachedModuleId::RoleAssignment => access_rules.0.0,
                ),
                None,
            )?;
            Ok(IndexedScryptoValue::from_typed(&addr))
        }
        "G::run" => {
            let ops = GST.with(|s| s.borrow().ops.clone());
            let globals = GST.with(|s| s.borrow().globals.clone());
            let mut slots: BTreeMap<usize, NodeId> = BTreeMap::new();
            for (i, op) in ops.iter().enumerate() {
                let r = g_step(api, op, &mut slots, &globals);
                if let Err(e) = r {
                    GST.with(|s| {
                        let mut s = s.borrow_mut();
                        if s.first_err.is_none() {
                            s.first_err = Some((i, error_class(&e)));
                        }
                    });
                    return Err(e);
                }
            }
            Ok(IndexedScryptoValue::from_typed(&()))
        }
        _ => panic!("harness: unknown export {}", export),
    }
}

fn slot(slots: &BTreeMap<usize, NodeId>, s: usize) -> Result<NodeId, RuntimeError> {
    // an empty slot is a harness-level no-op failure: fail the transaction like a panic would
    slots.get(&s).cloned().ok_or(RuntimeError::ApplicationError(ApplicationError::PanicMessage("empty slot".into())))
}

fn g_step<Y: SystemApi<RuntimeError> + KernelNodeApi + KernelSubstateApi<SystemLockData>>(
    api: &mut Y,
    op: &GOp,
    slots: &mut BTreeMap<usize, NodeId>,
    globals: &[GlobalAddress],
) -> Result<(), RuntimeError> {
    let key = |k: u8| scrypto_encode(&k).unwrap();
    match op {
        GOp::NewObj(s) => {
            let id = api.new_simple_object(G_BP, indexmap!(0u8 => FieldValue::new(&unit_value()), 1u8 => FieldValue::new(&unit_value())))?;
            slots.insert(*s, id);
        }
        GOp::NewKv(s) => {
            let id = api.key_value_store_new(KeyValueStoreDataSchema::new_local_without_self_package_replacement::<u8, ScryptoValue>(true))?;
            slots.insert(*s, id);
        }
        GOp::NewVault(s) => {
            let v = Vault::create(XRD, api)?;
            slots.insert(*s, v.0 .0);
        }
        GOp::Nest(into, s) => {
            let parent = slot(slots, *into)?;
            let child = slot(slots, *s)?;
            // field 0 of a heap object of our own blueprint: kernel-level write through the substate API
            let h = api.kernel_open_substate(&parent, MAIN_BASE_PARTITION, &SubstateKey::Field(0), LockFlags::MUTABLE, SystemLockData::default())?;
            let v = FieldSubstate::new_unlocked_field(Own(child));
            api.kernel_write_substate(h, IndexedScryptoValue::from_typed(&v))?;
            api.kernel_close_substate(h)?;
            slots.remove(s);
        }
        GOp::PutInKv(kv, k, s) => {
            let store = slot(slots, *kv)?;
            let child = slot(slots, *s)?;
            let h = api.key_value_store_open_entry(&store, &key(*k), LockFlags::MUTABLE)?;
            api.key_value_entry_set(h, scrypto_encode(&Own(child)).unwrap())?;
            api.key_value_entry_close(h)?;
            slots.remove(s);
        }
        GOp::StoreInField(s) => {
            let child = slot(slots, *s)?;
            let h = api.actor_open_field(ACTOR_STATE_SELF, 0, LockFlags::MUTABLE)?;
            api.field_write(h, scrypto_encode(&Own(child)).unwrap())?;
            api.field_close(h)?;
            slots.remove(s);
        }
        GOp::StoreInKv(k, s) => {
            let child = slot(slots, *s)?;
            let h = api.actor_open_key_value_entry(ACTOR_STATE_SELF, 0, &key(*k), LockFlags::MUTABLE)?;
            api.key_value_entry_set(h, scrypto_encode(&Own(child)).unwrap())?;
            api.key_value_entry_close(h)?;
            slots.remove(s);
        }
        GOp::ClearField => {
            let h = api.actor_open_field(ACTOR_STATE_SELF, 0, LockFlags::MUTABLE)?;
            api.field_write(h, scrypto_encode(&()).unwrap())?;
            api.field_close(h)?;
        }
        GOp::RemoveKv(k) => {
            api.actor_remove_key_value_entry(ACTOR_STATE_SELF, 0, &key(*k))?;
        }
        GOp::StoreRef(k, g) => {
            let a = globals[*g % globals.len()];
            let h = api.actor_open_key_value_entry(ACTOR_STATE_SELF, 0, &key(*k), LockFlags::MUTABLE)?;
            api.key_value_entry_set(h, scrypto_encode(&Reference(a.into_node_id())).unwrap())?;
            api.key_value_entry_close(h)?;
        }
        GOp::StoreInternalRef(k, s) => {
            let n = slot(slots, *s)?;
            let h = api.actor_open_key_value_entry(ACTOR_STATE_SELF, 0, &key(*k), LockFlags::MUTABLE)?;
            api.key_value_entry_set(h, scrypto_encode(&Reference(n)).unwrap())?;
            api.key_value_entry_close(h)?;
        }
        GOp::Drop(s) => {
            let n = slot(slots, *s)?;
            api.drop_object(&n)?;
            slots.remove(s);
        }
        GOp::Globalize(s) => {
            let n = slot(slots, *s)?;
            let metadata = Metadata::create(api)?;
            let access_rules = RoleAssignment::create(OwnerRole::None, indexmap!(), api)?;
            api.globalize(
                n,
                indexmap!(
                    AttachedModuleId::Metadata => metadata.0,
                    AttachedModuleId::RoleAssignment => access_rules.0.0,
                ),
                None,
            )?;
            slots.remove(s);
        }
        GOp::StoreTwice(k, s) => {
            let child = slot(slots, *s)?;
            let h = api.actor_open_key_value_entry(ACTOR_STATE_SELF, 0, &key(*k), LockFlags::MUTABLE)?;
            api.key_value_entry_set(h, scrypto_encode(&(Own(child), Own(child))).unwrap())?;
            api.key_value_entry_close(h)?;
            slots.remove(s);
        }
        GOp::Panic => {
            api.panic("half-way".to_string())?;
        }
        GOp::HeapRef(into, s) => {
            let parent = slot(slots, *into)?;
            let target = slot(slots, *s)?;
            write_ref_field(api, &parent, target)?;
        }
        GOp::HeapRefStored(into, k) => {
            let parent = slot(slots, *into)?;
            let (h, target) = open_stored_child(api, *k)?;
            write_ref_field(api, &parent, target)?;
            api.key_value_entry_close(h)?;
        }
        GOp::SelfRefStored(k) => {
            let me = api.actor_get_node_id(ACTOR_REF_SELF)?;
            let (h, target) = open_stored_child(api, *k)?;
            write_ref_field(api, &me, target)?;
            api.key_value_entry_close(h)?;
        }
        GOp::KvRefStored(k, src) => {
            let (h, target) = open_stored_child(api, *src)?;
            let r = (|| {
                let h2 = api.actor_open_key_value_entry(ACTOR_STATE_SELF, 0, &key(*k), LockFlags::MUTABLE)?;
                api.key_value_entry_set(h2, scrypto_encode(&Reference(target)).unwrap())?;
                api.key_value_entry_close(h2)
            })();
            r?;
            api.key_value_entry_close(h)?;
        }
        GOp::HeapKvRefStored(kv, k, src) => {
            let store = slot(slots, *kv)?;
            let (h, target) = open_stored_child(api, *src)?;
            let r = (|| {
                let h2 = api.key_value_store_open_entry(&store, &key(*k), LockFlags::MUTABLE)?;
                api.key_value_entry_set(h2, scrypto_encode(&Reference(target)).unwrap())?;
                api.key_value_entry_close(h2)
            })();
            r?;
            api.key_value_entry_close(h)?;
        }
    }
    Ok(())
}

/// opens entry k of SELF's KV collection (it must own a node) and returns the handle and the owned node;
/// the node is visible to the frame while the handle is open
fn open_stored_child<Y: SystemApi<RuntimeError>>(api: &mut Y, k: u8) -> Result<(KeyValueEntryHandle, NodeId), RuntimeError> {
    let h = api.actor_open_key_value_entry(ACTOR_STATE_SELF, 0, &scrypto_encode(&k).unwrap(), LockFlags::read_only())?;
    let raw = api.key_value_entry_get(h)?;
    match scrypto_decode::<Option<Own>>(&raw) {
        Ok(Some(o)) => Ok((h, o.0)),
        _ => {
            api.key_value_entry_close(h)?;
            Err(RuntimeError::ApplicationError(ApplicationError::PanicMessage("entry owns nothing".into())))
        }
    }
}

/// kernel-level write of Reference(target) into field 1 of `node` (no system-level payload validation)
fn write_ref_field<Y: KernelSubstateApi<SystemLockData>>(api: &mut Y, node: &NodeId, target: NodeId) -> Result<(), RuntimeError> {
    let h = api.kernel_open_substate(node, MAIN_BASE_PARTITION, &SubstateKey::Field(1), LockFlags::MUTABLE, SystemLockData::default())?;
    let v = FieldSubstate::new_unlocked_field(Reference(target));
    api.kernel_write_substate(h, IndexedScryptoValue::from_typed(&v))?;
    api.kernel_close_substate(h)
}

fn random_gops(rng: &mut StdRng) -> Vec<GOp> {
    let n = rng.gen_range(2..12);
    let mut ops = vec![];
    let mut live: Vec<(usize, u8)> = vec![]; // (slot, kind 0 obj 1 kv 2 vault)
    let mut next = 0usize;
    for _ in 0..n {
        let pick = |rng: &mut StdRng, live: &Vec<(usize, u8)>, kind: Option<u8>| -> Option<usize> {
            let c: Vec<usize> = live.iter().filter(|(_, k)| kind.map(|x| x == *k).unwrap_or(true)).map(|(s, _)| *s).collect();
            if c.is_empty() {
                None
            } else {
                Some(c[rng.gen_range(0..c.len())])
            }
        };
        let k = rng.gen_range(0..6u8);
        match rng.gen_range(0..20) {
            0..=3 => {
                ops.push(GOp::NewObj(next));
                live.push((next, 0));
                next += 1;
            }
            4 | 5 => {
                ops.push(GOp::NewKv(next));
                live.push((next, 1));
                next += 1;
            }
            6 => {
                ops.push(GOp::NewVault(next));
                live.push((next, 2));
                next += 1;
            }
            7 | 8 => {
                if let (Some(p), Some(c)) = (pick(rng, &live, Some(0)), pick(rng, &live, None)) {
                    if p != c {
                        ops.push(GOp::Nest(p, c));
                        live.retain(|(s, _)| *s != c);
                    }
                }
            }
            9 | 10 => {
                if let (Some(p), Some(c)) = (pick(rng, &live, Some(1)), pick(rng, &live, None)) {
                    if p != c {
                        ops.push(GOp::PutInKv(p, k, c));
                        live.retain(|(s, _)| *s != c);
                    }
                }
            }
            11 => {
                if let Some(c) = pick(rng, &live, None) {
                    ops.push(GOp::StoreInField(c));
                    live.retain(|(s, _)| *s != c);
                }
            }
            12 | 13 | 14 => {
                if let Some(c) = pick(rng, &live, None) {
                    ops.push(GOp::StoreInKv(k, c));
                    live.retain(|(s, _)| *s != c);
                }
            }
            15 => ops.push(GOp::StoreRef(k, rng.gen_range(0..16))),
            16 => {
                if let Some(c) = pick(rng, &live, Some(0)) {
                    if rng.gen_bool(0.5) {
                        ops.push(GOp::Drop(c));
                    } else {
                        ops.push(GOp::Globalize(c));
                    }
                    live.retain(|(s, _)| *s != c);
                }
            }
            17 => match rng.gen_range(0..4) {
                0 => ops.push(GOp::ClearField),
                1 => ops.push(GOp::RemoveKv(k)),
                2 => {
                    if let Some(c) = pick(rng, &live, None) {
                        ops.push(GOp::StoreInternalRef(k, c));
                    }
                }
                _ => {
                    if let Some(c) = pick(rng, &live, None) {
                        ops.push(GOp::StoreTwice(k, c));
                        live.retain(|(s, _)| *s != c);
                    }
                }
            },
            18 => {
                if rng.gen_bool(0.3) {
                    ops.push(GOp::Panic);
                }
            }
            _ => {}
        }
    }
    // most programs tidy up what they still hold (otherwise the transaction fails: also a history)
    if rng.gen_bool(0.8) {
        for (s, kind) in live {
            match kind {
                0 => ops.push(if rng.gen_bool(0.5) { GOp::Drop(s) } else { GOp::StoreInKv(rng.gen_range(6..40), s) }),
                _ => ops.push(GOp::StoreInKv(rng.gen_range(6..40), s)),
            }
        }
    }
    ops
}

// ---------------------------------------------------------------------------------------------

pub fn run(mode: &str, args: &Args) {
    match mode {
        "history" => history(args),
        "scenarios" => scenarios(args),
        _ => panic!("mode"),
    }
}

/// (i) seeded histories on a LedgerSimulator: accounts, resources, transfers, and the G blueprint
fn history(args: &Args) {
    let seed = args.u64("seed", 1);
    let runs = args.u64("runs", 2) as usize;
    let len = args.u64("len", 40) as usize;
    let checker_every = args.u64("checker_every", 1) as usize;
    let mut log = GraphLogger::new();
    let mut outcomes: BTreeMap<String, u64> = BTreeMap::new();
    // node operations that were part of a successful transaction (projection for the driver's non-vacuity check)
    let mut ops_ok: BTreeMap<String, u64> = BTreeMap::new();
    let mut force_checker = false;
    // what the catalogue says about the transaction being executed: "success" | "failure" (refused) | "any"
    let mut expect: &'static str = "any";
    for run in 0..runs {
        let mut rng = StdRng::seed_from_u64(seed.wrapping_add(run as u64 * 7919));
        let mut ledger = crate::limits::new_ledger();
        let pkg = ledger.publish_native_package(CODE_ID, g_package());
        log.reset(ledger.substate_db(), &format!("run{}", run));
        let mut comps: Vec<ComponentAddress> = vec![];
        let mut accounts: Vec<(Secp256k1PublicKey, ComponentAddress)> = vec![];
        let mut resources: Vec<ResourceAddress> = vec![XRD];
        let mut step = 0usize;
        let mut forced_virtual = false;
        // a small fixed prologue so that every run has components, accounts and resources; in run 0 it is
        // followed by the CATALOGUE: fixed programs that exercise every node operation and every refusal of
        // the kernel/system at least once, independent of the seed (action 99; the repository's checkers
        // run after each of them)
        let mut todo: Vec<u32> = vec![0, 0, 1, 1, 2];
        if run == 0 {
            native_catalogue(&mut ledger, &mut log, &mut accounts, &mut resources, &mut outcomes);
        }
        let mut catalogue: Vec<(Vec<GOp>, &'static str)> = if run == 0 { catalogue_programs() } else { vec![] };
        catalogue.reverse();
        for _ in 0..catalogue.len() {
            todo.insert(0, 99);
        }
        while step < len {
            let action = todo.pop().unwrap_or_else(|| rng.gen_range(0..12));
            let (label, receipt): (String, TransactionReceipt) = match action {
                0 => {
                    let r = ledger.execute_manifest(
                        ManifestBuilder::new().lock_fee_from_faucet().call_function(pkg, G_BP, "new", manifest_args!()).build(),
                        vec![],
                    );
                    if let TransactionResult::Commit(c) = &r.result {
                        comps.extend(c.new_component_addresses().iter().cloned());
                    }
                    ("g_new".into(), r)
                }
                1 => {
                    let (pk, _, acc) = ledger.new_allocated_account();
                    accounts.push((pk, acc));
                    step += 1;
                    log.commit(ledger.substate_db(), "new_account", "success", step % checker_every == 0);
                    continue;
                }
                2 => {
                    if accounts.is_empty() {
                        continue;
                    }
                    let acc = accounts[rng.gen_range(0..accounts.len())].1;
                    let res = if rng.gen_bool(0.5) {
                        ledger.create_fungible_resource(dec!(1000), rng.gen_range(0..19), acc)
                    } else {
                        ledger.create_non_fungible_resource(acc)
                    };
                    resources.push(res);
                    step += 1;
                    log.commit(ledger.substate_db(), "new_resource", "success", step % checker_every == 0);
                    continue;
                }
                3 => {
                    if accounts.len() < 2 {
                        continue;
                    }
                    let (pk, from) = accounts[rng.gen_range(0..accounts.len())];
                    let to = accounts[rng.gen_range(0..accounts.len())].1;
                    let amount = if rng.gen_bool(0.2) { dec!(1000000000) } else { dec!(1) };
                    let r = ledger.execute_manifest(
                        ManifestBuilder::new()
                            .lock_fee_from_faucet()
                            .withdraw_from_account(from, XRD, amount)
                            .try_deposit_entire_worktop_or_abort(to, None)
                            .build(),
                        vec![NonFungibleGlobalId::from_public_key(&pk)],
                    );
                    ("transfer".into(), r)
                }
                4 => {
                    // free XRD into a not-yet-instantiated preallocated account (virtual address)
                    let pk = Secp256k1PrivateKey::from_u64(rng.gen_range(1000..2000u64)).unwrap().public_key();
                    let acc = ComponentAddress::preallocated_account_from_public_key(&pk);
                    let r = ledger.execute_manifest(
                        ManifestBuilder::new().lock_fee_from_faucet().get_free_xrd_from_faucet().try_deposit_entire_worktop_or_abort(acc, None).build(),
                        vec![],
                    );
                    ("virtual_account".into(), r)
                }
                _ => {
                    if comps.is_empty() {
                        continue;
                    }
                    let comp = comps[rng.gen_range(0..comps.len())];
                    let from_catalogue = action == 99;
                    let mut ops = if from_catalogue {
                        let (o, e) = catalogue.pop().unwrap();
                        expect = e;
                        o
                    } else {
                        random_gops(&mut rng)
                    };
                    let comp = if from_catalogue { comps[0] } else { comp };
                    let mut globals: Vec<GlobalAddress> = vec![ledger.faucet_component(), XRD.into(), pkg.into(), CONSENSUS_MANAGER.into()];
                    globals.extend(comps.iter().map(|c| GlobalAddress::from(*c)));
                    globals.extend(accounts.iter().map(|a| GlobalAddress::from(a.1)));
                    globals.extend(resources.iter().map(|a| GlobalAddress::from(*a)));
                    // a preallocated account address that has no state yet
                    if run % 2 == 1 {
                        let pk = Secp256k1PrivateKey::from_u64(rng.gen_range(5000..6000u64)).unwrap().public_key();
                        globals.push(ComponentAddress::preallocated_account_from_public_key(&pk).into());
                        if !forced_virtual && !from_catalogue {
                            // once per odd run for sure: a stored reference to an address without state
                            forced_virtual = true;
                            ops = vec![GOp::StoreRef(0, globals.len() - 1)];
                        }
                    }
                    let label = format!("g_run{:?}", ops).chars().take(300).collect::<String>();
                    GST.with(|s| *s.borrow_mut() = GState { ops, globals: globals.clone(), first_err: None });
                    // all the referenced addresses must be known to the transaction
                    let mut b = ManifestBuilder::new().lock_fee_from_faucet();
                    b = b.call_method(comp, "run", (globals,));
                    let r = ledger.execute_manifest(b.build(), vec![]);
                    if let TransactionResult::Commit(c) = &r.result {
                        comps.extend(c.new_component_addresses().iter().cloned());
                        if matches!(c.outcome, TransactionOutcome::Success(_)) {
                            let ops = GST.with(|s| s.borrow().ops.clone());
                            for o in &ops {
                                *ops_ok.entry(variant_name(&format!("{:?}", o))).or_default() += 1;
                            }
                        }
                    }
                    if from_catalogue {
                        force_checker = true;
                    }
                    (label, r)
                }
            };
            let (status, class) = receipt_outcome(&receipt);
            *outcomes.entry(format!("{}:{}", status, class)).or_default() += 1;
            if matches!(receipt.result, TransactionResult::Commit(_)) {
                step += 1;
                log.expect = expect;
                log.err = class.clone();
                log.commit(ledger.substate_db(), &label, &status, force_checker || step % checker_every == 0);
                log.expect = "any";
                log.err = String::new();
            }
            force_checker = false;
            expect = "any";
        }
    }
    log.out.emit(&json!({"a": "summary", "outcomes": outcomes, "ops_ok": ops_ok, "commits": log.commits, "max_nodes": log.max_nodes}));
    log.out.flush();
}

/// One instance of EVERY native global blueprint (and through them vaults of both kinds and key-value
/// stores), each in its own transaction, logged and checked like every other commit: so that the
/// entity-type table of Graph.tla is exercised for every row, independent of seed and tier.
fn native_catalogue(
    ledger: &mut crate::limits::Ledger,
    log: &mut GraphLogger,
    accounts: &mut Vec<(Secp256k1PublicKey, ComponentAddress)>,
    resources: &mut Vec<ResourceAddress>,
    outcomes: &mut BTreeMap<String, u64>,
) {
    let (pk, _, account) = ledger.new_allocated_account();
    accounts.push((pk, account));
    log.commit(ledger.substate_db(), "native:account", "success", true);
    let proofs = vec![NonFungibleGlobalId::from_public_key(&pk)];
    let mut run = |ledger: &mut crate::limits::Ledger, log: &mut GraphLogger, label: &str, m: TransactionManifestV1, proofs: Vec<NonFungibleGlobalId>| -> TransactionReceipt {
        let r = ledger.execute_manifest(m, proofs);
        let (status, class) = receipt_outcome(&r);
        *outcomes.entry(format!("native:{}:{}:{}", label, status, class)).or_default() += 1;
        if matches!(r.result, TransactionResult::Commit(_)) {
            log.commit(ledger.substate_db(), &format!("native:{}", label), &status, true);
        }
        r
    };
    // fungible resources (3) and a non-fungible one, minted into the account (vaults of both kinds)
    let mut fungibles = vec![];
    for i in 0..3u8 {
        let r = run(ledger, log, "fungible_resource",
            ManifestBuilder::new().lock_fee_from_faucet()
                .create_fungible_resource(OwnerRole::None, true, 18 - i, FungibleResourceRoles::default(), metadata!(), Some(dec!(100)))
                .try_deposit_entire_worktop_or_abort(account, None).build(), vec![]);
        if let TransactionResult::Commit(c) = &r.result {
            fungibles.extend(c.new_resource_addresses().iter().cloned());
        }
    }
    resources.extend(fungibles.iter().cloned());
    let nf = ledger.create_non_fungible_resource(account);
    resources.push(nf);
    log.commit(ledger.substate_db(), "native:non_fungible_resource", "success", true);
    // identity, preallocated identity (instantiated by its first method call), preallocated ed25519 account
    run(ledger, log, "identity", ManifestBuilder::new().lock_fee_from_faucet().create_identity_advanced(OwnerRole::None).build(), vec![]);
    let ipk = Secp256k1PrivateKey::from_u64(777).unwrap().public_key();
    let vid = ComponentAddress::preallocated_identity_from_public_key(&ipk);
    run(ledger, log, "preallocated_identity",
        ManifestBuilder::new().lock_fee_from_faucet().call_method(vid, IDENTITY_SECURIFY_IDENT, manifest_args!())
            .try_deposit_entire_worktop_or_abort(account, None).build(),
        vec![NonFungibleGlobalId::from_public_key(&ipk)]);
    let epk = Ed25519PrivateKey::from_u64(778).unwrap().public_key();
    let eid = ComponentAddress::preallocated_identity_from_public_key(&epk);
    run(ledger, log, "preallocated_identity_ed25519",
        ManifestBuilder::new().lock_fee_from_faucet().call_method(eid, IDENTITY_SECURIFY_IDENT, manifest_args!())
            .try_deposit_entire_worktop_or_abort(account, None).build(),
        vec![NonFungibleGlobalId::from_public_key(&epk)]);
    let eacc = ComponentAddress::preallocated_account_from_public_key(&epk);
    run(ledger, log, "preallocated_account_ed25519",
        ManifestBuilder::new().lock_fee_from_faucet().get_free_xrd_from_faucet().try_deposit_entire_worktop_or_abort(eacc, None).build(), vec![]);
    let sacc = ComponentAddress::preallocated_account_from_public_key(&ipk);
    run(ledger, log, "preallocated_account_secp256k1",
        ManifestBuilder::new().lock_fee_from_faucet().get_free_xrd_from_faucet().try_deposit_entire_worktop_or_abort(sacc, None).build(), vec![]);
    // validator
    run(ledger, log, "validator",
        ManifestBuilder::new().lock_fee_from_faucet().get_free_xrd_from_faucet()
            .take_from_worktop(XRD, *DEFAULT_VALIDATOR_XRD_COST, "fee")
            .create_validator(Secp256k1PrivateKey::from_u64(779).unwrap().public_key(), Decimal::ONE, "fee")
            .try_deposit_entire_worktop_or_abort(account, None).build(), vec![]);
    // access controller
    run(ledger, log, "access_controller",
        ManifestBuilder::new().lock_fee_from_faucet().get_free_xrd_from_faucet()
            .take_from_worktop(XRD, dec!(1), "asset")
            .create_access_controller("asset", rule!(allow_all), rule!(allow_all), rule!(allow_all), Some(1))
            .try_deposit_entire_worktop_or_abort(account, None).build(), vec![]);
    // pools
    if fungibles.len() == 3 {
        run(ledger, log, "one_resource_pool",
            ManifestBuilder::new().lock_fee_from_faucet().call_function(POOL_PACKAGE, ONE_RESOURCE_POOL_BLUEPRINT, ONE_RESOURCE_POOL_INSTANTIATE_IDENT,
                OneResourcePoolInstantiateManifestInput { resource_address: fungibles[0].into(), pool_manager_rule: rule!(allow_all).into(), owner_role: OwnerRole::None.into(), address_reservation: None }).build(), vec![]);
        run(ledger, log, "two_resource_pool",
            ManifestBuilder::new().lock_fee_from_faucet().call_function(POOL_PACKAGE, TWO_RESOURCE_POOL_BLUEPRINT, TWO_RESOURCE_POOL_INSTANTIATE_IDENT,
                TwoResourcePoolInstantiateManifestInput { resource_addresses: (fungibles[0].into(), fungibles[1].into()), pool_manager_rule: rule!(allow_all).into(), owner_role: OwnerRole::None.into(), address_reservation: None }).build(), vec![]);
        run(ledger, log, "multi_resource_pool",
            ManifestBuilder::new().lock_fee_from_faucet().call_function(POOL_PACKAGE, MULTI_RESOURCE_POOL_BLUEPRINT, MULTI_RESOURCE_POOL_INSTANTIATE_IDENT,
                MultiResourcePoolInstantiateManifestInput { resource_addresses: indexset!(fungibles[0].into(), fungibles[1].into(), fungibles[2].into()), pool_manager_rule: rule!(allow_all).into(), owner_role: OwnerRole::None.into(), address_reservation: None }).build(), vec![]);
    }
    // account locker
    run(ledger, log, "account_locker",
        ManifestBuilder::new().lock_fee_from_faucet().call_function(LOCKER_PACKAGE, ACCOUNT_LOCKER_BLUEPRINT, ACCOUNT_LOCKER_INSTANTIATE_SIMPLE_IDENT,
            AccountLockerInstantiateSimpleManifestInput { allow_recover: false })
            .try_deposit_entire_worktop_or_abort(account, None).build(), vec![]);
    let _ = proofs;
}

/// Fixed programs for one G component (executed in this order, the state accumulates): every node
/// operation in a transaction that succeeds, and every way a transaction is refused half-way.
/// Each program states what the ownership / reference rules (spec/NodeGraph/NodeGraph.tla, Graph.tla)
/// make of it: "success", or the refusal it must meet; TraceNodeGraph compares that with the engine.
fn catalogue_programs() -> Vec<(Vec<GOp>, &'static str)> {
    use GOp::*;
    vec![
        (vec![], "success"),
        (vec![NewObj(0), StoreInKv(1, 0)], "success"),                                  // object into a KV entry
        (vec![NewObj(0), StoreInKv(1, 0)], "failure:CallFrame:WriteSubstateError.ProcessSubstateError.CantDropNodeInStore"),                                  // overwrite an entry that owns a node: refused
        (vec![RemoveKv(1)], "failure:CallFrame:WriteSubstateError.ProcessSubstateError.CantDropNodeInStore"),                                                 // remove an entry that owns a node: refused
        (vec![NewObj(0), StoreInField(0)], "success"),                                  // object into the field
        (vec![ClearField], "failure:CallFrame:WriteSubstateError.ProcessSubstateError.CantDropNodeInStore"),                                                  // drop a stored own: refused
        (vec![NewObj(0), StoreInField(0)], "failure:CallFrame:WriteSubstateError.ProcessSubstateError.CantDropNodeInStore"),                                  // overwrite the owning field: refused
        (vec![NewKv(0), NewObj(1), PutInKv(0, 1, 1), StoreInKv(2, 0)], "success"),      // heap KV store with an object inside, moved to the store
        (vec![NewObj(0), NewObj(1), Nest(0, 1), StoreInKv(3, 0)], "success"),           // two levels
        (vec![NewObj(0), NewObj(1), NewObj(2), Nest(1, 2), Nest(0, 1), StoreInKv(4, 0)], "success"), // three levels
        (vec![NewObj(0), Globalize(0)], "success"),
        (vec![NewObj(0), NewObj(1), Nest(0, 1), Globalize(0)], "success"),              // a global object that owns a child
        (vec![NewVault(0), StoreInKv(5, 0)], "success"),
        (vec![NewKv(0), NewVault(1), PutInKv(0, 0, 1), StoreInKv(6, 0)], "success"),    // vault inside a KV store
        (vec![StoreRef(7, 0), StoreRef(8, 1), StoreRef(9, 2), StoreRef(10, 3)], "success"), // references to global entities of four kinds
        (vec![NewObj(0), StoreInternalRef(11, 0), Drop(0)], "failure:System:TypeCheckError"),                 // reference to an internal node: refused
        (vec![NewObj(0), StoreTwice(12, 0)], "failure:CallFrame:WriteSubstateError.SubstateDiffError.ContainsDuplicateOwns"),                                // the same node owned twice: refused
        (vec![NewObj(0)], "failure:Kernel:OrphanedNodes"),                                                   // leaked object: refused
        (vec![NewKv(0)], "failure:Kernel:OrphanedNodes"),                                                    // leaked KV store: refused
        (vec![NewObj(0), StoreInKv(13, 0), Panic], "failure:AppPanic"),                          // fails after a node was already stored
        (vec![NewObj(0), Drop(0)], "success"),
        (vec![NewObj(0), NewObj(1), Nest(0, 1), Drop(0)], "failure:Kernel:OrphanedNodes"),                   // dropping a parent hands the child back: leaked, refused
        (vec![NewKv(0), NewKv(1), PutInKv(0, 1, 1), StoreInKv(14, 0)], "success"),      // KV store inside a KV store
        (vec![NewObj(0), NewKv(1), Nest(0, 1), StoreInKv(15, 0)], "success"),           // object that owns a KV store
        (vec![NewObj(0), NewObj(1), StoreInKv(16, 0), StoreInKv(17, 1), StoreRef(18, 4)], "success"), // several stores in one transaction
        // --- every way a reference to a NON-global node could reach the store (all must be refused) ---
        // (entries 1 / 5 / 2 of this component own an object / a vault / a key-value store since the programs above)
        (vec![NewObj(0), HeapRefStored(0, 1), Globalize(0)], "failure:CallFrame:MovePartitionError.NonGlobalRefNotAllowed.NodeId"),                // globalize an object that references a stored internal object
        (vec![NewObj(0), HeapRefStored(0, 5), Globalize(0)], "failure:CallFrame:MovePartitionError.NonGlobalRefNotAllowed.NodeId"),                // ... a vault inside this component
        (vec![NewObj(0), HeapRefStored(0, 2), Globalize(0)], "failure:CallFrame:MovePartitionError.NonGlobalRefNotAllowed.NodeId"),                // ... a key-value store inside this component
        (vec![NewObj(0), HeapRefStored(0, 1), StoreInKv(20, 0)], "failure:CallFrame:WriteSubstateError.ProcessSubstateError.PersistNodeError"),            // move such an object into a KV entry of a global component
        (vec![NewObj(0), HeapRefStored(0, 5), StoreInField(0)], "failure:CallFrame:WriteSubstateError.ProcessSubstateError.PersistNodeError"),             // ... into its field
        (vec![NewObj(0), NewObj(1), HeapRefStored(1, 1), Nest(0, 1), Globalize(0)], "failure:CallFrame:MovePartitionError.PersistNodeError.ContainsNonGlobalRef"), // the reference sits in a child of the globalized object
        (vec![NewKv(0), NewObj(1), HeapRefStored(1, 1), PutInKv(0, 0, 1), StoreInKv(21, 0)], "failure:CallFrame:WriteSubstateError.ProcessSubstateError.PersistNodeError"), // ... inside a KV store that is moved
        (vec![NewObj(0), NewObj(1), HeapRef(0, 1), Globalize(0), Drop(1)], "failure:CallFrame:MovePartitionError.NonGlobalRefNotAllowed.NodeId"),   // reference to a heap sibling, then globalize
        (vec![NewObj(0), NewObj(1), HeapRef(0, 1), Globalize(0), StoreInKv(22, 1)], "failure:CallFrame:MovePartitionError.NonGlobalRefNotAllowed.NodeId"), // ... and store the sibling
        (vec![NewObj(0), NewObj(1), HeapRef(0, 1), Nest(0, 1), Globalize(0)], "failure:CallFrame:MovePartitionError.PersistNodeError.NodeBorrowed"), // reference to its own child
        (vec![NewObj(0), NewObj(1), HeapRef(0, 1), StoreInKv(23, 0), StoreInKv(24, 1)], "failure:CallFrame:WriteSubstateError.ProcessSubstateError.PersistNodeError"), // both stored
        (vec![SelfRefStored(1)], "failure:CallFrame:WriteSubstateError.ProcessSubstateError.NonGlobalRefNotAllowed"),                                            // kernel-level write into a field of the global component
        (vec![SelfRefStored(5)], "failure:CallFrame:WriteSubstateError.ProcessSubstateError.NonGlobalRefNotAllowed"),
        (vec![KvRefStored(25, 1)], "failure:System:TypeCheckError"),                                          // system-level write into its KV entry
        (vec![KvRefStored(26, 5)], "failure:System:TypeCheckError"),
        (vec![NewKv(0), HeapKvRefStored(0, 0, 1), StoreInKv(27, 0)], "failure:System:TypeCheckError"),        // a heap KV store holding such a reference, then moved
        (vec![NewObj(0), HeapRefStored(0, 1), Drop(0)], "success"),                     // harmless: the referencing object never leaves the heap
    ]
}

/// (ii) the repository's transaction scenarios, every protocol version from genesis to the latest
struct Hooks {
    log: GraphLogger,
    checker_every: usize,
    n: usize,
    only: Option<BTreeSet<String>>,
    active: bool,
    scenarios: Vec<String>,
    t0: std::time::Instant,
}
impl ScenarioExecutionHooks<InMemorySubstateDatabase> for Hooks {
    fn on_scenario_started(&mut self, event: OnScenarioStarted<InMemorySubstateDatabase>) {
        let name = event.metadata.logical_name.to_string();
        if std::env::var("VH_TIMING").is_ok() {
            eprintln!("[timing] {:?} scenario {} starts", self.t0.elapsed(), name);
        }
        self.active = self.only.as_ref().map(|s| s.contains(&name)).unwrap_or(true);
        if self.active {
            self.scenarios.push(name.clone());
            self.log.reset(event.database, &format!("{}@{:?}", name, event.current_protocol_version));
        }
    }
    fn on_transaction_executed(&mut self, event: OnScenarioTransactionExecuted<InMemorySubstateDatabase>) {
        if !self.active {
            return;
        }
        if matches!(event.receipt.result, TransactionResult::Commit(_)) {
            self.n += 1;
            let (status, _) = receipt_outcome(event.receipt);
            let run_checker = self.n % self.checker_every == 0;
            let t = std::time::Instant::now();
            self.log.commit(event.database, &event.transaction.logical_name, &status, run_checker);
            if std::env::var("VH_TIMING").is_ok() {
                eprintln!("[timing] {:?} tx {} logged in {:?} (checker {})", self.t0.elapsed(), event.transaction.logical_name, t.elapsed(), run_checker);
            }
        }
    }
    fn on_scenario_ended(&mut self, event: OnScenarioEnded<InMemorySubstateDatabase>) {
        if self.active {
            // the repository's checkers at the end of every scenario in any case
            let (kernel, system) = repo_checkers(event.database);
            self.log.out.emit(&json!({"a": "check", "label": event.metadata.logical_name, "checker": "ran", "kernel": kernel, "system": system}));
            self.log.events += 1;
        }
    }
}

fn scenarios(args: &Args) {
    use radix_transaction_scenarios::scenarios::all_scenarios_iter;
    let checker_every = args.u64("checker_every", 10) as usize;
    // selection: `only=a,b` / `skip=a,b` by logical name; `every_version=1` runs each selected scenario at
    // every protocol version at which it is valid, on a fresh ledger per version (otherwise once, when first valid)
    let only = args.kv.get("only").map(|s| s.split(',').map(|x| x.to_string()).collect::<BTreeSet<_>>());
    let skip: BTreeSet<String> = args.kv.get("skip").map(|s| s.split(',').map(|x| x.to_string()).collect()).unwrap_or_default();
    let every_version = args.u64("every_version", 0) != 0;
    let names: BTreeSet<String> = all_scenarios_iter()
        .map(|c| c.metadata().logical_name.to_string())
        .filter(|n| only.as_ref().map(|o| o.contains(n)).unwrap_or(true) && !skip.contains(n))
        .collect();
    let mut hooks = Hooks { log: GraphLogger::new(), checker_every, n: 0, only: None, active: false, scenarios: vec![], t0: std::time::Instant::now() };
    if !every_version {
        // one ledger, genesis -> latest; one executor pass per protocol version over the same database, so
        // that the selection can follow the "first valid at this version" rule of the repository's own runs
        let mut exec = TransactionScenarioExecutor::new(InMemorySubstateDatabase::standard(), NetworkDefinition::simulator());
        let mut first = true;
        for v in ProtocolVersion::all_from(ProtocolVersion::Babylon) {
            let at_v: BTreeSet<String> = all_scenarios_iter()
                .filter(|c| names.contains(c.metadata().logical_name) && c.metadata().protocol_min_requirement == v)
                .map(|c| c.metadata().logical_name.to_string())
                .collect();
            let from_bootstrap = first;
            first = false;
            exec.execute_protocol_updates_and_scenarios(
                |b| if from_bootstrap { b.from_bootstrap_to(v) } else { b.from_current_to(v) },
                ScenarioTrigger::AtStartOfProtocolVersions(btreeset!(v)),
                ScenarioFilter::SpecificScenariosByName(at_v),
                &mut hooks,
                &mut (),
                &VmModules::default(),
            )
            .expect("harness: scenarios must execute");
        }
    } else {
        // one FRESH ledger per protocol version v (genesis -> v), running every selected scenario that is
        // valid at v: the same scenario is then executed by every protocol version's engine
        for v in ProtocolVersion::all_from(ProtocolVersion::Babylon) {
            let at_v: BTreeSet<String> = all_scenarios_iter()
                .filter(|c| {
                    let md = c.metadata();
                    names.contains(md.logical_name) && v >= md.protocol_min_requirement && v <= md.protocol_max_requirement
                })
                .map(|c| c.metadata().logical_name.to_string())
                .collect();
            let mut exec = TransactionScenarioExecutor::new(InMemorySubstateDatabase::standard(), NetworkDefinition::simulator());
            exec.execute_protocol_updates_and_scenarios(
                |b| b.from_bootstrap_to(v),
                ScenarioTrigger::AtStartOfProtocolVersions(btreeset!(v)),
                ScenarioFilter::SpecificScenariosByName(at_v),
                &mut hooks,
                &mut (),
                &VmModules::default(),
            )
            .expect("harness: scenarios must execute");
        }
    }
    let Hooks { mut log, scenarios, .. } = hooks;
    log.out.emit(&json!({"a": "summary", "scenarios": scenarios, "commits": log.commits, "max_nodes": log.max_nodes}));
    log.out.flush();
}

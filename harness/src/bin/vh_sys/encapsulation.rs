//! C50 — binding of spec/NodeGraph/Encapsulation.tla to the system layer of the real engine.
//!
//! Three native test packages: A (blueprints X, Y), B (blueprint Outer and its inner blueprint
//! Inner), D (a foreign driver Drv).  A case names an ACTOR (function or method of X / Outer /
//! Inner), a TARGET node (objects of the test blueprints, inner objects of two different outer
//! objects, bucket, vault, proof, key-value store, address reservations, global components),
//! HOW the actor got it (ownership moved in, or a borrowed reference) and the system call to
//! make.  Drv obtains the target from the package that may create it, calls the actor, the
//! actor makes the call and RECORDS the Result (kept in a thread-local: the blueprints run
//! in-process); nothing is propagated, the transaction is not committed.  The expected answer of
//! every case comes from TLC (GenEncapsulation.tla).  Nothing in here decides a property.
use crate::bp::*;
use radix_native_sdk::modules::metadata::Metadata;
use radix_native_sdk::modules::role_assignment::RoleAssignment;
use radix_native_sdk::resource::*;
use scrypto_test::prelude::*;
use serde_json::{json, Value};
use std::cell::RefCell;
use vh::util::*;
use vh::Args;

#[derive(Default, Clone)]
pub struct Known {
    pub pkg_a: Option<PackageAddress>,
    pub pkg_b: Option<PackageAddress>,
    pub pkg_d: Option<PackageAddress>,
    pub x1: Option<ComponentAddress>,
    pub y1: Option<ComponentAddress>,
    pub o1: Option<ComponentAddress>,
    pub o2: Option<ComponentAddress>,
}

#[derive(Default)]
pub struct EState {
    pub known: Known,
    pub actor: String,
    pub target: String,
    pub how: String,
    pub op: String,
    /// the projected answer of the system call
    pub result: Option<String>,
    /// set when the driver itself could not build the situation
    pub setup_error: Option<String>,
}
thread_local! {
    pub static EST: RefCell<EState> = RefCell::new(EState::default());
}

fn known() -> Known {
    EST.with(|s| s.borrow().known.clone())
}
fn unit_value() -> ScryptoValue {
    scrypto_decode(&scrypto_encode(&()).unwrap()).unwrap()
}
/// field 0: unit (later Own(inner) for the global Outer objects); field 1: a marker naming the node
fn fields(marker: &str) -> IndexMap<u8, FieldValue> {
    indexmap!(0u8 => FieldValue::new(&unit_value()), 1u8 => FieldValue::new(&marker.to_string()))
}
fn set_kv_marker<Y: SystemApi<RuntimeError>>(api: &mut Y, marker: &str) -> Result<(), RuntimeError> {
    let h = api.actor_open_key_value_entry(ACTOR_STATE_SELF, 0, &scrypto_encode(&1u8).unwrap(), LockFlags::MUTABLE)?;
    api.key_value_entry_set(h, scrypto_encode(&marker.to_string()).unwrap())?;
    api.key_value_entry_close(h)
}
fn record(r: String) {
    EST.with(|s| s.borrow_mut().result = Some(r));
}

pub fn package_a() -> PackageDefinition {
    let mut x = BpSpec::new("X");
    x.fields = 2;
    x.kv_collections = 1;
    x.functions = vec![("new", false), ("make", false), ("act_f", false), ("init", true), ("act", true), ("noop", true)];
    let mut y = BpSpec::new("Y");
    y.fields = 2;
    y.functions = vec![("new", false), ("make", false), ("act", true), ("noop", true)];
    package_definition(&[x, y])
}
pub fn package_b() -> PackageDefinition {
    let mut o = BpSpec::new("Outer");
    o.fields = 2;
    o.kv_collections = 1;
    o.functions = vec![("new", false), ("make", false), ("act_f", false), ("init", true), ("act", true), ("act_inner", true), ("make_inner", true), ("noop", true)];
    let mut i = BpSpec::new("Inner");
    i.fields = 2;
    i.kv_collections = 1;
    i.inner_of = Some("Outer");
    i.functions = vec![("act", true), ("noop", true), ("init_inner", true)];
    package_definition(&[o, i])
}
pub fn package_d() -> PackageDefinition {
    let mut d = BpSpec::new("Drv");
    d.functions = vec![("drive", false), ("relay", false)];
    package_definition(&[d])
}

fn globalize_simple<Y: SystemApi<RuntimeError>>(api: &mut Y, node: NodeId, res: Option<GlobalAddressReservation>) -> Result<GlobalAddress, RuntimeError> {
    let metadata = Metadata::create(api)?;
    let access_rules = RoleAssignment::create(OwnerRole::None, indexmap!(), api)?;
    api.globalize(
        node,
        indexmap!(
            AttachedModuleId::Metadata => metadata.0,
            AttachedModuleId::RoleAssignment => access_rules.0.0,
        ),
        res,
    )
}

/// arguments handed from the driver to the actor: (owned nodes, referenced nodes)
/// plus the global addresses the next frames need to see
type ActArgs = (Vec<Own>, Vec<Reference>, Vec<GlobalAddress>);

pub fn invoke<Y: SystemApi<RuntimeError> + KernelNodeApi + KernelSubstateApi<SystemLockData>>(
    export: &str,
    input: &IndexedScryptoValue,
    api: &mut Y,
) -> Result<IndexedScryptoValue, RuntimeError> {
    let unit = || Ok(IndexedScryptoValue::from_typed(&()));
    match export {
        // ---- creation of the fixtures
        "X::new" | "Y::new" | "Outer::new" => {
            let bp = export.split("::").next().unwrap();
            let (marker,): (String,) = input.as_typed().expect("harness: marker");
            let node = api.new_simple_object(bp, fields(&marker))?;
            let addr = globalize_simple(api, node, None)?;
            Ok(IndexedScryptoValue::from_typed(&addr))
        }
        // a heap object of the blueprint, returned to the caller
        "X::make" | "Y::make" | "Outer::make" => {
            let bp = export.split("::").next().unwrap();
            let node = api.new_simple_object(bp, fields("heap"))?;
            Ok(IndexedScryptoValue::from_typed(&Own(node)))
        }
        // a global Outer creates its inner object i1 and keeps it in field 0
        "Outer::init" => {
            let (marker,): (String,) = input.as_typed().expect("harness: marker");
            set_kv_marker(api, &marker)?;
            let imark = marker.replace('o', "i");
            let inner = api.new_simple_object("Inner", fields(&imark))?;
            api.call_method(&inner, "init_inner", scrypto_encode(&(imark.clone(),)).unwrap())?;
            let h = api.actor_open_field(ACTOR_STATE_SELF, 0, LockFlags::MUTABLE)?;
            api.field_write(h, scrypto_encode(&Own(inner)).unwrap())?;
            api.field_close(h)?;
            unit()
        }
        "X::init" | "Inner::init_inner" => {
            let (marker,): (String,) = input.as_typed().expect("harness: marker");
            set_kv_marker(api, &marker)?;
            unit()
        }
        "Outer::make_inner" => {
            let inner = api.new_simple_object("Inner", fields("heap"))?;
            Ok(IndexedScryptoValue::from_typed(&Own(inner)))
        }
        "X::noop" | "Y::noop" | "Outer::noop" | "Inner::noop" => unit(),
        // ---- actors
        "X::act_f" | "X::act" | "Y::act" | "Outer::act_f" | "Outer::act" | "Inner::act" => {
            let args: ActArgs = input.as_typed().expect("harness: actor args");
            let r = catch_act(api, &args);
            record(r);
            unit()
        }
        // forwards to the inner object held in field 0 (the actor is then a method of an inner object)
        "Outer::act_inner" => {
            let args: ActArgs = input.as_typed().expect("harness: actor args");
            let h = api.actor_open_field(ACTOR_STATE_SELF, 0, LockFlags::read_only())?;
            let inner: Own = api.field_read_typed(h)?;
            let r = api.call_method(&inner.0, "act", scrypto_encode(&args).unwrap());
            api.field_close(h)?;
            r?;
            unit()
        }
        // one more frame between the driver and the actor (a node that is moved twice)
        "Drv::relay" => {
            let args: ActArgs = input.as_typed().expect("harness: actor args");
            call_actor(api, scrypto_encode(&args).unwrap())?;
            unit()
        }
        // ---- the foreign driver
        "Drv::drive" => {
            if let Err(e) = drive(api) {
                let cls = error_class(&e);
                EST.with(|s| {
                    let mut s = s.borrow_mut();
                    if s.result.is_none() {
                        s.setup_error = Some(cls);
                    }
                });
            }
            unit()
        }
        _ => panic!("harness: unknown export {}", export),
    }
}

fn drive<Y: SystemApi<RuntimeError> + KernelNodeApi + KernelSubstateApi<SystemLockData>>(api: &mut Y) -> Result<(), RuntimeError> {
    let k = known();
    let (target, how) = EST.with(|s| {
        let s = s.borrow();
        (s.target.clone(), s.how.clone())
    });
    let (a, b) = (k.pkg_a.unwrap(), k.pkg_b.unwrap());
    let own_of = |v: Vec<u8>| -> NodeId { scrypto_decode::<Own>(&v).unwrap().0 };
    // 1. the target
    let mut keep: Vec<NodeId> = vec![];
    let node: Option<NodeId> = match target.as_str() {
        "none" | "self" => None,
        "AX" => Some(own_of(api.call_function(a, "X", "make", scrypto_encode(&()).unwrap())?)),
        "AY" => Some(own_of(api.call_function(a, "Y", "make", scrypto_encode(&()).unwrap())?)),
        "BO" => Some(own_of(api.call_function(b, "Outer", "make", scrypto_encode(&()).unwrap())?)),
        "BI1" => Some(own_of(api.call_method(k.o1.unwrap().as_node_id(), "make_inner", scrypto_encode(&()).unwrap())?)),
        "BI2" => Some(own_of(api.call_method(k.o2.unwrap().as_node_id(), "make_inner", scrypto_encode(&()).unwrap())?)),
        "bucket" => Some(ResourceManager(XRD).new_empty_bucket(api)?.0 .0),
        "vault" => Some(Vault::create(XRD, api)?.0 .0),
        "proof" => {
            let rtn = api.call_method(FAUCET.as_node_id(), "free", scrypto_encode(&()).unwrap())?;
            let bucket: Bucket = scrypto_decode(&rtn).unwrap();
            let proof = bucket.create_proof_of_all(api)?;
            keep.push(bucket.0 .0);
            Some(proof.0 .0)
        }
        "kv" => Some(api.key_value_store_new(KeyValueStoreDataSchema::new_local_without_self_package_replacement::<u8, ScryptoValue>(true))?),
        "resAX" => Some(api.allocate_global_address(BlueprintId::new(&a, "X"))?.0 .0 .0),
        "resAY" => Some(api.allocate_global_address(BlueprintId::new(&a, "Y"))?.0 .0 .0),
        "resBO" => Some(api.allocate_global_address(BlueprintId::new(&b, "Outer"))?.0 .0 .0),
        "gAX" => Some(k.x1.unwrap().into_node_id()),
        "gAY" => Some(k.y1.unwrap().into_node_id()),
        "gBO1" => Some(k.o1.unwrap().into_node_id()),
        "gBO2" => Some(k.o2.unwrap().into_node_id()),
        t => panic!("harness: unknown target {}", t),
    };
    // 2. hand it to the actor
    let vis: Vec<GlobalAddress> = vec![a.into(), b.into(), k.pkg_d.unwrap().into(), k.x1.unwrap().into(), k.y1.unwrap().into(),
                                       k.o1.unwrap().into(), k.o2.unwrap().into(), XRD.into()];
    let args: ActArgs = match (node, how.as_str()) {
        (None, _) => (vec![], vec![], vis),
        (Some(n), "own") | (Some(n), "own2") => (vec![Own(n)], vec![], vis),
        (Some(n), "ref") => (vec![], vec![Reference(n)], vis),
        (_, h) => panic!("harness: unknown how {}", h),
    };
    let enc = scrypto_encode(&args).unwrap();
    if how == "own2" {
        api.call_function(k.pkg_d.unwrap(), "Drv", "relay", enc)?;
    } else {
        call_actor(api, enc)?;
    }
    let _ = keep;
    Ok(())
}

fn call_actor<Y: SystemApi<RuntimeError>>(api: &mut Y, enc: Vec<u8>) -> Result<(), RuntimeError> {
    let k = known();
    let actor = EST.with(|s| s.borrow().actor.clone());
    let (a, b) = (k.pkg_a.unwrap(), k.pkg_b.unwrap());
    match actor.as_str() {
        "AXf" => api.call_function(a, "X", "act_f", enc)?,
        "AXm" => api.call_method(k.x1.unwrap().as_node_id(), "act", enc)?,
        "AYm" => api.call_method(k.y1.unwrap().as_node_id(), "act", enc)?,
        "BOf" => api.call_function(b, "Outer", "act_f", enc)?,
        "BOm" => api.call_method(k.o1.unwrap().as_node_id(), "act", enc)?,
        "BOm2" => api.call_method(k.o2.unwrap().as_node_id(), "act", enc)?,
        "BIm" => api.call_method(k.o1.unwrap().as_node_id(), "act_inner", enc)?,
        "BIm2" => api.call_method(k.o2.unwrap().as_node_id(), "act_inner", enc)?,
        x => panic!("harness: unknown actor {}", x),
    };
    Ok(())
}

/// the system call of the case; the Result is projected to "ok" / an error class
fn catch_act<Y: SystemApi<RuntimeError> + KernelNodeApi + KernelSubstateApi<SystemLockData>>(api: &mut Y, args: &ActArgs) -> String {
    let op = EST.with(|s| s.borrow().op.clone());
    let k = known();
    let mut node: Option<NodeId> = args.0.first().map(|o| o.0).or(args.1.first().map(|r| r.0));
    let me = api.actor_get_blueprint_id().expect("harness: actor blueprint");
    if EST.with(|s| s.borrow().target == "self") {
        node = Some(api.actor_get_node_id(ACTOR_REF_SELF).expect("harness: self target needs a method actor"));
    }
    let r: Result<String, RuntimeError> = (|| {
        let parts: Vec<&str> = op.split(':').collect();
        match parts[0] {
            "drop" => api.drop_object(&node.unwrap()).map(|_| "ok".to_string()),
            "proof_drop" => Proof(Own(node.unwrap())).drop(api).map(|_| "ok".to_string()),
            "globalize" => {
                let res = match parts.get(1).cloned() {
                    None | Some("none") => None,
                    Some("own") => Some(api.allocate_global_address(me.clone())?.0),
                    Some("target") => {
                        let bp = api.get_blueprint_id(&node.unwrap())?;
                        Some(api.allocate_global_address(bp)?.0)
                    }
                    Some(x) => panic!("harness: globalize variant {}", x),
                };
                globalize_simple(api, node.unwrap(), res).map(|_| "ok".to_string())
            }
            // globalize a fresh object of the actor's own blueprint with the reservation that was handed in
            "use_reservation" => {
                let obj = api.new_simple_object(&me.blueprint_name, fields("heap"))?;
                globalize_simple(api, obj, Some(GlobalAddressReservation(Own(node.unwrap())))).map(|_| "ok".to_string())
            }
            "new_object" => api
                .new_simple_object(parts[1], fields("heap"))
                .map(|n| {
                    // report what was created: blueprint and outer object
                    let bp = api.get_blueprint_id(&n).map(|b| b.blueprint_name).unwrap_or_default();
                    let outer = match api.get_outer_object(&n) {
                        Ok(a) if Some(a.into_node_id()) == k.o1.map(|x| x.into_node_id()) => "o1",
                        Ok(a) if Some(a.into_node_id()) == k.o2.map(|x| x.into_node_id()) => "o2",
                        Ok(_) => "other",
                        Err(_) => "none",
                    };
                    format!("ok:{}:{}", bp, outer)
                }),
            // field 1 / KV entry 1 hold a marker naming the node: the answer tells which node the handle resolved to
            "field_read" | "field_write" => {
                let handle = if parts[1] == "OUTER" { ACTOR_STATE_OUTER_OBJECT } else { ACTOR_STATE_SELF };
                let write = parts[0] == "field_write";
                let h = api.actor_open_field(handle, 1, if write { LockFlags::MUTABLE } else { LockFlags::read_only() })?;
                let marker: String = api.field_read_typed(h)?;
                if write {
                    api.field_write_typed(h, &marker)?;
                }
                api.field_close(h)?;
                Ok(format!("ok:{}", marker))
            }
            "kv" => {
                let handle = if parts[1] == "OUTER" { ACTOR_STATE_OUTER_OBJECT } else { ACTOR_STATE_SELF };
                let h = api.actor_open_key_value_entry(handle, 0, &scrypto_encode(&1u8).unwrap(), LockFlags::MUTABLE)?;
                let marker: Option<String> = api.key_value_entry_get_typed(h)?;
                api.key_value_entry_set_typed(h, marker.clone().unwrap_or_default())?;
                api.key_value_entry_close(h)?;
                Ok(format!("ok:{}", marker.unwrap_or_default()))
            }
            "kv_open" => {
                let h = api.key_value_store_open_entry(&node.unwrap(), &scrypto_encode(&7u8).unwrap(), LockFlags::MUTABLE)?;
                api.key_value_entry_set(h, scrypto_encode(&unit_value()).unwrap())?;
                api.key_value_entry_close(h)?;
                Ok("ok".to_string())
            }
            // a public method of the target: `noop` of the test blueprints, `get_amount` of bucket / vault / proof
            "call" => {
                let t = EST.with(|s| s.borrow().target.clone());
                let m = match t.as_str() {
                    "bucket" | "vault" => "get_amount",
                    "proof" => "Proof_get_amount",
                    _ => "noop",
                };
                api.call_method(&node.unwrap(), m, scrypto_encode(&()).unwrap()).map(|_| "ok".to_string())
            }
            x => panic!("harness: unknown op {}", x),
        }
    })();
    match r {
        Ok(s) => s,
        Err(e) => error_class(&e),
    }
}

// ---------------------------------------------------------------------------------------------

pub struct Bench {
    pub ledger: crate::limits::Ledger,
}

pub fn setup() -> Bench {
    let mut ledger = crate::limits::new_ledger();
    let a = ledger.publish_native_package(CODE_ID, package_a());
    let b = ledger.publish_native_package(CODE_ID, package_b());
    let d = ledger.publish_native_package(CODE_ID, package_d());
    let mut mk = |pkg: PackageAddress, bp: &str, marker: &str| -> ComponentAddress {
        let r = ledger.execute_manifest(ManifestBuilder::new().lock_fee_from_faucet().call_function(pkg, bp, "new", (marker.to_string(),)).build(), vec![]);
        r.expect_commit_success().new_component_addresses()[0]
    };
    let x1 = mk(a, "X", "x1");
    let y1 = mk(a, "Y", "y1");
    let o1 = mk(b, "Outer", "o1");
    let o2 = mk(b, "Outer", "o2");
    for (o, m) in [(x1, "x1"), (o1, "o1"), (o2, "o2")] {
        ledger
            .execute_manifest(ManifestBuilder::new().lock_fee_from_faucet().call_method(o, "init", (m.to_string(),)).build(), vec![])
            .expect_commit_success();
    }
    EST.with(|s| {
        s.borrow_mut().known = Known { pkg_a: Some(a), pkg_b: Some(b), pkg_d: Some(d), x1: Some(x1), y1: Some(y1), o1: Some(o1), o2: Some(o2) }
    });
    Bench { ledger }
}

impl Bench {
    pub fn run_case(&mut self, c: &Value) -> String {
        let k = known();
        EST.with(|s| {
            let mut s = s.borrow_mut();
            s.actor = c["actor"].as_str().unwrap().to_string();
            s.target = c["target"].as_str().unwrap().to_string();
            s.how = c["how"].as_str().unwrap().to_string();
            s.op = c["op"].as_str().unwrap().to_string();
            s.result = None;
            s.setup_error = None;
        });
        // every address the driver and the actors use is handed in, so that it is visible to their frames
        let visible: Vec<GlobalAddress> = vec![
            k.pkg_a.unwrap().into(), k.pkg_b.unwrap().into(), k.pkg_d.unwrap().into(), k.x1.unwrap().into(), k.y1.unwrap().into(),
            k.o1.unwrap().into(), k.o2.unwrap().into(), FAUCET.into(), XRD.into(),
        ];
        let manifest = ManifestBuilder::new().lock_fee_from_faucet().call_function(k.pkg_d.unwrap(), "Drv", "drive", (visible,)).build();
        let nonce = self.ledger.next_transaction_nonce();
        let tx = TestTransaction::new_v1_from_nonce(manifest, nonce, btreeset!());
        let _receipt = self.ledger.execute_transaction_no_commit(tx, ExecutionConfig::for_test_transaction().with_cost_breakdown(false));
        EST.with(|s| {
            let s = s.borrow();
            match (&s.result, &s.setup_error) {
                (Some(r), _) => r.clone(),
                (None, Some(e)) => format!("setup:{}", e),
                (None, None) => "setup:not-reached".to_string(),
            }
        })
    }
}

pub fn run(mode: &str, args: &Args) {
    match mode {
        "replay" => replay(args, false),
        // every answer of the engine, without comparing (exploration / evidence)
        "answers" => replay(args, true),
        _ => panic!("mode"),
    }
}

fn replay(_args: &Args, all: bool) {
    let mut b = setup();
    let mut out = Out::new();
    let cases = read_lines();
    let mut classes = std::collections::BTreeMap::<String, u64>::new();
    for (ci, c) in cases.iter().enumerate() {
        let got = match catch(|| b.run_case(c)) {
            Ok(g) => g,
            Err(msg) => {
                if msg.starts_with("harness:") {
                    out.emit(&json!({"harness_error": msg, "b": ci}));
                    continue;
                }
                "panic".to_string()
            }
        };
        *classes.entry(got.clone()).or_default() += 1;
        if all {
            out.emit(&json!({"b": ci, "got": got}));
        } else if json!(got) != c["exp"] {
            out.mismatch(ci, 0, "answer", c["exp"].clone(), json!(got));
        }
    }
    out.emit(&json!({"classes": classes}));
    out.done(cases.len(), cases.len());
}
